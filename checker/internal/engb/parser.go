package engb

import (
	"fmt"
	"go/types"
	"strings"

	"golang.org/x/tools/go/ssa"
)

// ParserChoice (B-PARSER): in the file loader the JSON/YAML parser is chosen by the extension of a name. That name must be the
// RESOLVED file name (first result of QualifiedFileName: extension resolution and symlinks applied) — the file that is opened —
// not the name as written in the $ref / on the command line: otherwise `$ref: "shared"` resolved to shared.yaml is handed to the
// JSON parser. Rule: every path.Ext / filepath.Ext call whose result indexes a map[string]bool field of a loader type in
// pkg/schemas takes (a) the resolved name, or (b) a parameter that receives the resolved name at every call site (depth <= 3);
// HTTP loaders (argument derived from a parsed URL) are out of scope of the file rule and only counted.
func (a *Analyzer) ParserChoice() []RuleResult {
	var out []RuleResult
	n := 0
	for _, f := range a.P.Funcs {
		if !strings.HasPrefix(a.P.FuncName(f), "(*pkg/schemas.") && !strings.HasPrefix(a.P.FuncName(f), "pkg/schemas.") {
			continue
		}
		for _, call := range Calls(f) {
			cn := shortCallee(call)
			if cn != "path.Ext" && cn != "path/filepath.Ext" {
				continue
			}
			cv, ok := call.(*ssa.Call)
			if !ok {
				continue
			}
			// the result must select in a map[string]bool (extension set)
			selects := false
			for _, r := range refs(cv) {
				if lk, ok := r.(*ssa.Lookup); ok {
					if m, ok := lk.X.Type().Underlying().(*types.Map); ok {
						if b, ok := m.Elem().Underlying().(*types.Basic); ok && b.Kind() == types.Bool {
							selects = true
						}
					}
				}
			}
			if !selects {
				continue
			}
			arg := cv.Call.Args[0]
			if derivedFromURL(arg) {
				out = append(out, RuleResult{"B-PARSER", a.P.FuncName(f), "extension of a URL path selects the parser (HTTP loader)", a.P.InstrPos(cv), true, "not a file name: no extension resolution applies"})
				continue
			}
			n++
			ok2, why := a.resolvedName(arg, f, 0)
			out = append(out, RuleResult{"B-PARSER", a.P.FuncName(f), "the parser is chosen by the extension of the resolved file name", a.P.InstrPos(cv), ok2, why})
		}
	}
	out = append(out, RuleResult{"B-PARSER", "(module)", "extension-based parser choices on file names", "", n >= 1, fmt.Sprintf("%d site(s)", n)})
	return out
}

func derivedFromURL(v ssa.Value) bool {
	for i := 0; i < 6 && v != nil; i++ {
		switch x := v.(type) {
		case *ssa.UnOp:
			v = x.X
		case *ssa.FieldAddr:
			if strings.Contains(x.X.Type().String(), "net/url.URL") {
				return true
			}
			v = x.X
		case *ssa.Field:
			if strings.Contains(x.X.Type().String(), "net/url.URL") {
				return true
			}
			v = x.X
		default:
			return false
		}
	}
	return false
}

// resolvedName: v is the first result of QualifiedFileName, or a parameter that is at every call site.
func (a *Analyzer) resolvedName(v ssa.Value, f *ssa.Function, depth int) (bool, string) {
	switch x := v.(type) {
	case *ssa.Extract:
		if c, ok := x.Tuple.(*ssa.Call); ok && x.Index == 0 {
			if cal := c.Call.StaticCallee(); cal != nil && strings.HasSuffix(a.P.FuncName(cal), "pkg/schemas.QualifiedFileName") {
				return true, "the first result of QualifiedFileName"
			}
		}
		return false, "a value that is not the result of QualifiedFileName (" + x.String() + ")"
	case *ssa.Parameter:
		if depth >= 3 {
			return false, "parameter chain deeper than 3"
		}
		idx := -1
		for i, p := range f.Params {
			if p == x {
				idx = i
			}
		}
		sites := 0
		for _, g := range a.P.Funcs {
			for _, call := range Calls(g) {
				if call.Common().StaticCallee() != f {
					continue
				}
				sites++
				args := call.Common().Args
				if idx >= len(args) {
					return false, "call site with fewer arguments"
				}
				if ok, why := a.resolvedName(args[idx], g, depth+1); !ok {
					return false, fmt.Sprintf("parameter %s of %s receives %s at %s", x.Name(), a.P.FuncName(f), why, a.P.InstrPos(call.(ssa.Instruction)))
				}
			}
		}
		if sites == 0 {
			return false, fmt.Sprintf("parameter %s of %s: the name as given by the caller (no static call site passes a resolved name; the function is reached through an interface with the raw reference)", x.Name(), a.P.FuncName(f))
		}
		return true, fmt.Sprintf("parameter %s of %s, which receives the first result of QualifiedFileName at all %d call site(s)", x.Name(), a.P.FuncName(f), sites)
	}
	return false, "a value that is not the result of QualifiedFileName (" + v.String() + ")"
}
