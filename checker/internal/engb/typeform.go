package engb

import (
	"fmt"
	"go/token"
	"go/types"

	"golang.org/x/tools/go/ssa"
)

// TypeForms (B-TYPEFORM): two spelling equivalences that are decided by the shape of two small decoders.
//
//  1. `"type": "T"` and `"type": ["T"]` must decode to the same TypeList. In (*TypeList).UnmarshalJSON every store to the
//     receiver is (a) the []string local that json.Unmarshal filled (list form), (b) a fresh one-element slice whose
//     element is the string local that json.Unmarshal filled (string form), or (c) nil under the guard that this string
//     is empty. Any other stored value (a transformed string, a longer list, a sub-slice) makes the two spellings differ.
//
//  2. `true` and `{}` must decode to the same Type. In (*Type).UnmarshalJSON the store on the branch where the decoded
//     boolean is true is the zero Type (what `{}` decodes to, encoding/json leaving absent fields zero).
func (a *Analyzer) TypeForms() []RuleResult {
	var out []RuleResult
	// ---- 1
	fn := "(*pkg/schemas.TypeList).UnmarshalJSON"
	f := a.P.Func(fn)
	if f == nil {
		return []RuleResult{{"B-TYPEFORM", fn, "anchor", "", false, "function not found"}}
	}
	decoded := map[ssa.Value]bool{} // allocs handed to json.Unmarshal
	for _, c := range Calls(f) {
		if shortCallee(c) != "encoding/json.Unmarshal" {
			continue
		}
		if mi, ok := c.Common().Args[1].(*ssa.MakeInterface); ok {
			decoded[mi.X] = true
		}
	}
	recv := f.Params[0]
	listForm, stringForm := 0, 0
	for _, b := range f.Blocks {
		for _, in := range b.Instrs {
			st, ok := in.(*ssa.Store)
			if !ok || st.Addr != recv {
				continue
			}
			v := st.Val
			if ct, ok := v.(*ssa.ChangeType); ok {
				v = ct.X
			}
			pos := a.P.InstrPos(st)
			switch x := v.(type) {
			case *ssa.Const:
				ok2 := x.IsNil() && guardedByEmptyString(b, decoded)
				out = append(out, RuleResult{"B-TYPEFORM", fn, "nil list only for the empty string form", pos, ok2, "store of nil"})
			case *ssa.UnOp:
				if x.Op == token.MUL && decoded[x.X] && isStringSlice(x.Type()) {
					listForm++
					out = append(out, RuleResult{"B-TYPEFORM", fn, "list form stores the decoded list itself", pos, true, "*" + x.X.Name()})
				} else {
					out = append(out, RuleResult{"B-TYPEFORM", fn, "receiver gets a value that is not the decoded list", pos, false, x.String()})
				}
			case *ssa.Slice:
				ok2, why := oneElementOfDecodedString(x, decoded)
				if ok2 {
					stringForm++
				}
				out = append(out, RuleResult{"B-TYPEFORM", fn, "string form stores the one-element list of the decoded string", pos, ok2, why})
			default:
				out = append(out, RuleResult{"B-TYPEFORM", fn, "receiver gets a value of unrecognised origin", pos, false, v.String()})
			}
		}
	}
	out = append(out, RuleResult{"B-TYPEFORM", fn, "both forms are handled", "", listForm >= 1 && stringForm >= 1, fmt.Sprintf("%d list-form store(s), %d string-form store(s)", listForm, stringForm)})

	// ---- 2
	fn2 := "(*pkg/schemas.Type).UnmarshalJSON"
	g := a.P.Func(fn2)
	if g == nil {
		return append(out, RuleResult{"B-TYPEFORM", fn2, "anchor", "", false, "function not found"})
	}
	var boolCell ssa.Value
	for _, c := range Calls(g) {
		if shortCallee(c) != "encoding/json.Unmarshal" {
			continue
		}
		if mi, ok := c.Common().Args[1].(*ssa.MakeInterface); ok {
			if p, ok := mi.X.Type().Underlying().(*types.Pointer); ok {
				if bt, ok := p.Elem().Underlying().(*types.Basic); ok && bt.Kind() == types.Bool {
					boolCell = mi.X
				}
			}
		}
	}
	n := 0
	for _, b := range g.Blocks {
		iff, ok := b.Instrs[len(b.Instrs)-1].(*ssa.If)
		if !ok {
			continue
		}
		ld, ok := iff.Cond.(*ssa.UnOp)
		if !ok || ld.Op != token.MUL || ld.X != boolCell || boolCell == nil {
			continue
		}
		// the true successor: the receiver must end up as the zero Type. go/ssa may build a literal in place
		// (`*value = Type{}` followed by stores through &value.F) or in a local that is then copied.
		tb := b.Succs[0]
		for _, in := range tb.Instrs {
			st, ok := in.(*ssa.Store)
			if !ok {
				continue
			}
			if fa, ok := st.Addr.(*ssa.FieldAddr); ok && fa.X == ssa.Value(g.Params[0]) {
				n++
				out = append(out, RuleResult{"B-TYPEFORM", fn2, "`true` decodes to the zero Type, like `{}`", a.P.InstrPos(st), false,
					"field " + FieldAddrName(fa) + " is set on the branch for `true`: `true` and `{}` decode differently"})
				continue
			}
			if st.Addr != ssa.Value(g.Params[0]) {
				continue
			}
			n++
			ok2, why := false, ""
			switch v := st.Val.(type) {
			case *ssa.Const:
				ok2, why = v.Value == nil, "zero value"
			case *ssa.UnOp:
				// copy of a local literal: zero iff nothing was stored into it
				if al, isAl := v.X.(*ssa.Alloc); isAl && v.Op == token.MUL {
					ok2, why = true, "copy of an untouched local literal"
					for _, r := range refs(al) {
						if _, isFA := r.(*ssa.FieldAddr); isFA {
							ok2 = false
						}
					}
				}
			}
			if !ok2 {
				why = "the value stored for `true` is not the zero Type (" + st.Val.String() + "): `true` and `{}` decode differently"
			}
			out = append(out, RuleResult{"B-TYPEFORM", fn2, "`true` decodes to the zero Type, like `{}`", a.P.InstrPos(st), ok2, why})
		}
	}
	out = append(out, RuleResult{"B-TYPEFORM", fn2, "boolean-schema branch found", "", n >= 1, fmt.Sprintf("%d store(s) on the true branch", n)})
	return out
}

func isStringSlice(t types.Type) bool {
	s, ok := t.Underlying().(*types.Slice)
	if !ok {
		return false
	}
	b, ok := s.Elem().Underlying().(*types.Basic)
	return ok && b.Kind() == types.String
}

// oneElementOfDecodedString: slice t[:] of a fresh [1]string whose single store is a load of a decoded string cell.
func oneElementOfDecodedString(sl *ssa.Slice, decoded map[ssa.Value]bool) (bool, string) {
	if sl.Low != nil || sl.High != nil || sl.Max != nil {
		return false, "a sub-slice is stored"
	}
	al, ok := sl.X.(*ssa.Alloc)
	if !ok {
		return false, "not a slice literal"
	}
	arr, ok := al.Type().Underlying().(*types.Pointer).Elem().Underlying().(*types.Array)
	if !ok || arr.Len() != 1 {
		return false, fmt.Sprintf("the literal does not have exactly one element (%s)", al.Type())
	}
	stores := 0
	for _, r := range refs(al) {
		ia, ok := r.(*ssa.IndexAddr)
		if !ok {
			continue
		}
		for _, rr := range refs(ia) {
			st, ok := rr.(*ssa.Store)
			if !ok || st.Addr != ia {
				continue
			}
			stores++
			ld, ok := st.Val.(*ssa.UnOp)
			if !ok || ld.Op != token.MUL || !decoded[ld.X] {
				return false, "the element is not the decoded string itself (" + st.Val.String() + ")"
			}
		}
	}
	if stores != 1 {
		return false, fmt.Sprintf("%d element stores", stores)
	}
	return true, "[]string{<decoded string>}"
}

// guardedByEmptyString: the block is reached only through the false side of `s != ""` / true side of `s == ""` on a decoded string.
func guardedByEmptyString(b *ssa.BasicBlock, decoded map[ssa.Value]bool) bool {
	for d := b; d != nil; d = d.Idom() {
		id := d.Idom()
		if id == nil {
			return false
		}
		iff, ok := id.Instrs[len(id.Instrs)-1].(*ssa.If)
		if !ok {
			continue
		}
		bo, ok := iff.Cond.(*ssa.BinOp)
		if !ok {
			continue
		}
		ld, ok := bo.X.(*ssa.UnOp)
		c, ok2 := bo.Y.(*ssa.Const)
		if !ok || !ok2 || ld.Op != token.MUL || !decoded[ld.X] || c.Value == nil || c.Value.ExactString() != `""` {
			continue
		}
		if bo.Op == token.NEQ && id.Succs[1] == d && len(d.Preds) == 1 {
			return true
		}
		if bo.Op == token.EQL && id.Succs[0] == d && len(d.Preds) == 1 {
			return true
		}
	}
	return false
}
