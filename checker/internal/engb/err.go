package engb

import (
	"fmt"
	"go/token"
	"go/types"
	"sort"
	"strings"

	"golang.org/x/tools/go/ssa"

	"verif/checker/internal/core"
)

// ErrSite is one call whose result tuple contains an error.
type ErrSite struct {
	Fn      *ssa.Function
	Call    ssa.CallInstruction
	Callee  string // short callee name
	Key     string // callee#occurrence, position-free
	Pos     string
	Verdict string // "handled", "dropped", "exception"
	How     string // how it was handled / where it is dropped / why excepted
	DropPos string
}

// errException is an enumerated, reasoned exception of B-ERR. Func=="" means any function.
type errException struct {
	Func   string // FuncName of the enclosing function ("" = any)
	Callee string // short callee name
	Reason string
	// check is an additional, *checked* side condition on the call; nil = none.
	check func(a *Analyzer, c ssa.CallInstruction) bool
}

func firstArgIs(pred func(ssa.Value) bool) func(a *Analyzer, c ssa.CallInstruction) bool {
	return func(a *Analyzer, c ssa.CallInstruction) bool {
		args := c.Common().Args
		if len(args) == 0 {
			return false
		}
		return pred(args[0])
	}
}

func stripIface(v ssa.Value) ssa.Value {
	for {
		switch x := v.(type) {
		case *ssa.MakeInterface:
			v = x.X
		case *ssa.ChangeInterface:
			v = x.X
		default:
			return v
		}
	}
}

func isStringsBuilderPtr(v ssa.Value) bool {
	v = stripIface(v)
	return types.TypeString(v.Type(), nil) == "*strings.Builder"
}

func isStderr(v ssa.Value) bool {
	return GlobalName(stripIface(v)) == "os.Stderr"
}

// receiverFromOsOpen: the receiver of the call is the result of os.Open (a
// read-only handle) in the same or the lexically enclosing function.
func receiverFromOsOpen(a *Analyzer, c ssa.CallInstruction) bool {
	args := c.Common().Args
	if len(args) == 0 {
		return false
	}
	v := args[0]
	seen := map[ssa.Value]bool{}
	var from func(v ssa.Value) bool
	from = func(v ssa.Value) bool {
		if seen[v] {
			return false
		}
		seen[v] = true
		switch x := v.(type) {
		case *ssa.Extract:
			if call, ok := x.Tuple.(*ssa.Call); ok {
				if f := call.Call.StaticCallee(); f != nil && f.String() == "os.Open" {
					return true
				}
			}
		case *ssa.UnOp:
			if x.Op == token.MUL {
				return from(x.X)
			}
		case *ssa.FreeVar:
			// find the binding in the enclosing function's MakeClosure
			fn := x.Parent()
			idx := -1
			for i, fv := range fn.FreeVars {
				if fv == x {
					idx = i
				}
			}
			if par := fn.Parent(); par != nil && idx >= 0 {
				for _, b := range par.Blocks {
					for _, in := range b.Instrs {
						if mc, ok := in.(*ssa.MakeClosure); ok && mc.Fn == fn {
							return from(mc.Bindings[idx])
						}
					}
				}
			}
		case *ssa.Alloc:
			// every store into the cell must come from os.Open
			ok := false
			for _, r := range refs(x) {
				if st, isSt := r.(*ssa.Store); isSt && st.Addr == x {
					if !from(st.Val) {
						return false
					}
					ok = true
				}
			}
			return ok
		case *ssa.Phi:
			for _, e := range x.Edges {
				if !from(e) {
					return false
				}
			}
			return true
		}
		return false
	}
	return from(v)
}

var errExceptions = []errException{
	{"", "(*strings.Builder).WriteString", "strings.Builder writes are documented to always return a nil error", nil},
	{"", "(*strings.Builder).WriteRune", "strings.Builder writes are documented to always return a nil error", nil},
	{"", "(*strings.Builder).WriteByte", "strings.Builder writes are documented to always return a nil error", nil},
	{"", "(*strings.Builder).Write", "strings.Builder writes are documented to always return a nil error", nil},
	{"", "fmt.Fprintf", "formatted write into a *strings.Builder cannot fail (checked: first argument is a *strings.Builder)", firstArgIs(isStringsBuilderPtr)},
	{"", "fmt.Fprint", "formatted write into a *strings.Builder cannot fail (checked: first argument is a *strings.Builder)", firstArgIs(isStringsBuilderPtr)},
	{"main.logf", "fmt.Fprintf", "diagnostic written to os.Stderr: nothing useful can be done when the diagnostic stream itself fails (checked: first argument is os.Stderr)", firstArgIs(isStderr)},
	{"main.logf", "fmt.Fprint", "diagnostic written to os.Stderr: nothing useful can be done when the diagnostic stream itself fails (checked: first argument is os.Stderr)", firstArgIs(isStderr)},
	{"", "(*os.File).Close", "Close on a read-only handle obtained from os.Open: no buffered data can be lost (checked: receiver comes from os.Open)", receiverFromOsOpen},
	{"(*pkg/schemas.HTTPLoader).Load$1", "invoke io.ReadCloser.Close", "Close of an HTTP response body that was only read", nil},
	{"(*pkg/generator.defaultValidator).dumpDefaultValue", "(*pkg/generator.defaultValidator).tryDumpDefaultSlice", "shape probe: the error only says 'the default is not a slice', and the caller falls back to the generic dumper", nil},
	{"pkg/schemas.fileExists", "os.Stat", "existence probe: the error is the answer (converted to the boolean result through os.IsNotExist)", nil},
	{"(*pkg/schemas.Type).UnmarshalJSON", "encoding/json.Unmarshal#0", "boolean-schema probe: failure to decode as a bool means 'decode as an object next', and that second decode reports its own error", nil},
}

func (a *Analyzer) errExceptionFor(fn string, c ssa.CallInstruction, callee, key string) (string, bool) {
	for _, ex := range errExceptions {
		if ex.Func != "" && ex.Func != fn {
			continue
		}
		if ex.Callee != callee && ex.Callee != key {
			continue
		}
		if ex.check != nil && !ex.check(a, c) {
			continue
		}
		return ex.Reason, true
	}
	return "", false
}

func errResultIndex(sig *types.Signature) int {
	res := sig.Results()
	for i := res.Len() - 1; i >= 0; i-- {
		if core.IsErrorType(res.At(i).Type()) {
			return i
		}
	}
	return -1
}

// errorConstructors build a fresh, non-nil error.
func isErrorConstructor(c *ssa.Call) bool {
	f := c.Call.StaticCallee()
	if f == nil {
		return false
	}
	switch f.String() {
	case "fmt.Errorf", "errors.New", "github.com/pkg/errors.New", "github.com/pkg/errors.Errorf",
		"github.com/pkg/errors.Wrap", "github.com/pkg/errors.Wrapf":
		return true
	}
	return false
}

// ErrSites enumerates every error-returning call in the module and decides
// whether a non-nil error can be lost.
func (a *Analyzer) ErrSites() []*ErrSite {
	var out []*ErrSite
	for _, fn := range a.P.Funcs {
		occ := map[string]int{}
		calls := Calls(fn)
		sort.SliceStable(calls, func(i, j int) bool { return calls[i].Pos() < calls[j].Pos() })
		for _, c := range calls {
			sig := c.Common().Signature()
			k := errResultIndex(sig)
			if k < 0 {
				continue
			}
			callee := shortCallee(c)
			key := fmt.Sprintf("%s#%d", callee, occ[callee])
			occ[callee]++
			s := &ErrSite{Fn: fn, Call: c, Callee: callee, Key: key, Pos: a.P.InstrPos(c.(ssa.Instruction))}
			a.decideErrSite(s, k)
			out = append(out, s)
		}
	}
	return out
}

func (a *Analyzer) decideErrSite(s *ErrSite, k int) {
	fname := a.P.FuncName(s.Fn)
	// deferred / go calls: the result is discarded by construction
	if _, ok := s.Call.(*ssa.Call); !ok {
		if r, ok := a.errExceptionFor(fname, s.Call, s.Callee, s.Key); ok {
			s.Verdict, s.How = "exception", r
			return
		}
		s.Verdict, s.How, s.DropPos = "dropped", "error result of a deferred/go call is discarded", s.Pos
		return
	}
	call := s.Call.(*ssa.Call)
	// e: the SSA values holding the error
	var roots []ssa.Value
	if call.Call.Signature().Results().Len() == 1 {
		roots = append(roots, call)
	} else {
		for _, r := range refs(call) {
			if ex, ok := r.(*ssa.Extract); ok && ex.Index == k {
				roots = append(roots, ex)
			}
		}
	}
	// Derived set D and facts gathered on the way.
	D := map[ssa.Value]bool{}
	escaped := ""
	abortCalls := map[ssa.Instruction]bool{} // calls that abort when handed a D value
	var work []ssa.Value
	add := func(v ssa.Value) {
		if !D[v] {
			D[v] = true
			work = append(work, v)
		}
	}
	for _, r := range roots {
		add(r)
	}
	varargArrays := map[*ssa.Alloc]bool{}
	collectors := map[ssa.Instruction]bool{} // appends of (something derived from) e to a []error
	for len(work) > 0 {
		v := work[len(work)-1]
		work = work[:len(work)-1]
		for _, r := range refs(v) {
			switch x := r.(type) {
			case *ssa.Phi:
				add(x)
			case *ssa.ChangeInterface:
				add(x)
			case *ssa.MakeInterface:
				add(x)
			case *ssa.ChangeType:
				add(x)
			case *ssa.TypeAssert:
				add(x)
			case *ssa.Extract:
				add(x)
			case *ssa.Store:
				if x.Val != v {
					continue
				}
				switch addr := x.Addr.(type) {
				case *ssa.Alloc:
					// a local cell (captured or address-taken variable): loads see e
					for _, rr := range refs(addr) {
						if ld, ok := rr.(*ssa.UnOp); ok && ld.Op == token.MUL {
							add(ld)
						}
						if mc, ok := rr.(*ssa.MakeClosure); ok {
							escaped = "captured by closure " + mc.Fn.Name()
						}
					}
				case *ssa.IndexAddr:
					if al, ok := addr.X.(*ssa.Alloc); ok {
						varargArrays[al] = true
						for _, rr := range refs(al) {
							if sl, ok := rr.(*ssa.Slice); ok {
								add(sl) // the varargs slice carries e into the call
							}
						}
					} else {
						escaped = "stored into " + exprKey(addr)
					}
				default:
					escaped = "stored into " + exprKey(x.Addr)
				}
			case ssa.CallInstruction:
				cc := x.Common()
				if g := cc.StaticCallee(); g != nil {
					if k := a.ExitKind(r); k == "fail" {
						abortCalls[r] = true
						continue
					}
					for i, arg := range cc.Args {
						if arg == v && a.abortOnParam[g][i] {
							abortCalls[r] = true
						}
					}
				}
				if bi, ok := cc.Value.(*ssa.Builtin); ok && bi.Name() == "append" {
					if cv, ok := r.(*ssa.Call); ok && isErrorSlice(cv.Type()) {
						// collected into a []error: the slice stands for e from here on (it must reach a return, e.g. through errors.Join)
						add(cv)
						collectors[r] = true
					} else {
						escaped = "appended to a slice"
					}
				}
				if cv, ok := r.(*ssa.Call); ok {
					if errResultIndex(cc.Signature()) >= 0 {
						// wrapper: the callee's error result stands for e from here on
						add(cv)
					}
				}
			case *ssa.MapUpdate, *ssa.Send:
				escaped = "stored into a map/channel"
			}
		}
	}

	// Path walk from just after the call, under the assumption e != nil.
	type drop struct{ pos, why string }
	var drops []drop
	handledHow := map[string]bool{}
	type bk struct {
		b *ssa.BasicBlock
		c bool
	}
	seen := map[bk]bool{}
	sig := s.Fn.Signature
	errIdx := errResultIndex(sig)
	var walkC func(b *ssa.BasicBlock, from int, collected bool)
	walk := func(b *ssa.BasicBlock, from int) { walkC(b, from, false) }
	walkC = func(b *ssa.BasicBlock, from int, collected bool) {
		walk := func(b *ssa.BasicBlock, from int) { walkC(b, from, collected) }
		if from == 0 {
			if seen[bk{b, collected}] {
				return
			}
			seen[bk{b, collected}] = true
		}
		for i := from; i < len(b.Instrs); i++ {
			in := b.Instrs[i]
			if collectors[in] {
				collected = true
			}
			if in == ssa.Instruction(call) && !(b == call.Block() && from > 0 && i < from) {
				if collected {
					return // e is kept in the collection; the next execution's error is an obligation of its own
				}
				drops = append(drops, drop{a.P.InstrPos(in), "is the same call again: the earlier error is overwritten by the next execution before anything examined it"})
				return
			}
			if abortCalls[in] {
				handledHow["handed to aborting call "+shortCallee(in.(ssa.CallInstruction))] = true
				return
			}
			if k := a.ExitKind(in); k != "" {
				if k == "fail" {
					handledHow["reaches failing exit "+shortCallee(in.(ssa.CallInstruction))] = true
				} else {
					drops = append(drops, drop{a.P.InstrPos(in), "exits the process with a " + k + " status"})
				}
				return
			}
			switch t := in.(type) {
			case *ssa.Panic:
				handledHow["panics"] = true
				return
			case *ssa.Return:
				if errIdx < 0 {
					// a function without an error result: an inspected-and-converted
					// error (bool result computed from e) counts as reported.
					for _, rv := range t.Results {
						if dependsOn(rv, D, 4) {
							handledHow["converted into the function's result"] = true
							return
						}
					}
					drops = append(drops, drop{a.P.InstrPos(t), "function returns without an error result"})
					return
				}
				rv := t.Results[errIdx]
				switch {
				case D[rv]:
					handledHow["returned"] = true
				case isNilConst(rv):
					drops = append(drops, drop{a.P.InstrPos(t), "returns a nil error"})
				default:
					if a.freshNonNilError(rv, D) {
						handledHow["returns a fresh error"] = true
					} else {
						drops = append(drops, drop{a.P.InstrPos(t), "returns an error value not derived from this error (" + exprKey(rv) + "), which may be nil"})
					}
				}
				return
			case *ssa.If:
				if side, ok := nilTestSide(t.Cond, func(v ssa.Value) bool { return D[v] }); ok {
					walk(b.Succs[side], 0)
					return
				}
				// io.EOF is not a failure but the end-of-input signal of a reader: on the side where the error IS io.EOF it has been
				// looked at and means "nothing more to read"; only the other side carries a failure
				if side, ok := eofTestSide(t.Cond, func(v ssa.Value) bool { return D[v] }); ok {
					handledHow["io.EOF recognised as the end of the input"] = true
					walk(b.Succs[1-side], 0)
					return
				}
			}
		}
		for _, sblk := range b.Succs {
			walk(sblk, 0)
		}
	}
	in := s.Call.(ssa.Instruction)
	walk(in.Block(), instrIndex(in)+1)

	if len(drops) == 0 {
		hs := []string{}
		for h := range handledHow {
			hs = append(hs, h)
		}
		sort.Strings(hs)
		s.Verdict, s.How = "handled", strings.Join(hs, "; ")
		return
	}
	if r, ok := a.errExceptionFor(fname, s.Call, s.Callee, s.Key); ok {
		s.Verdict, s.How = "exception", r
		return
	}
	if escaped != "" {
		s.Verdict, s.How = "handled", "escapes: "+escaped+" (not followed further)"
		return
	}
	s.Verdict = "dropped"
	s.DropPos = drops[0].pos
	s.How = fmt.Sprintf("a non-nil error from %s can reach %s, which %s", s.Callee, drops[0].pos, drops[0].why)
}

func isNilConst(v ssa.Value) bool {
	c, ok := v.(*ssa.Const)
	return ok && c.IsNil()
}

// dependsOn: v is computed from a value in D within `depth` steps.
func dependsOn(v ssa.Value, D map[ssa.Value]bool, depth int) bool {
	if D[v] {
		return true
	}
	if depth == 0 {
		return false
	}
	in, ok := v.(ssa.Instruction)
	if !ok {
		return false
	}
	for _, op := range in.Operands(nil) {
		if *op != nil && dependsOn(*op, D, depth-1) {
			return true
		}
	}
	return false
}

// freshNonNilError: v is certainly a non-nil error that does not come from D:
// the result of an error constructor, a package-level sentinel, or a phi of such.
func (a *Analyzer) freshNonNilError(v ssa.Value, D map[ssa.Value]bool) bool {
	seen := map[ssa.Value]bool{}
	var ok func(v ssa.Value) bool
	ok = func(v ssa.Value) bool {
		if seen[v] {
			return true
		}
		seen[v] = true
		if D[v] {
			return true
		}
		switch x := v.(type) {
		case *ssa.Call:
			return isErrorConstructor(x)
		case *ssa.UnOp:
			if x.Op == token.MUL {
				if g, isG := x.X.(*ssa.Global); isG && core.IsErrorType(g.Type().(*types.Pointer).Elem()) {
					return true
				}
			}
		case *ssa.Phi:
			for _, e := range x.Edges {
				if !ok(e) {
					return false
				}
			}
			return true
		case *ssa.MakeInterface:
			return true // a concrete value converted to error is non-nil as an interface
		}
		return false
	}
	return ok(v)
}

func isErrorSlice(t types.Type) bool {
	sl, ok := t.Underlying().(*types.Slice)
	return ok && core.IsErrorType(sl.Elem())
}

// eofTestSide recognises cond as a (possibly negated) test "the error is io.EOF" — errors.Is(e, io.EOF) or e == io.EOF — on a value
// satisfying is(), and returns the index (0 = then, 1 = else) of the successor taken when the error IS io.EOF.
func eofTestSide(cond ssa.Value, is func(ssa.Value) bool) (int, bool) {
	neg := false
	for {
		if u, ok := cond.(*ssa.UnOp); ok && u.Op == token.NOT {
			neg = !neg
			cond = u.X
			continue
		}
		break
	}
	isEOF := func(v ssa.Value) bool {
		u, ok := v.(*ssa.UnOp)
		if !ok || u.Op != token.MUL {
			return false
		}
		g, ok := u.X.(*ssa.Global)
		return ok && g.Pkg != nil && g.Pkg.Pkg.Path() == "io" && g.Name() == "EOF"
	}
	eofOnThen := false
	switch c := cond.(type) {
	case *ssa.Call:
		if f := c.Call.StaticCallee(); f == nil || f.String() != "errors.Is" || len(c.Call.Args) != 2 || !is(c.Call.Args[0]) || !isEOF(c.Call.Args[1]) {
			return 0, false
		}
		eofOnThen = true
	case *ssa.BinOp:
		if c.Op != token.EQL && c.Op != token.NEQ {
			return 0, false
		}
		if !(is(c.X) && isEOF(c.Y)) && !(is(c.Y) && isEOF(c.X)) {
			return 0, false
		}
		eofOnThen = c.Op == token.EQL
	default:
		return 0, false
	}
	if neg {
		eofOnThen = !eofOnThen
	}
	if eofOnThen {
		return 0, true
	}
	return 1, true
}
