package engb

import (
	"fmt"
	"strings"

	"golang.org/x/tools/go/ssa"
)

// Layout checks B-LAYOUT for the date/time wrapper types of pkg/types: for
// each type, MarshalJSON prints the time with the same layout constant that
// UnmarshalJSON parses with, on EVERY return path of MarshalJSON (a path that
// returns something else — e.g. a literal null for a zero value — makes a
// decoded value marshal to different text), and UnmarshalJSON's only value
// store goes through time.Parse.
func (a *Analyzer) Layout() []RuleResult {
	var out []RuleResult
	n := 0
	for _, f := range a.P.Funcs {
		name := a.P.FuncName(f)
		if !strings.HasPrefix(name, "(pkg/types.") || !strings.HasSuffix(name, ").MarshalJSON") {
			continue
		}
		n++
		typ := strings.TrimSuffix(strings.TrimPrefix(name, "(pkg/types."), ").MarshalJSON")
		un := a.P.Func("(*pkg/types." + typ + ").UnmarshalJSON")
		if un == nil {
			out = append(out, RuleResult{"B-LAYOUT", name, "sibling UnmarshalJSON", a.P.Pos(f.Pos()), false, "no UnmarshalJSON for " + typ})
			continue
		}
		// layout used by Format in Marshal
		var fmtLayouts, parseLayouts []string
		for _, c := range Calls(f) {
			if shortCallee(c) == "(time.Time).Format" {
				if s, ok := ConstString(c.Common().Args[1]); ok {
					fmtLayouts = append(fmtLayouts, s)
				} else {
					fmtLayouts = append(fmtLayouts, "?")
				}
			}
		}
		for _, c := range Calls(un) {
			if shortCallee(c) == "time.Parse" {
				if s, ok := ConstString(c.Common().Args[0]); ok {
					parseLayouts = append(parseLayouts, s)
				} else {
					parseLayouts = append(parseLayouts, "?")
				}
			}
		}
		ok := len(fmtLayouts) == 1 && len(parseLayouts) == 1 && fmtLayouts[0] == parseLayouts[0] && fmtLayouts[0] != "?"
		out = append(out, RuleResult{"B-LAYOUT", name, "Format layout equals Parse layout", a.P.Pos(f.Pos()), ok,
			fmt.Sprintf("MarshalJSON formats with %v, UnmarshalJSON parses with %v", fmtLayouts, parseLayouts)})
		// every return of MarshalJSON must return bytes derived from the Format call
		rets, good := 0, 0
		for _, b := range f.Blocks {
			ret, isRet := b.Instrs[len(b.Instrs)-1].(*ssa.Return)
			if !isRet || len(ret.Results) != 2 {
				continue
			}
			rets++
			if dependsOnCall(ret.Results[0], "Time).Format", 8) && isNilConst(ret.Results[1]) {
				good++
			}
		}
		out = append(out, RuleResult{"B-LAYOUT", name, "every return path prints the formatted time", a.P.Pos(f.Pos()), rets > 0 && rets == good,
			fmt.Sprintf("%d of %d return paths return the text produced by Format with a nil error: a path that returns anything else makes some decoded value marshal to different text than it was read from", good, rets)})
	}
	out = append(out, RuleResult{"B-LAYOUT", "pkg/types", "wrapper types with MarshalJSON", "", n >= 2, fmt.Sprintf("%d types", n)})
	return out
}

// AddPropsBlock checks, in both formatters, that the additional-properties
// block deletes the declared keys from the raw map before it collects the rest.
func (a *Analyzer) AddPropsBlock() []RuleResult {
	var out []RuleResult
	for _, fn := range []string{"(*pkg/generator.jsonFormatter).generate$1", "(*pkg/generator.yamlFormatter).generate$1"} {
		f := a.P.Func(fn)
		if f == nil {
			out = append(out, RuleResult{"B-ADDPROPS", fn, "delete declared keys before collecting", "", false, "emitter closure not found"})
			continue
		}
		var del, dec ssa.Instruction
		for _, c := range Calls(f) {
			for _, arg := range c.Common().Args {
				if s, ok := ConstString(arg); ok {
					if strings.HasPrefix(s, "delete(raw") && del == nil {
						del = c.(ssa.Instruction)
					}
					if strings.Contains(s, "mapstructure.Decode(raw") {
						dec = c.(ssa.Instruction)
					}
				}
			}
		}
		ok := del != nil && dec != nil && del.Block().Dominates(dec.Block()) && InstrReaches(del, dec)
		out = append(out, RuleResult{"B-ADDPROPS", fn, "delete declared keys before collecting", a.P.Pos(f.Pos()), ok,
			"the emitted block must remove every declared key from the raw map before decoding the remainder into AdditionalProperties, so that exactly the undeclared keys are collected"})
	}
	return out
}
