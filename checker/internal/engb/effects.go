package engb

import (
	"go/token"
	"os"
	"strings"

	"golang.org/x/tools/go/ssa"
)

// OutputEffect classifies a call as an effect on the user's output (stdout or
// the file system). Writes to os.Stderr are diagnostics, not output.
// The returned string is "" for non-effects.
func OutputEffect(c ssa.CallInstruction) string {
	cc := c.Common()
	f := cc.StaticCallee()
	if f == nil {
		return ""
	}
	name := f.String()
	switch name {
	case "os.Create", "os.WriteFile", "io/ioutil.WriteFile", "os.MkdirAll", "os.Mkdir", "os.Remove", "os.RemoveAll",
		"os.Rename", "os.Truncate", "os.Chmod", "os.Symlink", "os.Link", "os.CreateTemp", "os.MkdirTemp", "os.Chtimes":
		return name
	case "os.OpenFile":
		if len(cc.Args) >= 2 {
			if fl, ok := ConstInt(cc.Args[1]); ok {
				if fl&int64(os.O_WRONLY|os.O_RDWR|os.O_CREATE|os.O_TRUNC|os.O_APPEND) == 0 {
					return ""
				}
			}
		}
		return name
	case "(*os.File).Write", "(*os.File).WriteString", "(*os.File).WriteAt", "(*os.File).Truncate", "(*os.File).ReadFrom":
		if len(cc.Args) > 0 && isStderr(cc.Args[0]) {
			return ""
		}
		if len(cc.Args) > 0 && GlobalName(cc.Args[0]) == "os.Stdout" {
			return name + " on os.Stdout"
		}
		return name
	case "fmt.Print", "fmt.Printf", "fmt.Println":
		return name + " (stdout)"
	case "fmt.Fprint", "fmt.Fprintf", "fmt.Fprintln", "io.WriteString", "io.Copy":
		if len(cc.Args) > 0 {
			w := stripIface(cc.Args[0])
			if GlobalName(w) == "os.Stdout" {
				return name + " on os.Stdout"
			}
			if strings.HasSuffix(w.Type().String(), "*os.File") && !isStderr(w) {
				return name + " on a file"
			}
		}
		return ""
	}
	return ""
}

// UsesStdout reports instructions that read the os.Stdout variable.
func UsesStdout(f *ssa.Function) []ssa.Instruction {
	var out []ssa.Instruction
	for _, b := range f.Blocks {
		for _, in := range b.Instrs {
			if u, ok := in.(*ssa.UnOp); ok && u.Op == token.MUL && GlobalName(u) == "os.Stdout" {
				out = append(out, in)
			}
		}
	}
	return out
}

// WritesStderr: f (or a module function it calls, up to depth) writes a
// diagnostic to os.Stderr.
func (a *Analyzer) WritesStderr(f *ssa.Function, depth int) bool {
	for _, c := range Calls(f) {
		g := c.Common().StaticCallee()
		if g == nil {
			continue
		}
		switch g.String() {
		case "fmt.Fprint", "fmt.Fprintf", "fmt.Fprintln", "(*os.File).Write", "(*os.File).WriteString", "io.WriteString":
			if len(c.Common().Args) > 0 && isStderr(c.Common().Args[0]) {
				return true
			}
		}
		if depth > 0 && a.P.InModule(g) && a.WritesStderr(g, depth-1) {
			return true
		}
	}
	return false
}
