package engb

import (
	"fmt"
	"go/token"
	"go/types"
	"strings"

	"golang.org/x/tools/go/ssa"
)

// nondetCallees read something that is not schema content or an option.
var nondetCallees = map[string]string{
	"time.Now": "clock", "time.Since": "clock", "time.Until": "clock",
	"os.Getenv": "environment", "os.LookupEnv": "environment", "os.Environ": "environment", "os.ExpandEnv": "environment",
	"os.Getwd": "working directory", "path/filepath.Abs": "working directory",
	"os.Hostname": "host", "os.Getpid": "process id", "os.Getppid": "process id", "os.Getuid": "user", "os.Geteuid": "user",
	"os.Executable": "install location", "os.UserHomeDir": "user", "os.UserCacheDir": "user", "os.UserConfigDir": "user", "os.TempDir": "environment",
	"os/user.Current": "user", "runtime.NumCPU": "machine", "runtime.GOMAXPROCS": "machine",
}

type NondetUse struct {
	Fn     *ssa.Function
	Callee string
	What   string
	Pos    string
}

// NondetUses lists calls in the module to clock / random / environment / cwd
// sources, and constant format strings with a pointer verb.
func (a *Analyzer) NondetUses() (uses []NondetUse, callsSeen int) {
	for _, f := range a.P.Funcs {
		for _, c := range Calls(f) {
			callsSeen++
			g := c.Common().StaticCallee()
			if g == nil {
				continue
			}
			name := g.String()
			if o := g.Origin(); o != nil {
				name = o.String()
			}
			if what, bad := nondetCallees[name]; bad {
				uses = append(uses, NondetUse{f, name, what, a.P.InstrPos(c.(ssa.Instruction))})
				continue
			}
			if g.Pkg != nil {
				switch g.Pkg.Pkg.Path() {
				case "math/rand", "math/rand/v2", "crypto/rand":
					uses = append(uses, NondetUse{f, name, "randomness", a.P.InstrPos(c.(ssa.Instruction))})
					continue
				}
			}
			for _, arg := range c.Common().Args {
				if s, ok := ConstString(arg); ok && strings.Contains(s, "%p") {
					uses = append(uses, NondetUse{f, name, "pointer value formatted with %p", a.P.InstrPos(c.(ssa.Instruction))})
				}
			}
		}
	}
	return
}

// TaintReport is the result of the file-name taint analysis (B-DET3).
type TaintReport struct {
	Sources  []string
	Tainted  int
	Sanitise int // calls to filepath.Base on a tainted value
	Sinks    []TaintSink
	Fields   []string
}

type TaintSink struct {
	Fn   *ssa.Function
	What string
	Pos  string
}

func stringish(t types.Type) bool {
	switch u := t.Underlying().(type) {
	case *types.Basic:
		return u.Info()&types.IsString != 0
	case *types.Slice:
		return stringish(u.Elem()) || isEmptyIface(u.Elem())
	case *types.Array:
		return stringish(u.Elem()) || isEmptyIface(u.Elem())
	case *types.Pointer:
		return stringish(u.Elem())
	case *types.Interface:
		return u.Empty()
	case *types.Tuple:
		for i := 0; i < u.Len(); i++ {
			if stringish(u.At(i).Type()) {
				return true
			}
		}
	}
	return false
}

func isEmptyIface(t types.Type) bool {
	i, ok := t.Underlying().(*types.Interface)
	return ok && i.Empty()
}

// FileNameTaint follows the schema file path (the CLI argument given to DoFile
// and every path produced by QualifiedFileName) through string-typed values of
// the module and reports where it can reach generated text without passing
// through filepath.Base.
func (a *Analyzer) FileNameTaint() *TaintReport {
	rep := &TaintReport{}
	tainted := map[ssa.Value]bool{}
	taintedFields := map[string]bool{} // "pkg.Type.field"
	var work []ssa.Value
	// cut: the tainted path may have lost characters at its END (TrimSuffix, a slice with an upper bound, Replace, Split ...). The base
	// name of such a value is not a function of the file's own name any more: when the cut consumes the whole last element
	// (a file called ".json" with the resolve extension ".json") filepath.Base returns the name of the DIRECTORY.
	cut := map[ssa.Value]bool{}
	curCut := false
	add := func(v ssa.Value) {
		if v == nil || !stringish(v.Type()) {
			return
		}
		if tainted[v] && (!curCut || cut[v]) {
			return
		}
		tainted[v] = true
		if curCut {
			cut[v] = true
		}
		work = append(work, v)
	}
	fieldKey := func(fa *ssa.FieldAddr) string {
		pt := fa.X.Type().Underlying().(*types.Pointer).Elem()
		st := pt.Underlying().(*types.Struct)
		return types.TypeString(pt, nil) + "." + st.Field(fa.Field).Name()
	}
	// sources
	for _, f := range a.P.Funcs {
		name := a.P.FuncName(f)
		if strings.HasSuffix(name, "Generator).DoFile") && len(f.Params) >= 2 {
			add(f.Params[1])
			rep.Sources = append(rep.Sources, name+" parameter "+f.Params[1].Name())
		}
		for _, c := range Calls(f) {
			if g := c.Common().StaticCallee(); g != nil && strings.HasSuffix(g.String(), "schemas.QualifiedFileName") {
				if cv, ok := c.(*ssa.Call); ok {
					add(cv)
					rep.Sources = append(rep.Sources, "result of QualifiedFileName at "+a.P.InstrPos(cv))
				}
			}
		}
	}
	sinkSeen := map[string]bool{}
	sink := func(in ssa.Instruction, what string) {
		k := a.P.InstrPos(in) + what
		if sinkSeen[k] {
			return
		}
		sinkSeen[k] = true
		rep.Sinks = append(rep.Sinks, TaintSink{in.Parent(), what, a.P.InstrPos(in)})
	}
	loadsOfField := func(key string) {
		for _, f := range a.P.Funcs {
			for _, b := range f.Blocks {
				for _, in := range b.Instrs {
					if u, ok := in.(*ssa.UnOp); ok && u.Op == token.MUL {
						if fa, ok := u.X.(*ssa.FieldAddr); ok && fieldKey(fa) == key {
							add(u)
						}
					}
					if fl, ok := in.(*ssa.Field); ok {
						st := fl.X.Type().Underlying().(*types.Struct)
						if types.TypeString(fl.X.Type(), nil)+"."+st.Field(fl.Field).Name() == key {
							add(fl)
						}
					}
				}
			}
		}
	}
	for len(work) > 0 {
		v := work[len(work)-1]
		work = work[:len(work)-1]
		for _, r := range refs(v) {
			curCut = cut[v]
			if sl, ok := r.(*ssa.Slice); ok && sl.High != nil {
				curCut = true
			}
			switch x := r.(type) {
			case *ssa.Phi, *ssa.MakeInterface, *ssa.ChangeInterface, *ssa.ChangeType, *ssa.Convert, *ssa.Slice, *ssa.Extract, *ssa.TypeAssert:
				add(x.(ssa.Value))
			case *ssa.BinOp:
				if x.Op == token.ADD {
					add(x)
				}
			case *ssa.Store:
				if x.Val != v {
					continue
				}
				switch ad := x.Addr.(type) {
				case *ssa.Alloc:
					for _, rr := range refs(ad) {
						if u, ok := rr.(*ssa.UnOp); ok && u.Op == token.MUL {
							add(u)
						}
					}
				case *ssa.IndexAddr:
					// element of a (varargs) array: taint the array's slices
					if al, ok := ad.X.(*ssa.Alloc); ok {
						for _, rr := range refs(al) {
							if sl, ok := rr.(*ssa.Slice); ok {
								tainted[sl] = true
								work = append(work, sl)
							}
						}
					}
				case *ssa.FieldAddr:
					key := fieldKey(ad)
					if strings.Contains(key, "/pkg/codegen.") {
						sink(x, "stored into the code model field "+key)
					}
					if !taintedFields[key] {
						taintedFields[key] = true
						rep.Fields = append(rep.Fields, key)
						loadsOfField(key)
					}
				}
			case *ssa.Return:
				// taint the call values in callers
				fn := x.Parent()
				for _, f := range a.P.Funcs {
					for _, c := range Calls(f) {
						if c.Common().StaticCallee() == fn {
							if cv, ok := c.(*ssa.Call); ok {
								add(cv)
							}
						}
					}
				}
			case ssa.CallInstruction:
				cc := x.Common()
				g := cc.StaticCallee()
				if g == nil {
					continue // interface invoke / dynamic (loader.Load, warner): not text of the output
				}
				gname := g.String()
				if o := g.Origin(); o != nil {
					gname = o.String()
				}
				if gname == "path/filepath.Base" {
					if cut[v] {
						sink(r, "filepath.Base of a path that was shortened at its end first (when the cut removes the whole last element, Base returns the directory's name)")
						continue
					}
					rep.Sanitise++
					continue
				}
				if a.P.InModule(g) {
					short := a.P.FuncName(g)
					if strings.Contains(short, "Emitter).") {
						sink(r, "printed by "+short)
						continue
					}
					if strings.HasSuffix(short, "Caser).Identifierize") || strings.HasSuffix(short, "Caser).Capitalize") {
						sink(r, "turned into an identifier by "+short+" without filepath.Base")
						continue
					}
					for i, arg := range cc.Args {
						if arg == v && i < len(g.Params) {
							add(g.Params[i])
						}
					}
					continue
				}
				if gname == "net/url.PathUnescape" || gname == "net/url.QueryUnescape" {
					// the name of a file on disk is not URL-encoded: decoding %XX in it makes the tool read another path than the
					// one it was given as soon as a directory name contains a valid escape
					sink(r, "the file path is percent-decoded by "+gname+" (a directory or file name containing %XX names another file afterwards)")
					continue
				}
				// library call: the result carries the taint if it is string-like (but not errors)
				if cv, ok := r.(*ssa.Call); ok {
					switch gname {
					case "strings.TrimSuffix", "strings.TrimRight", "strings.TrimRightFunc", "strings.Trim", "strings.TrimFunc", "strings.CutSuffix",
						"strings.Replace", "strings.ReplaceAll", "strings.Split", "strings.SplitN", "strings.Cut", "strings.Fields":
						curCut = true
					}
					add(cv)
				}
			}
		}
	}
	rep.Tainted = len(tainted)
	return rep
}

func (t *TaintReport) String() string {
	return fmt.Sprintf("%d sources, %d tainted values, %d sanitiser calls, %d sinks", len(t.Sources), t.Tainted, t.Sanitise, len(t.Sinks))
}
