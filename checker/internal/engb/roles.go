package engb

import (
	"fmt"
	"go/token"
	"go/types"
	"sort"
	"strings"

	"golang.org/x/tools/go/ssa"
)

// Bound roles originate at the json struct tags of schemas.Type
// (minimum, maximum, exclusiveMinimum, exclusiveMaximum) and are followed
// through loads, address-of, struct-literal fields and parameter binding.
// The positional contract of mathutils.NormalizeBounds
// (minimum, maximum, exclusiveMinimum, exclusiveMaximum) -> (lower, upper,
// lowerExclusive, upperExclusive) is the anchor (its semantics are decided by
// C-NORM); every other function gets its roles by inference.

var boundTags = map[string]bool{"minimum": true, "maximum": true, "exclusiveMinimum": true, "exclusiveMaximum": true}

type roleEnv struct {
	a         *Analyzer
	oneSided  map[*ssa.Parameter]bool   // every call that gave the parameter its role was one-sided
	poly      map[*ssa.Parameter]bool   // parameter of a side-generic helper: no fixed role
	param     map[*ssa.Parameter]string // inferred role of a parameter
	field     map[string]string         // "pkg.Type.field" -> role (struct fields filled from schema fields)
	conflicts []string
}

func (e *roleEnv) roleOf(v ssa.Value, depth int) string {
	if depth > 10 || v == nil {
		return ""
	}
	switch x := v.(type) {
	case *ssa.Parameter:
		return e.param[x]
	case *ssa.FieldAddr:
		if t := fieldAddrTag(x); boundTags[t] && strings.HasSuffix(x.X.Type().String(), "schemas.Type") {
			return t
		}
		pt := x.X.Type().Underlying().(*types.Pointer).Elem()
		return e.field[types.TypeString(pt, nil)+"."+FieldAddrName(x)]
	case *ssa.UnOp:
		if x.Op == token.MUL {
			return e.roleOf(x.X, depth+1)
		}
	case *ssa.Phi:
		r := ""
		for _, ed := range x.Edges {
			if rr := e.roleOf(ed, depth+1); rr != "" {
				if r != "" && r != rr {
					return ""
				}
				r = rr
			}
		}
		return r
	case *ssa.ChangeType:
		return e.roleOf(x.X, depth+1)
	}
	return ""
}

func sideOfRole(r string) string {
	switch r {
	case "minimum", "exclusiveMinimum":
		return "lower"
	case "maximum", "exclusiveMaximum":
		return "upper"
	}
	return r
}

func mirrorRole(r string) string {
	switch r {
	case "minimum":
		return "maximum"
	case "maximum":
		return "minimum"
	case "exclusiveMinimum":
		return "exclusiveMaximum"
	case "exclusiveMaximum":
		return "exclusiveMinimum"
	}
	return ""
}

// RolesReport is the outcome of the role-flow analysis.
type RolesReport struct {
	Results []RuleResult
	Sites   int
}

func (a *Analyzer) BoundRoles() *RolesReport {
	rep := &RolesReport{}
	e := &roleEnv{a: a, param: map[*ssa.Parameter]string{}, field: map[string]string{}, oneSided: map[*ssa.Parameter]bool{}, poly: map[*ssa.Parameter]bool{}}
	// fixpoint: struct-literal fields and parameters
	for iter := 0; iter < 6; iter++ {
		changed := false
		for _, f := range a.P.Funcs {
			for _, b := range f.Blocks {
				for _, in := range b.Instrs {
					switch x := in.(type) {
					case *ssa.Store:
						fa, ok := x.Addr.(*ssa.FieldAddr)
						if !ok {
							continue
						}
						pt := fa.X.Type().Underlying().(*types.Pointer).Elem()
						if strings.HasSuffix(pt.String(), "schemas.Type") {
							continue
						}
						if r := e.roleOf(x.Val, 0); r != "" {
							k := types.TypeString(pt, nil) + "." + FieldAddrName(fa)
							if old, ok := e.field[k]; !ok {
								e.field[k] = r
								changed = true
							} else if old != r {
								e.conflicts = append(e.conflicts, fmt.Sprintf("field %s is filled from %q at %s but from %q elsewhere", k, r, a.P.InstrPos(x), old))
							}
						}
					case ssa.CallInstruction:
						g := x.Common().StaticCallee()
						if g == nil || !a.P.InModule(g) {
							continue
						}
						// a call whose role-bearing arguments all belong to ONE side (lower: minimum/exclusiveMinimum, upper:
						// maximum/exclusiveMaximum) may be a call of a side-generic helper
						sides := map[string]bool{}
						for _, arg := range x.Common().Args {
							if r := e.roleOf(arg, 0); r != "" {
								sides[sideOfRole(r)] = true
							}
						}
						oneSided := len(sides) == 1
						for i, arg := range x.Common().Args {
							if i >= len(g.Params) {
								break
							}
							r := e.roleOf(arg, 0)
							if r == "" {
								continue
							}
							p := g.Params[i]
							if e.poly[p] {
								continue
							}
							if old, ok := e.param[p]; !ok {
								e.param[p] = r
								e.oneSided[p] = oneSided
								changed = true
							} else if old != r && old == mirrorRole(r) && oneSided && e.oneSided[p] {
								// the same parameter receives the lower-side keyword at one call and its upper-side mirror at another, and
								// each of these calls is one-sided: a helper that treats both sides alike. Its parameter has no fixed role.
								e.poly[p] = true
								delete(e.param, p)
								changed = true
							} else if old != r {
								msg := fmt.Sprintf("parameter %s of %s receives %q at %s but %q at another call site: two call sites disagree on the argument order", p.Name(), a.P.FuncName(g), r, a.P.InstrPos(x.(ssa.Instruction)), old)
								dup := false
								for _, c := range e.conflicts {
									if c == msg {
										dup = true
									}
								}
								if !dup {
									e.conflicts = append(e.conflicts, msg)
								}
							}
						}
					}
				}
			}
		}
		if !changed {
			break
		}
	}
	sort.Strings(e.conflicts)
	for i, c := range e.conflicts {
		rep.Results = append(rep.Results, RuleResult{"B-ROLE", "(module)", fmt.Sprintf("role conflict #%d", i), "", false, c})
	}

	// 1. the anchor: every call of NormalizeBounds passes (minimum, maximum, exclusiveMinimum, exclusiveMaximum)
	want := []string{"minimum", "maximum", "exclusiveMinimum", "exclusiveMaximum"}
	for _, f := range a.P.Funcs {
		occ := 0
		for _, c := range Calls(f) {
			if shortCallee(c) != "pkg/mathutils.NormalizeBounds" {
				continue
			}
			rep.Sites++
			got := []string{}
			ok := true
			for i, arg := range c.Common().Args {
				r := e.roleOf(arg, 0)
				got = append(got, r)
				if i < 4 && r != want[i] {
					ok = false
				}
			}
			rep.Results = append(rep.Results, RuleResult{"B-ROLE", a.P.FuncName(f), fmt.Sprintf("NormalizeBounds#%d argument roles", occ), a.P.InstrPos(c.(ssa.Instruction)), ok,
				fmt.Sprintf("NormalizeBounds(minimum, maximum, exclusiveMinimum, exclusiveMaximum) is called with values originating from the schema keywords %v", got)})
			occ++
		}
	}
	// 2. lower/upper results feed the table functions in that order
	gmi := a.P.Func("pkg/codegen.getMinIntType")
	if gmi == nil {
		rep.Results = append(rep.Results, RuleResult{"B-ROLE", "pkg/codegen.getMinIntType", "table argument roles", "", false, "function not found"})
		return rep
	}
	resRole := func(v ssa.Value) string {
		// role of a value derived from the results of NormalizeBounds inside getMinIntType
		for depth := 0; depth < 6; depth++ {
			switch x := v.(type) {
			case *ssa.Extract:
				if c, ok := x.Tuple.(*ssa.Call); ok && shortCallee(c) == "pkg/mathutils.NormalizeBounds" {
					return []string{"lower", "upper", "lowerExclusive", "upperExclusive"}[x.Index]
				}
				return ""
			case *ssa.Phi:
				r := ""
				for _, ed := range x.Edges {
					if ex, ok := ed.(*ssa.Extract); ok {
						if c, ok := ex.Tuple.(*ssa.Call); ok && shortCallee(c) == "pkg/mathutils.NormalizeBounds" {
							r = []string{"lower", "upper", "lowerExclusive", "upperExclusive"}[ex.Index]
						}
					}
				}
				return r
			default:
				return ""
			}
		}
		return ""
	}
	tables := map[*ssa.Function]bool{}
	for _, c := range Calls(gmi) {
		g := c.Common().StaticCallee()
		if g == nil || !a.P.InModule(g) || shortCallee(c) == "pkg/mathutils.NormalizeBounds" {
			continue
		}
		tables[g] = true
		args := c.Common().Args
		ok := len(args) == 2 && resRole(args[0]) == "lower" && resRole(args[1]) == "upper"
		rep.Sites++
		rep.Results = append(rep.Results, RuleResult{"B-ROLE", "pkg/codegen.getMinIntType", "arguments of " + g.Name(), a.P.InstrPos(c.(ssa.Instruction)), ok,
			fmt.Sprintf("%s(lower, upper) receives (%s, %s)", g.Name(), resRole(args[0]), resRole(args[1]))})
	}
	// 3. in each table function the min-removal flag depends only on the lower bound, the max-removal flag only on the upper
	for g := range tables {
		if len(g.Params) != 2 {
			continue
		}
		for _, b := range g.Blocks {
			ret, ok := b.Instrs[len(b.Instrs)-1].(*ssa.Return)
			if !ok || len(ret.Results) != 3 {
				continue
			}
			for idx, other := range map[int]*ssa.Parameter{1: g.Params[1], 2: g.Params[0]} {
				if dependsOnParam(ret.Results[idx], other, map[ssa.Value]bool{}) {
					rep.Results = append(rep.Results, RuleResult{"B-ROLE", a.P.FuncName(g), fmt.Sprintf("removal flag #%d independent of the opposite bound", idx), a.P.InstrPos(ret), false,
						fmt.Sprintf("result #%d of %s (a removal flag) is computed from the opposite bound %s", idx, g.Name(), other.Name())})
				} else {
					rep.Results = append(rep.Results, RuleResult{"B-ROLE", a.P.FuncName(g), fmt.Sprintf("removal flag #%d independent of the opposite bound", idx), a.P.InstrPos(ret), true, ""})
				}
			}
		}
	}
	// 4. pairing in the caller of getMinIntType
	for _, f := range a.P.Funcs {
		for _, c := range Calls(f) {
			if c.Common().StaticCallee() != gmi {
				continue
			}
			cv, ok := c.(*ssa.Call)
			if !ok {
				continue
			}
			fn := a.P.FuncName(f)
			// argument roles
			gotArgs := []string{}
			okArgs := true
			for i, arg := range cv.Call.Args {
				r := e.roleOf(arg, 0)
				gotArgs = append(gotArgs, r)
				if i < 4 && r != want[i] {
					okArgs = false
				}
			}
			rep.Sites++
			rep.Results = append(rep.Results, RuleResult{"B-ROLE", fn, "getMinIntType argument roles", a.P.InstrPos(cv), okArgs, fmt.Sprintf("called with %v", gotArgs)})
			for _, r := range refs(cv) {
				ex, ok := r.(*ssa.Extract)
				if !ok || ex.Index == 0 {
					continue
				}
				side := map[int]string{1: "lower", 2: "upper"}[ex.Index]
				allowed := map[string]bool{"minimum": side == "lower", "exclusiveMinimum": side == "lower", "maximum": side == "upper", "exclusiveMaximum": side == "upper"}
				for _, rr := range refs(ex) {
					iff, ok := rr.(*ssa.If)
					if !ok {
						continue
					}
					tb := iff.Block().Succs[0]
					cleared := []string{}
					for _, bb := range f.Blocks {
						if !(tb.Dominates(bb) && len(tb.Preds) == 1) {
							continue
						}
						for _, in := range bb.Instrs {
							st, ok := in.(*ssa.Store)
							if !ok || !isNilConst(st.Val) {
								continue
							}
							role := e.roleOf(st.Addr, 0)
							cleared = append(cleared, role)
							okc := allowed[role]
							rep.Results = append(rep.Results, RuleResult{"B-PAIR", fn, fmt.Sprintf("remove-%s flag clears %s", side, role), a.P.InstrPos(st), okc,
								fmt.Sprintf("when the chosen type's %s limit makes the %s bound redundant, only the %s-side keywords may be dropped; this store drops %q", side, side, side, role)})
						}
					}
					rep.Sites++
					// both keywords of the side should be cleared (otherwise a redundant check stays: harmless) — not required
					_ = cleared
				}
			}
		}
	}
	return rep
}

func dependsOnParam(v ssa.Value, p *ssa.Parameter, seen map[ssa.Value]bool) bool {
	if v == p {
		return true
	}
	if seen[v] {
		return false
	}
	seen[v] = true
	switch x := v.(type) {
	case *ssa.Phi:
		for _, e := range x.Edges {
			if dependsOnParam(e, p, seen) {
				return true
			}
		}
		return false
	case *ssa.Alloc:
		for _, r := range refs(x) {
			if st, ok := r.(*ssa.Store); ok && st.Addr == x && dependsOnParam(st.Val, p, seen) {
				return true
			}
		}
		return false
	case ssa.Instruction:
		for _, op := range x.Operands(nil) {
			if *op != nil && dependsOnParam(*op, p, seen) {
				return true
			}
		}
	}
	return false
}

// WritesThroughInput reports stores in fn through a pointer that may be one of
// fn's own pointer parameters, directly or because a callee returned it
// (one level: the callee has a `return param` path).
func (a *Analyzer) WritesThroughInput(fn string) []RuleResult {
	f := a.P.Func(fn)
	if f == nil {
		return []RuleResult{{Rule: "B-ALIAS", Func: fn, Construct: "no write through inputs", Detail: "function not found"}}
	}
	var out []RuleResult
	mayBeParam := func(v ssa.Value) (string, bool) {
		seen := map[ssa.Value]bool{}
		var walk func(v ssa.Value) (string, bool)
		walk = func(v ssa.Value) (string, bool) {
			if seen[v] {
				return "", false
			}
			seen[v] = true
			switch x := v.(type) {
			case *ssa.Parameter:
				if _, ok := x.Type().Underlying().(*types.Pointer); ok {
					return "parameter " + x.Name(), true
				}
			case *ssa.Phi:
				for _, e := range x.Edges {
					if s, ok := walk(e); ok {
						return s, true
					}
				}
			case *ssa.Extract:
				if c, ok := x.Tuple.(*ssa.Call); ok {
					g := c.Call.StaticCallee()
					if g == nil || !a.P.InModule(g) {
						return "", false
					}
					// does g return one of its pointer parameters in result x.Index, and is the matching argument one of our parameters?
					for _, b := range g.Blocks {
						ret, ok := b.Instrs[len(b.Instrs)-1].(*ssa.Return)
						if !ok || x.Index >= len(ret.Results) {
							continue
						}
						for i, p := range g.Params {
							if returnsParam(ret.Results[x.Index], p, map[ssa.Value]bool{}) && i < len(c.Call.Args) {
								if s, ok := walk(c.Call.Args[i]); ok {
									return s + " (handed back by " + g.Name() + ")", true
								}
							}
						}
					}
				}
			}
			return "", false
		}
		return walk(v)
	}
	n := 0
	for _, b := range f.Blocks {
		for _, in := range b.Instrs {
			st, ok := in.(*ssa.Store)
			if !ok {
				continue
			}
			if _, isAlloc := st.Addr.(*ssa.Alloc); isAlloc {
				continue
			}
			n++
			if src, bad := mayBeParam(st.Addr); bad {
				out = append(out, RuleResult{"B-ALIAS", fn, "store through " + exprKey(st.Addr), a.P.InstrPos(st), false,
					"the function adjusts a bound in place through a pointer that may be its caller's own data (" + src + "): the schema's keyword value is changed as a side effect of choosing a type, and the validator later sees the changed value"})
			}
		}
	}
	if len(out) == 0 {
		out = append(out, RuleResult{"B-ALIAS", fn, "no write through inputs", a.P.Pos(f.Pos()), true, fmt.Sprintf("%d stores examined", n)})
	}
	return out
}

func returnsParam(v ssa.Value, p *ssa.Parameter, seen map[ssa.Value]bool) bool {
	if v == p {
		return true
	}
	if seen[v] {
		return false
	}
	seen[v] = true
	if ph, ok := v.(*ssa.Phi); ok {
		for _, e := range ph.Edges {
			if returnsParam(e, p, seen) {
				return true
			}
		}
	}
	return false
}
