package engb

import (
	"fmt"
	"go/token"
	"go/types"
	"sort"
	"strings"

	"golang.org/x/tools/go/ssa"
)

// MapRange is one `for ... := range <map>` loop and its classification.
type MapRange struct {
	Fn       *ssa.Function
	Range    *ssa.Range
	Pos      string
	MapExpr  string // position-free rendering of the ranged map
	Class    string // S1 sorted-keys, S2 keyed-writes, S3 unique-search, S4 table, "" = unclassified
	Why      string
	Problems []string
}

type loopInfo struct {
	fn     *ssa.Function
	hdr    *ssa.BasicBlock // block with the next/index test
	body   *ssa.BasicBlock // first body block
	done   *ssa.BasicBlock
	inBody map[*ssa.BasicBlock]bool
	key    ssa.Value // range key (map) or element address (slice)
	val    ssa.Value
	next   *ssa.Next
}

// pureCallees have no effect other than computing their result.
var pureCallees = map[string]bool{
	"fmt.Sprintf": true, "fmt.Sprint": true, "fmt.Errorf": true, "errors.New": true,
	"go/format.Source": true, "(*strings.Builder).String": true, "(*strings.Builder).Len": true,
	"strings.TrimSpace": true, "strings.ToLower": true, "strings.ToUpper": true, "strings.HasPrefix": true,
	"strings.HasSuffix": true, "strings.Contains": true, "strings.EqualFold": true, "strings.TrimSuffix": true,
	"strings.TrimPrefix": true, "strings.Join": true, "strings.Split": true, "strings.Index": true,
	"path/filepath.Dir": true, "path/filepath.Base": true, "path/filepath.Join": true, "path.Ext": true,
	"(error).Error": true,
}

// sortCallees put a slice into a canonical order. The bool tells whether the
// order is the natural total order of the element type (no comparator to inspect).
var sortCallees = map[string]bool{
	"sort.Strings": true, "sort.Ints": true, "sort.Float64s": true,
	"slices.Sort[[]string string]": true, "slices.Sort": true,
	"sort.Slice": false, "sort.SliceStable": false, "slices.SortFunc": false, "slices.SortStableFunc": false,
}

func (a *Analyzer) mapLoop(r *ssa.Range) *loopInfo {
	var nx *ssa.Next
	for _, ref := range refs(r) {
		if n, ok := ref.(*ssa.Next); ok {
			nx = n
		}
	}
	if nx == nil {
		return nil
	}
	hdr := nx.Block()
	iff, ok := hdr.Instrs[len(hdr.Instrs)-1].(*ssa.If)
	if !ok {
		return nil
	}
	_ = iff
	li := &loopInfo{fn: r.Parent(), hdr: hdr, body: hdr.Succs[0], done: hdr.Succs[1], next: nx, inBody: map[*ssa.BasicBlock]bool{}}
	for _, b := range li.fn.Blocks {
		if li.body.Dominates(b) {
			li.inBody[b] = true
		}
	}
	for _, ref := range refs(nx) {
		if ex, ok := ref.(*ssa.Extract); ok {
			switch ex.Index {
			case 1:
				li.key = ex
			case 2:
				li.val = ex
			}
		}
	}
	return li
}

// uniqueFacts: (struct field holding a map) -> field path of the map's values
// that is proven unique among the values, e.g. "outputs" -> "file.FileName".
type uniqueFact struct {
	MapField string
	Path     string
	Proof    string
}

// fieldOfLoad returns the field name when v is a load of a struct field (x.f).
func fieldOfLoad(v ssa.Value) string {
	u, ok := v.(*ssa.UnOp)
	if !ok || u.Op != token.MUL {
		return ""
	}
	fa, ok := u.X.(*ssa.FieldAddr)
	if !ok {
		return ""
	}
	st := fa.X.Type().Underlying().(*types.Pointer).Elem().Underlying().(*types.Struct)
	return st.Field(fa.Field).Name()
}

// pathFrom renders v as a field path starting at root ("" when v == root), or
// ok=false when v is not a pure field/deref path from root.
func pathFrom(v, root ssa.Value) (string, bool) {
	if v == root {
		return "", true
	}
	switch x := v.(type) {
	case *ssa.UnOp:
		if x.Op == token.MUL {
			return pathFrom(x.X, root)
		}
	case *ssa.FieldAddr:
		p, ok := pathFrom(x.X, root)
		if !ok {
			return "", false
		}
		st := x.X.Type().Underlying().(*types.Pointer).Elem().Underlying().(*types.Struct)
		return joinPath(p, st.Field(x.Field).Name()), true
	case *ssa.Field:
		p, ok := pathFrom(x.X, root)
		if !ok {
			return "", false
		}
		st := x.X.Type().Underlying().(*types.Struct)
		return joinPath(p, st.Field(x.Field).Name()), true
	}
	return "", false
}

func joinPath(a, b string) string {
	if a == "" {
		return b
	}
	return a + "." + b
}

// invariantIn: v is defined outside the loop body (parameter, free variable,
// constant, or instruction in a block outside the body and not the header phi).
func invariantIn(v ssa.Value, li *loopInfo) bool {
	switch x := v.(type) {
	case *ssa.Const, *ssa.Parameter, *ssa.FreeVar, *ssa.Global, *ssa.Function:
		return true
	case ssa.Instruction:
		b := x.Block()
		if li.inBody[b] || b == li.hdr {
			// loads of invariant addresses inside the body are fine when nothing in the body stores there
			if u, ok := v.(*ssa.UnOp); ok && u.Op == token.MUL {
				return invariantIn(u.X, li)
			}
			if fa, ok := v.(*ssa.FieldAddr); ok {
				return invariantIn(fa.X, li)
			}
			return false
		}
		return true
	}
	return false
}

// eqAtom recognises cond as `<elemPath> == <invariant>` (or != with neg),
// elemPath taken from the loop's value (or key when path == "").
type atom struct {
	key string // canonical, polarity-free
	pos bool   // true when the condition as written is the equality (not the disequality)
}

func canonAtom(cond ssa.Value) (atom, bool) {
	neg := false
	for {
		if u, ok := cond.(*ssa.UnOp); ok && u.Op == token.NOT {
			neg = !neg
			cond = u.X
			continue
		}
		break
	}
	b, ok := cond.(*ssa.BinOp)
	if !ok {
		return atom{key: exprKey(cond), pos: !neg}, true
	}
	switch b.Op {
	case token.EQL, token.NEQ:
		x, y := exprKey(b.X), exprKey(b.Y)
		if x > y {
			x, y = y, x
		}
		pos := b.Op == token.EQL
		if neg {
			pos = !pos
		}
		return atom{key: x + "==" + y, pos: pos}, true
	}
	return atom{key: exprKey(cond), pos: !neg}, true
}

// returnsWheneverAtomTrue walks the loop body under every consistent truth
// assignment and reports whether some path reaches the latch (or leaves the
// body without returning) while `want` is true or unassigned.
func returnsWheneverAtomTrue(li *loopInfo, want string) (bool, string) {
	type frame struct {
		b   *ssa.BasicBlock
		env map[string]bool
	}
	bad := ""
	var walk func(b *ssa.BasicBlock, env map[string]bool, depth int)
	walk = func(b *ssa.BasicBlock, env map[string]bool, depth int) {
		if bad != "" || depth > 64 {
			return
		}
		if !li.inBody[b] {
			// left the body: latch (header) or break/done
			if v, ok := env[want]; !ok || v {
				bad = fmt.Sprintf("a path reaches block %d (%s) without returning while %s is not known to be false", b.Index, b.Comment, want)
			}
			return
		}
		last := b.Instrs[len(b.Instrs)-1]
		switch t := last.(type) {
		case *ssa.Return, *ssa.Panic:
			return
		case *ssa.If:
			at, _ := canonAtom(t.Cond)
			for side := 0; side < 2; side++ {
				val := at.pos
				if side == 1 {
					val = !val
				}
				if prev, ok := env[at.key]; ok && prev != val {
					continue // inconsistent with an earlier test of the same atom
				}
				ne := map[string]bool{}
				for k, v := range env {
					ne[k] = v
				}
				ne[at.key] = val
				walk(b.Succs[side], ne, depth+1)
			}
			return
		}
		for _, s := range b.Succs {
			walk(s, env, depth+1)
		}
	}
	walk(li.body, map[string]bool{}, 0)
	return bad == "", bad
}

// bodyHasStoreTo: the loop body contains a store/map update (used to reject
// canonical atoms whose operands may change between two tests).
func bodyStores(li *loopInfo) []ssa.Instruction {
	var out []ssa.Instruction
	for b := range li.inBody {
		for _, in := range b.Instrs {
			switch x := in.(type) {
			case *ssa.Store:
				if rootAlloc(x.Addr) != nil {
					continue // a local cell / varargs array
				}
				out = append(out, in)
			case *ssa.MapUpdate:
				out = append(out, in)
			}
		}
	}
	return out
}

// rootAlloc returns the Alloc an address is rooted at (through field/index
// selections), or nil.
func rootAlloc(v ssa.Value) *ssa.Alloc {
	for {
		switch x := v.(type) {
		case *ssa.Alloc:
			return x
		case *ssa.FieldAddr:
			v = x.X
		case *ssa.IndexAddr:
			v = x.X
		default:
			return nil
		}
	}
}

// UniqueFacts proves, for map-typed struct fields, that a field path of the
// values is unique: every insertion into the map is dominated by the
// no-match exit of a search loop over the same map that returns whenever
// value.path == X, and X is what the inserted value carries in that field.
func (a *Analyzer) UniqueFacts() []uniqueFact {
	var facts []uniqueFact
	// collect insertion sites per map field
	type site struct {
		fn *ssa.Function
		mu *ssa.MapUpdate
	}
	sites := map[string][]site{}
	for _, f := range a.P.Funcs {
		for _, b := range f.Blocks {
			for _, in := range b.Instrs {
				if mu, ok := in.(*ssa.MapUpdate); ok {
					if fld := fieldOfLoad(mu.Map); fld != "" {
						sites[fld] = append(sites[fld], site{f, mu})
					}
				}
			}
		}
	}
	for fld, ss := range sites {
		var path, proof string
		okAll := true
		for _, s := range ss {
			found := false
			for _, b := range s.fn.Blocks {
				for _, in := range b.Instrs {
					r, ok := in.(*ssa.Range)
					if !ok || fieldOfLoad(r.X) != fld {
						continue
					}
					li := a.mapLoop(r)
					if li == nil || li.val == nil || !li.done.Dominates(s.mu.Block()) {
						continue
					}
					if len(bodyStores(li)) > 0 {
						continue
					}
					// candidate atoms: equalities value.path == invariant tested in the body
					for bb := range li.inBody {
						iff, ok := bb.Instrs[len(bb.Instrs)-1].(*ssa.If)
						if !ok {
							continue
						}
						bo, ok := iff.Cond.(*ssa.BinOp)
						if !ok || (bo.Op != token.EQL && bo.Op != token.NEQ) {
							continue
						}
						for _, pr := range [][2]ssa.Value{{bo.X, bo.Y}, {bo.Y, bo.X}} {
							p, isPath := pathFrom(pr[0], li.val)
							if !isPath || p == "" || !invariantIn(pr[1], li) {
								continue
							}
							at, _ := canonAtom(iff.Cond)
							if ok, _ := returnsWheneverAtomTrue(li, at.key); !ok {
								continue
							}
							// the inserted value must carry X in a field with the same name
							last := p[strings.LastIndex(p, ".")+1:]
							if !storesIntoField(s.fn, last, pr[1], li.done) {
								continue
							}
							if path == "" || path == p {
								path = p
								proof = fmt.Sprintf("insertion at %s is dominated by the no-match exit of the search loop at %s which returns whenever value.%s == %s, and the inserted value stores %s into field %s",
									a.P.InstrPos(s.mu), a.P.InstrPos(r), p, exprKey(pr[1]), exprKey(pr[1]), last)
								found = true
							}
						}
					}
				}
			}
			if !found {
				okAll = false
			}
		}
		if okAll && path != "" {
			facts = append(facts, uniqueFact{fld, path, proof})
		}
	}
	sort.Slice(facts, func(i, j int) bool { return facts[i].MapField < facts[j].MapField })
	return facts
}

func storesIntoField(f *ssa.Function, field string, val ssa.Value, dom *ssa.BasicBlock) bool {
	for _, b := range f.Blocks {
		if !dom.Dominates(b) {
			continue
		}
		for _, in := range b.Instrs {
			st, ok := in.(*ssa.Store)
			if !ok || st.Val != val {
				continue
			}
			if fa, ok := st.Addr.(*ssa.FieldAddr); ok {
				s := fa.X.Type().Underlying().(*types.Pointer).Elem().Underlying().(*types.Struct)
				if s.Field(fa.Field).Name() == field {
					return true
				}
			}
		}
	}
	return false
}

// detException: table of reasoned exceptions for B-DET1, keyed by function and ranged map.
type detException struct {
	Func, Map, Reason string
}

var detExceptions = []detException{
	{"pkg/yamlutils.fixMapKeysIn", "value.(map[interface{}]interface{})", "keys are stringified with %v, which is not injective in general; two keys can only collide if the YAML decoder hands out a map[interface{}]interface{} holding e.g. 1 and \"1\" — goccy/go-yaml (trusted base) yields string-keyed maps for nested mappings and rejects mappings whose keys coincide after stringification ('mapping key already defined'), so no collision is reachable (reproduced once during triage)"},
}

// MapRanges classifies every range-over-map loop of the module.
func (a *Analyzer) MapRanges() ([]*MapRange, []uniqueFact) {
	facts := a.UniqueFacts()
	uniq := map[string]string{}
	for _, f := range facts {
		uniq[f.MapField] = f.Path
	}
	var out []*MapRange
	for _, f := range a.P.Funcs {
		for _, b := range f.Blocks {
			for _, in := range b.Instrs {
				r, ok := in.(*ssa.Range)
				if !ok {
					continue
				}
				if _, isMap := r.X.Type().Underlying().(*types.Map); !isMap {
					continue
				}
				mr := &MapRange{Fn: f, Range: r, Pos: a.P.InstrPos(r), MapExpr: exprKey(r.X)}
				a.classifyMapRange(mr, uniq)
				out = append(out, mr)
			}
		}
	}
	return out, facts
}

func (a *Analyzer) classifyMapRange(mr *MapRange, uniq map[string]string) {
	li := a.mapLoop(mr.Range)
	if li == nil {
		mr.Problems = append(mr.Problems, "loop structure not recognised")
		return
	}
	fname := a.P.FuncName(mr.Fn)
	uniquePath := uniq[fieldOfLoad(mr.Range.X)] // "" when the ranged map has no uniqueness fact

	// iteration-local values
	local := map[ssa.Value]bool{}
	var isLocal func(v ssa.Value, depth int) bool
	isLocal = func(v ssa.Value, depth int) bool {
		if v == nil {
			return true
		}
		if local[v] {
			return true
		}
		if depth > 12 {
			return false
		}
		if v == li.key || v == li.val {
			return true
		}
		ok := false
		switch x := v.(type) {
		case *ssa.Const, *ssa.Function:
			ok = true
		case *ssa.Builtin:
			ok = true
		case *ssa.Alloc:
			ok = li.inBody[x.Block()]
		case *ssa.MakeMap, *ssa.MakeSlice, *ssa.MakeClosure:
			ok = li.inBody[x.(ssa.Instruction).Block()]
		case *ssa.UnOp:
			ok = isLocal(x.X, depth+1)
		case *ssa.FieldAddr:
			ok = isLocal(x.X, depth+1)
		case *ssa.Field:
			ok = isLocal(x.X, depth+1)
		case *ssa.IndexAddr:
			ok = isLocal(x.X, depth+1)
		case *ssa.Index:
			ok = isLocal(x.X, depth+1)
		case *ssa.Slice:
			ok = isLocal(x.X, depth+1)
		case *ssa.MakeInterface:
			ok = isLocal(x.X, depth+1)
		case *ssa.ChangeInterface:
			ok = isLocal(x.X, depth+1)
		case *ssa.ChangeType:
			ok = isLocal(x.X, depth+1)
		case *ssa.Convert:
			ok = isLocal(x.X, depth+1)
		case *ssa.TypeAssert:
			ok = isLocal(x.X, depth+1)
		case *ssa.Extract:
			ok = isLocal(x.Tuple, depth+1)
		case *ssa.BinOp:
			ok = isLocal(x.X, depth+1) && isLocal(x.Y, depth+1)
		case *ssa.Phi:
			if li.inBody[x.Block()] {
				ok = true
				local[v] = true // break cycles optimistically
				for _, e := range x.Edges {
					if !isLocal(e, depth+1) {
						ok = false
					}
				}
				if !ok {
					delete(local, v)
				}
			}
		case *ssa.Lookup:
			// an entry of a shared map selected by a key that identifies the iteration
			ok = isLocal(x.X, depth+1) || a.iterKey(x.Index, li, uniquePath)
		case *ssa.Call:
			if li.inBody[x.Block()] {
				ok = true
				for _, arg := range x.Call.Args {
					if !isLocal(arg, depth+1) {
						ok = false
					}
				}
				if x.Call.IsInvoke() && !isLocal(x.Call.Value, depth+1) {
					ok = false
				}
				if !x.Call.IsInvoke() && x.Call.StaticCallee() == nil {
					if _, isB := x.Call.Value.(*ssa.Builtin); !isB && !isLocal(x.Call.Value, depth+1) {
						ok = false
					}
				}
			}
		}
		if ok {
			local[v] = true
		}
		return ok
	}

	guardedByKeyConst := func(b *ssa.BasicBlock) bool {
		// b is dominated by the true branch of `key == const`
		for d := b; d != nil && li.inBody[d]; d = d.Idom() {
			id := d.Idom()
			if id == nil {
				break
			}
			iff, ok := id.Instrs[len(id.Instrs)-1].(*ssa.If)
			if !ok {
				continue
			}
			bo, ok := iff.Cond.(*ssa.BinOp)
			if !ok {
				continue
			}
			var other ssa.Value
			if bo.X == li.key {
				other = bo.Y
			} else if bo.Y == li.key {
				other = bo.X
			} else {
				continue
			}
			if _, isC := other.(*ssa.Const); !isC {
				continue
			}
			if bo.Op == token.EQL && id.Succs[0] == d && len(d.Preds) == 1 {
				return true
			}
			if bo.Op == token.NEQ && id.Succs[1] == d && len(d.Preds) == 1 {
				return true
			}
		}
		return false
	}

	var accPhis []*ssa.Phi
	for _, in := range li.hdr.Instrs {
		if ph, ok := in.(*ssa.Phi); ok {
			accPhis = append(accPhis, ph)
		}
	}
	hasReturn := false
	allocAccs := map[*ssa.Alloc][]*ssa.Store{}
	keyedWrites, localEffects := 0, 0
	var problems []string
	blocks := []*ssa.BasicBlock{}
	for b := range li.inBody {
		blocks = append(blocks, b)
	}
	sort.Slice(blocks, func(i, j int) bool { return blocks[i].Index < blocks[j].Index })
	for _, b := range blocks {
		for _, in := range b.Instrs {
			switch x := in.(type) {
			case *ssa.Return:
				hasReturn = true
			case *ssa.Store:
				if al, ok := x.Addr.(*ssa.Alloc); ok && !li.inBody[al.Block()] {
					if _, isSl := al.Type().Underlying().(*types.Pointer).Elem().Underlying().(*types.Slice); isSl {
						allocAccs[al] = append(allocAccs[al], x)
						continue
					}
				}
				if isLocal(x.Addr, 0) {
					localEffects++
				} else {
					problems = append(problems, fmt.Sprintf("store to shared location %s at %s", exprKey(x.Addr), a.P.InstrPos(in)))
				}
			case *ssa.MapUpdate:
				switch {
				case isLocal(x.Map, 0):
					localEffects++
				case a.iterKey(x.Key, li, uniquePath):
					keyedWrites++
				default:
					problems = append(problems, fmt.Sprintf("write into shared map %s under a key (%s) that does not identify the iteration, at %s: on a collision the last writer wins and the order decides", exprKey(x.Map), exprKey(x.Key), a.P.InstrPos(in)))
				}
			case *ssa.Send, *ssa.Go:
				problems = append(problems, "channel send / goroutine in a map-range body at "+a.P.InstrPos(in))
			case ssa.CallInstruction:
				cc := x.Common()
				name := shortCallee(x)
				if _, isB := cc.Value.(*ssa.Builtin); isB && !cc.IsInvoke() {
					if cc.Value.(*ssa.Builtin).Name() == "delete" {
						if !(isLocal(cc.Args[0], 0) || a.iterKey(cc.Args[1], li, uniquePath)) {
							problems = append(problems, "delete from a shared map under a non-identifying key at "+a.P.InstrPos(in))
						}
					}
					continue
				}
				if pureCallees[name] {
					continue
				}
				if a.ExitKind(in) == "fail" {
					continue
				}
				if g := cc.StaticCallee(); g != nil {
					if a.abortOnParamAny(g) {
						continue // abort-on-error helper: only ends the run
					}
					if a.P.InModule(g) && a.onlyDiagnostics(g, 3) {
						continue
					}
				}
				if !cc.IsInvoke() && cc.StaticCallee() == nil {
					// dynamic call through a func value: diagnostics sink?
					if n := fieldOfLoad(cc.Value); n == "Warner" || n == "warner" {
						continue
					}
				}
				allLocal := true
				for _, arg := range cc.Args {
					if !isLocal(arg, 0) {
						allLocal = false
					}
				}
				if cc.IsInvoke() && !isLocal(cc.Value, 0) {
					allLocal = false
				}
				if allLocal {
					localEffects++
					continue
				}
				if guardedByKeyConst(b) {
					localEffects++ // at most one iteration (keys are distinct) performs it
					continue
				}
				problems = append(problems, fmt.Sprintf("call %s at %s takes a shared (not iteration-local) argument: its effect may depend on iteration order", name, a.P.InstrPos(in)))
			}
		}
	}

	// accumulators carried around the loop
	sortedAcc := 0
	for _, ph := range accPhis {
		okAcc, why := a.sortedAccumulator(ph, li)
		if okAcc {
			sortedAcc++
		} else {
			problems = append(problems, fmt.Sprintf("value %s is carried around the loop (%s)", exprKey(ph), why))
		}
	}

	for al, stores := range allocAccs {
		okAcc, why := a.sortedAllocAccumulator(al, stores, li)
		if okAcc {
			sortedAcc++
		} else {
			problems = append(problems, fmt.Sprintf("variable %s is updated in the loop (%s)", exprKey(al), why))
		}
	}

	// search loops: every return must be guarded by equality on a unique path
	if hasReturn {
		if uniquePath == "" {
			problems = append(problems, "the body returns on a match, but no uniqueness fact is proven for the values of "+mr.MapExpr)
		} else {
			for _, b := range blocks {
				if _, ok := b.Instrs[len(b.Instrs)-1].(*ssa.Return); !ok {
					continue
				}
				if !guardedByUniqueEq(b, li, uniquePath) {
					problems = append(problems, fmt.Sprintf("return at %s is not guarded by an equality on the unique field value.%s", a.P.InstrPos(b.Instrs[len(b.Instrs)-1]), uniquePath))
				}
			}
		}
	}

	if len(problems) == 0 {
		switch {
		case hasReturn:
			mr.Class, mr.Why = "S3", "search returning on equality with value."+uniquePath+", which is proven unique among the map's values"
		case sortedAcc > 0:
			mr.Class, mr.Why = "S1", "keys are collected and put into a total order before they escape"
		default:
			mr.Class, mr.Why = "S2", fmt.Sprintf("only effects keyed by the iteration (%d keyed writes, %d iteration-local effects)", keyedWrites, localEffects)
		}
		return
	}
	for _, ex := range detExceptions {
		if ex.Func == fname && ex.Map == mr.MapExpr {
			mr.Class, mr.Why = "S4", "enumerated exception: "+ex.Reason
			return
		}
	}
	mr.Problems = problems
}

// iterKey: k identifies the iteration — it is the range key itself, or the
// proven-unique field path of the range value.
func (a *Analyzer) iterKey(k ssa.Value, li *loopInfo, uniquePath string) bool {
	if k == li.key {
		return true
	}
	if uniquePath != "" && li.val != nil {
		if p, ok := pathFrom(k, li.val); ok && p == uniquePath {
			return true
		}
	}
	return false
}

func guardedByUniqueEq(b *ssa.BasicBlock, li *loopInfo, uniquePath string) bool {
	for d := b; d != nil && li.inBody[d]; d = d.Idom() {
		id := d.Idom()
		if id == nil || !(li.inBody[id]) {
			break
		}
		iff, ok := id.Instrs[len(id.Instrs)-1].(*ssa.If)
		if !ok {
			continue
		}
		bo, ok := iff.Cond.(*ssa.BinOp)
		if !ok || (bo.Op != token.EQL && bo.Op != token.NEQ) {
			continue
		}
		for _, pr := range [][2]ssa.Value{{bo.X, bo.Y}, {bo.Y, bo.X}} {
			p, isPath := pathFrom(pr[0], li.val)
			if !isPath || p != uniquePath || !invariantIn(pr[1], li) {
				continue
			}
			if bo.Op == token.EQL && id.Succs[0] == d && len(d.Preds) == 1 {
				return true
			}
			if bo.Op == token.NEQ && id.Succs[1] == d && len(d.Preds) == 1 {
				return true
			}
		}
	}
	return false
}

func (a *Analyzer) abortOnParamAny(g *ssa.Function) bool {
	return len(a.abortOnParam[g]) > 0
}

// onlyDiagnostics: f's only effects are writes to os.Stderr (through fmt.Fprint*
// or module functions with the same property).
func (a *Analyzer) onlyDiagnostics(f *ssa.Function, depth int) bool {
	wrote := false
	for _, b := range f.Blocks {
		for _, in := range b.Instrs {
			switch x := in.(type) {
			case *ssa.Store:
				if _, ok := x.Addr.(*ssa.Alloc); !ok {
					if ia, ok := x.Addr.(*ssa.IndexAddr); ok {
						if _, ok := ia.X.(*ssa.Alloc); ok {
							continue
						}
					}
					return false
				}
			case *ssa.MapUpdate, *ssa.Send, *ssa.Go:
				return false
			case ssa.CallInstruction:
				cc := x.Common()
				if _, isB := cc.Value.(*ssa.Builtin); isB {
					continue
				}
				g := cc.StaticCallee()
				if g == nil {
					return false
				}
				switch g.String() {
				case "fmt.Fprint", "fmt.Fprintf", "fmt.Fprintln":
					if len(cc.Args) > 0 && isStderr(cc.Args[0]) {
						wrote = true
						continue
					}
					return false
				}
				if pureCallees[shortCallee(x)] {
					continue
				}
				if depth > 0 && a.P.InModule(g) && a.onlyDiagnostics(g, depth-1) {
					wrote = true
					continue
				}
				return false
			}
		}
	}
	return wrote
}

// sortedAccumulator: the header phi is a slice grown only by append inside the
// body and, after the loop, handed to a total-order sort before any other use.
func (a *Analyzer) sortedAccumulator(ph *ssa.Phi, li *loopInfo) (bool, string) {
	if _, ok := ph.Type().Underlying().(*types.Slice); !ok {
		return false, "not a slice accumulator"
	}
	// edges from inside the body must be append(ph-or-derived, ...)
	for i, e := range ph.Edges {
		pred := li.hdr.Preds[i]
		if !li.inBody[pred] {
			continue
		}
		if !appendChain(e, ph, li, 0) {
			return false, "updated by something other than append"
		}
	}
	// uses outside the body
	var sortCall ssa.CallInstruction
	var others []ssa.Instruction
	for _, r := range refs(ph) {
		b := r.Block()
		if li.inBody[b] || b == li.hdr {
			continue
		}
		if c, ok := r.(ssa.CallInstruction); ok {
			name := shortCallee(c)
			if natural, isSort := sortCallees[name]; isSort {
				if !natural {
					if ok, why := totalOrderComparator(c); !ok {
						return false, "sorted with a comparator that is not a strict total order on the keys: " + why
					}
				}
				sortCall = c
				continue
			}
		}
		if mi, ok := r.(*ssa.MakeInterface); ok {
			// sort.Slice(x any, less): follow the interface value
			for _, rr := range refs(mi) {
				if c, ok := rr.(ssa.CallInstruction); ok {
					name := shortCallee(c)
					if natural, isSort := sortCallees[name]; isSort {
						if !natural {
							if ok, why := totalOrderComparator(c); !ok {
								return false, "sorted with a comparator that is not a strict total order on the keys: " + why
							}
						}
						sortCall = c
						continue
					}
				}
				others = append(others, rr)
			}
			continue
		}
		others = append(others, r)
	}
	if sortCall == nil {
		return false, "it escapes the loop without being sorted, so the map's iteration order leaks"
	}
	sc := sortCall.(ssa.Instruction)
	for _, o := range others {
		if !(sc.Block().Dominates(o.Block()) && InstrReaches(sc, o)) {
			return false, "used at " + a.P.InstrPos(o) + " before it is sorted"
		}
	}
	return true, ""
}

func appendChain(v ssa.Value, ph *ssa.Phi, li *loopInfo, depth int) bool {
	if v == ph {
		return true
	}
	if depth > 8 {
		return false
	}
	switch x := v.(type) {
	case *ssa.Call:
		if b, ok := x.Call.Value.(*ssa.Builtin); ok && b.Name() == "append" {
			return appendChain(x.Call.Args[0], ph, li, depth+1)
		}
	case *ssa.Phi:
		for _, e := range x.Edges {
			if !appendChain(e, ph, li, depth+1) {
				return false
			}
		}
		return true
	}
	return false
}

// totalOrderComparator accepts a sort.Slice-style call only when its less
// function compares the two elements themselves with < or > (a strict total
// order on distinct keys). Anything that first maps the elements through a
// function (ToLower, a field, a prefix) can make distinct keys compare equal,
// and then their relative order is the map's.
func totalOrderComparator(c ssa.CallInstruction) (bool, string) {
	args := c.Common().Args
	var less *ssa.Function
	var sliceVal ssa.Value
	for _, arg := range args {
		switch x := arg.(type) {
		case *ssa.MakeClosure:
			less = x.Fn.(*ssa.Function)
		case *ssa.Function:
			less = x
		case *ssa.MakeInterface:
			sliceVal = x.X
		}
	}
	_ = sliceVal
	if less == nil {
		return false, "comparator is not a function literal"
	}
	// every return value must be (elem[i] < elem[j]) with both operands direct element loads
	for _, b := range less.Blocks {
		ret, ok := b.Instrs[len(b.Instrs)-1].(*ssa.Return)
		if !ok {
			continue
		}
		if len(ret.Results) != 1 {
			return false, "unexpected comparator shape"
		}
		bo, ok := ret.Results[0].(*ssa.BinOp)
		if !ok || (bo.Op != token.LSS && bo.Op != token.GTR) {
			return false, "comparator result is not a direct < or > of the two elements"
		}
		for _, op := range []ssa.Value{bo.X, bo.Y} {
			if !directElem(op, less) {
				return false, "comparator compares " + exprKey(op) + ", not the element itself"
			}
		}
	}
	return true, ""
}

// directElem: v is slice[param] (sort.Slice style, slice captured) or a parameter (slices.SortFunc style).
func directElem(v ssa.Value, less *ssa.Function) bool {
	switch x := v.(type) {
	case *ssa.Parameter:
		return true
	case *ssa.UnOp:
		if x.Op != token.MUL {
			return false
		}
		ia, ok := x.X.(*ssa.IndexAddr)
		if !ok {
			return false
		}
		if _, ok := ia.Index.(*ssa.Parameter); !ok {
			return false
		}
		return true
	}
	return false
}

// SearchLoops checks the side condition of an unsorted key list that escapes
// into a slice-typed struct field (S4/allKeys): every loop over that field is a
// first-match search on equality of one element field with an invariant and has
// no other effect. Returns the number of loops found and the problems.
func (a *Analyzer) SearchLoops(field, elemField string) (int, []string) {
	n := 0
	var problems []string
	for _, f := range a.P.Funcs {
		for _, b := range f.Blocks {
			for _, in := range b.Instrs {
				ia, ok := in.(*ssa.IndexAddr)
				if !ok || fieldOfLoad(ia.X) != field {
					continue
				}
				if !isRangeIndex(ia.Index) {
					// a plain indexed access: order-insensitive only when the index comes from a first-match search by equality
					// on the key field (slices.IndexFunc(list, func(e) bool { return e.<key> == invariant }))
					if !indexFromEqualitySearch(ia.Index, field, elemField) {
						problems = append(problems, "indexed access into "+field+" at "+a.P.InstrPos(ia)+" with an index that is not the result of an equality search on ."+elemField+": the (random) order of the list decides which element is read")
					} else {
						n++
					}
					continue
				}
				// rangeindex loop: body = blocks dominated by ia's block; header = idom
				body := ia.Block()
				hdr := body.Idom()
				if hdr == nil {
					continue
				}
				n++
				li := &loopInfo{fn: f, hdr: hdr, body: body, inBody: map[*ssa.BasicBlock]bool{}}
				for _, bb := range f.Blocks {
					if body.Dominates(bb) {
						li.inBody[bb] = true
					}
				}
				// element value: *ia
				var elem ssa.Value = ia
				for _, r := range refs(ia) {
					if u, ok := r.(*ssa.UnOp); ok && u.Op == token.MUL {
						elem = u
						// a copy into a local cell (`for _, m := range`): the cell is the element
						for _, rr := range refs(u) {
							if st, ok := rr.(*ssa.Store); ok && st.Val == u {
								if al, ok := st.Addr.(*ssa.Alloc); ok {
									elem = al
								}
							}
						}
					}
				}
				li.val = elem
				where := a.P.FuncName(f) + " (" + a.P.InstrPos(ia) + ")"
				for bb := range li.inBody {
					for _, in2 := range bb.Instrs {
						switch x := in2.(type) {
						case *ssa.Store:
							if rootAlloc(x.Addr) == nil {
								problems = append(problems, "loop over "+field+" in "+where+" has a side effect at "+a.P.InstrPos(in2))
							}
						case *ssa.MapUpdate, *ssa.Send, *ssa.Go:
							problems = append(problems, "loop over "+field+" in "+where+" has a side effect at "+a.P.InstrPos(in2))
						case ssa.CallInstruction:
							if _, isB := x.Common().Value.(*ssa.Builtin); isB {
								continue
							}
							if pureCallees[shortCallee(x)] {
								continue
							}
							// calls are allowed only on the return path (computing the result for the match)
							if !guardedByElemEq(bb, li, elemField) {
								problems = append(problems, "loop over "+field+" in "+where+" calls "+shortCallee(x)+" outside a branch guarded by equality on ."+elemField)
							}
						case *ssa.Return:
							if !guardedByElemEq(bb, li, elemField) {
								problems = append(problems, "loop over "+field+" in "+where+" returns at "+a.P.InstrPos(in2)+" without an equality test on element."+elemField+": with several matching elements the (random) order of "+field+" decides")
							}
						}
					}
				}
				// loop-carried values other than the index
				for _, in2 := range hdr.Instrs {
					if ph, ok := in2.(*ssa.Phi); ok && ph.Comment != "rangeindex" {
						problems = append(problems, "loop over "+field+" in "+where+" carries "+exprKey(ph)+" around the loop")
					}
				}
			}
		}
	}
	return n, problems
}

// isRangeIndex: the induction variable of a range-over-slice loop (phi #rangeindex, or that phi + 1).
func isRangeIndex(v ssa.Value) bool {
	switch x := v.(type) {
	case *ssa.Phi:
		return x.Comment == "rangeindex"
	case *ssa.BinOp:
		if p, ok := x.X.(*ssa.Phi); ok && p.Comment == "rangeindex" {
			return true
		}
	}
	return false
}

// indexFromEqualitySearch: idx is the result of slices.IndexFunc(<field>, closure) where the closure returns
// elem.<elemField> == <captured or constant value>.
func indexFromEqualitySearch(idx ssa.Value, field, elemField string) bool {
	c, ok := idx.(*ssa.Call)
	if !ok {
		return false
	}
	callee := c.Call.StaticCallee()
	if callee == nil {
		return false
	}
	name := callee.String()
	if o := callee.Origin(); o != nil {
		name = o.String()
	}
	if name != "slices.IndexFunc" && name != "golang.org/x/exp/slices.IndexFunc" {
		return false
	}
	if len(c.Call.Args) != 2 || fieldOfLoad(c.Call.Args[0]) != field {
		return false
	}
	var fn *ssa.Function
	switch f := c.Call.Args[1].(type) {
	case *ssa.MakeClosure:
		fn, _ = f.Fn.(*ssa.Function)
	case *ssa.Function:
		fn = f
	}
	if fn == nil || len(fn.Params) != 1 || len(fn.Blocks) != 1 {
		return false
	}
	ret, ok := fn.Blocks[0].Instrs[len(fn.Blocks[0].Instrs)-1].(*ssa.Return)
	if !ok || len(ret.Results) != 1 {
		return false
	}
	bo, ok := ret.Results[0].(*ssa.BinOp)
	if !ok || bo.Op != token.EQL {
		return false
	}
	// a struct parameter is spilled into a local cell: the element is the parameter or that cell
	roots := []ssa.Value{fn.Params[0]}
	for _, r := range refs(fn.Params[0]) {
		if st, ok := r.(*ssa.Store); ok && st.Val == ssa.Value(fn.Params[0]) {
			if al, ok := st.Addr.(*ssa.Alloc); ok {
				roots = append(roots, al)
			}
		}
	}
	for _, pr := range [][2]ssa.Value{{bo.X, bo.Y}, {bo.Y, bo.X}} {
		found := false
		for _, root := range roots {
			if p, isPath := pathFrom(pr[0], root); isPath && p == elemField {
				found = true
			}
		}
		if !found {
			continue
		}
		switch o := pr[1].(type) {
		case *ssa.Const, *ssa.FreeVar, *ssa.Global:
			return true
		case *ssa.UnOp:
			if _, isFV := o.X.(*ssa.FreeVar); isFV {
				return true
			}
		}
	}
	return false
}

func guardedByElemEq(b *ssa.BasicBlock, li *loopInfo, elemField string) bool {
	for d := b; d != nil && li.inBody[d]; d = d.Idom() {
		id := d.Idom()
		if id == nil || !li.inBody[id] {
			break
		}
		iff, ok := id.Instrs[len(id.Instrs)-1].(*ssa.If)
		if !ok {
			continue
		}
		bo, ok := iff.Cond.(*ssa.BinOp)
		if !ok || (bo.Op != token.EQL && bo.Op != token.NEQ) {
			continue
		}
		for _, pr := range [][2]ssa.Value{{bo.X, bo.Y}, {bo.Y, bo.X}} {
			p, isPath := pathFrom(pr[0], li.val)
			if !isPath || p != elemField || !invariantIn(pr[1], li) {
				continue
			}
			if bo.Op == token.EQL && id.Succs[0] == d && len(d.Preds) == 1 {
				return true
			}
			if bo.Op == token.NEQ && id.Succs[1] == d && len(d.Preds) == 1 {
				return true
			}
		}
	}
	return false
}

// sortedAllocAccumulator is sortedAccumulator for a slice variable that lives
// in a cell (because a comparator closure captures it).
func (a *Analyzer) sortedAllocAccumulator(al *ssa.Alloc, stores []*ssa.Store, li *loopInfo) (bool, string) {
	for _, st := range stores {
		c, ok := st.Val.(*ssa.Call)
		if !ok {
			return false, "updated by something other than append"
		}
		b, ok := c.Call.Value.(*ssa.Builtin)
		if !ok || b.Name() != "append" {
			return false, "updated by something other than append"
		}
		ld, ok := c.Call.Args[0].(*ssa.UnOp)
		if !ok || ld.Op != token.MUL || ld.X != al {
			return false, "append does not extend the variable itself"
		}
	}
	var sortCall ssa.CallInstruction
	var others []ssa.Instruction
	checkSort := func(c ssa.CallInstruction) (bool, string, bool) {
		name := shortCallee(c)
		natural, isSort := sortCallees[name]
		if !isSort {
			return false, "", false
		}
		if !natural {
			if ok, why := totalOrderComparator(c); !ok {
				return false, "sorted with a comparator that is not a strict total order on the keys: " + why, true
			}
		}
		return true, "", true
	}
	for _, r := range refs(al) {
		b := r.Block()
		if li.inBody[b] {
			continue
		}
		switch x := r.(type) {
		case *ssa.Store:
			if li.fn.Blocks[0].Dominates(b) && !li.done.Dominates(b) {
				continue // initialisation before the loop
			}
			others = append(others, r)
		case *ssa.MakeClosure:
			// must be the comparator of the sort call: checked through the call below
			for _, rr := range refs(x) {
				if c, ok := rr.(ssa.CallInstruction); ok {
					if ok2, why, isSort := checkSort(c); isSort {
						if !ok2 {
							return false, why
						}
						sortCall = c
						continue
					}
				}
				others = append(others, rr)
			}
		case *ssa.UnOp:
			// a load: follow to its uses
			for _, rr := range refs(x) {
				var c ssa.CallInstruction
				if cc, ok := rr.(ssa.CallInstruction); ok {
					c = cc
				} else if mi, ok := rr.(*ssa.MakeInterface); ok {
					for _, r3 := range refs(mi) {
						if cc, ok := r3.(ssa.CallInstruction); ok {
							c = cc
						}
					}
				}
				if c != nil {
					if ok2, why, isSort := checkSort(c); isSort {
						if !ok2 {
							return false, why
						}
						sortCall = c
						continue
					}
				}
				others = append(others, rr)
			}
		default:
			others = append(others, r)
		}
	}
	if sortCall == nil {
		return false, "it escapes the loop without being sorted, so the map's iteration order leaks"
	}
	sc := sortCall.(ssa.Instruction)
	for _, o := range others {
		if o == sc {
			continue
		}
		if !(sc.Block().Dominates(o.Block()) && (InstrReaches(sc, o))) {
			return false, "used at " + a.P.InstrPos(o) + " before it is sorted"
		}
	}
	return true, ""
}
