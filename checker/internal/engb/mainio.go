package engb

import (
	"fmt"
	"go/constant"
	"go/token"
	"os"
	"strings"

	"golang.org/x/tools/go/ssa"
)

// OutputFilesTruncated (B-TRUNC): every os.OpenFile in the module that opens a file for writing does so with O_TRUNC (or
// O_EXCL): otherwise the bytes of an output file also depend on what an earlier run left there (a shorter output keeps the
// old tail). os.Create and os.WriteFile truncate by definition.
func (a *Analyzer) OutputFilesTruncated() []RuleResult {
	var out []RuleResult
	n := 0
	for _, f := range a.P.Funcs {
		occ := 0
		for _, c := range Calls(f) {
			switch shortCallee(c) {
			case "os.Create", "os.WriteFile":
				n++
			case "os.OpenFile":
				n++
				args := c.Common().Args
				ok, why := false, "the flag argument is not a constant: "+exprKey(args[1])
				if k, isK := args[1].(*ssa.Const); isK && k.Value != nil && k.Value.Kind() == constant.Int {
					fl, _ := constant.Int64Val(k.Value)
					write := fl&int64(os.O_WRONLY|os.O_RDWR) != 0
					switch {
					case !write:
						ok, why = true, "opened read-only"
					case fl&int64(os.O_TRUNC|os.O_EXCL) != 0:
						ok, why = true, "opened for writing with O_TRUNC / O_EXCL"
					default:
						why = fmt.Sprintf("opened for writing with flags %#x: neither O_TRUNC nor O_EXCL, so what an earlier run left in the file survives beyond the new content", fl)
					}
				}
				out = append(out, RuleResult{"B-TRUNC", a.P.FuncName(f), fmt.Sprintf("os.OpenFile#%d replaces the previous content", occ), a.P.InstrPos(c.(ssa.Instruction)), ok, why})
				occ++
			}
		}
	}
	out = append(out, RuleResult{"B-TRUNC", "(module)", "file-writing call sites", "", n >= 1, fmt.Sprintf("%d call sites", n)})
	return out
}

// EveryArgumentIsProcessed (B-ARGS): in main's run function every DoFile call takes, as the file name, the element of the
// command's args parameter selected by the enclosing loop (possibly through pure path normalisation) — an argument is
// never replaced by the result of an expansion that may be empty.
func (a *Analyzer) EveryArgumentIsProcessed(fn string) []RuleResult {
	f := a.P.Func(fn)
	if f == nil {
		return []RuleResult{{"B-ARGS", fn, "anchor", "", false, "function not found"}}
	}
	var argsParam *ssa.Parameter
	for _, p := range f.Params {
		if p.Type().String() == "[]string" {
			argsParam = p
		}
	}
	var out []RuleResult
	n := 0
	for _, c := range Calls(f) {
		if !strings.HasSuffix(shortCallee(c), "Generator).DoFile") {
			continue
		}
		n++
		v := c.Common().Args[len(c.Common().Args)-1]
		for i := 0; i < 3; i++ {
			if cc, isCall := v.(*ssa.Call); isCall && len(cc.Call.Args) == 1 {
				switch shortCallee(cc) {
				case "path/filepath.Clean", "path/filepath.ToSlash", "path/filepath.FromSlash":
					v = cc.Call.Args[0]
					continue
				}
			}
			break
		}
		ok, why := false, "the file name is "+exprKey(v)+", not an element of the args parameter"
		if ld, isLd := v.(*ssa.UnOp); isLd && ld.Op == token.MUL {
			if ia, isIA := ld.X.(*ssa.IndexAddr); isIA && argsParam != nil && ia.X == ssa.Value(argsParam) {
				ok, why = true, "args[i] of the enclosing loop"
			}
		}
		out = append(out, RuleResult{"B-ARGS", a.P.FuncName(f), fmt.Sprintf("DoFile#%d processes the argument itself", n-1), a.P.InstrPos(c.(ssa.Instruction)), ok, why})
	}
	out = append(out, RuleResult{"B-ARGS", "(module)", "DoFile call sites in " + fn, "", n >= 1 && argsParam != nil, fmt.Sprintf("%d call sites", n)})
	return out
}

// StdoutCarriesOnlyCode (B-STDOUT): standard output is where the generated code goes by default, so in package main nothing
// else may be written to it: no fmt.Print/Printf/Println, no os.Stdout handed to fmt.Fprint*/log; the only use of os.Stdout
// is as the receiver of Write.
func (a *Analyzer) StdoutCarriesOnlyCode() []RuleResult {
	var out []RuleResult
	writes, bad := 0, 0
	for _, f := range a.P.Funcs {
		if f.Pkg == nil || f.Pkg.Pkg.Name() != "main" {
			continue
		}
		for _, c := range Calls(f) {
			switch shortCallee(c) {
			case "fmt.Print", "fmt.Printf", "fmt.Println", "print", "println":
				bad++
				out = append(out, RuleResult{"B-STDOUT", a.P.FuncName(f), shortCallee(c) + " writes to standard output", a.P.InstrPos(c.(ssa.Instruction)), false,
					"diagnostics written with " + shortCallee(c) + " land in the generated code when the output is standard output (the default)"})
			}
		}
		for _, b := range f.Blocks {
			for _, in := range b.Instrs {
				ld, ok := in.(*ssa.UnOp)
				if !ok || ld.Op != token.MUL {
					continue
				}
				g, isG := ld.X.(*ssa.Global)
				if !isG || g.Pkg == nil || g.Pkg.Pkg.Path() != "os" || g.Name() != "Stdout" {
					continue
				}
				for _, r := range refs(ld) {
					call, isCall := r.(ssa.CallInstruction)
					if isCall && shortCallee(call) == "(*os.File).Write" && len(call.Common().Args) > 0 && call.Common().Args[0] == ssa.Value(ld) {
						writes++
						continue
					}
					if _, isDbg := r.(*ssa.DebugRef); isDbg {
						continue
					}
					bad++
					out = append(out, RuleResult{"B-STDOUT", a.P.FuncName(f), "os.Stdout used other than as the receiver of Write", a.P.InstrPos(r), false,
						"os.Stdout is handed to " + r.String() + ": anything but the generated source on standard output corrupts the default output"})
				}
			}
		}
	}
	out = append(out, RuleResult{"B-STDOUT", "main", "standard output carries only the generated source", "", bad == 0 && writes >= 1, fmt.Sprintf("%d Write call(s) on os.Stdout, %d other uses", writes, bad)})
	return out
}

// MappingUsesPresence (B-MAPPRESENT): in the mapping assembly an explicitly given per-id value is used verbatim, also when it
// is the empty string (`--schema-output=ID=` is how "no output for this schema" is said): every lookup in a per-id flag map
// inside the function is a comma-ok lookup whose ok flag decides the branch; a plain lookup compared with "" conflates
// "given as empty" with "not given".
func (a *Analyzer) MappingUsesPresence(fn string) []RuleResult {
	f := a.P.Func(fn)
	if f == nil {
		return []RuleResult{{"B-MAPPRESENT", fn, "anchor", "", false, "function not found"}}
	}
	var out []RuleResult
	n := 0
	for _, b := range f.Blocks {
		for _, in := range b.Instrs {
			lk, ok := in.(*ssa.Lookup)
			if !ok || lk.X.Type().Underlying().String() != "map[string]string" {
				continue
			}
			n++
			name := exprKey(lk.X)
			if lk.CommaOk {
				out = append(out, RuleResult{"B-MAPPRESENT", a.P.FuncName(f), "lookup in " + name + " distinguishes given-as-empty from not-given", a.P.InstrPos(lk), true, "comma-ok lookup"})
				continue
			}
			// a plain lookup is fine when its value is stored unconditionally (the zero value IS the absent value there);
			// it is not when the value is compared with "" to choose between it and a default
			cmp := false
			for _, r := range refs(lk) {
				if bo, isB := r.(*ssa.BinOp); isB && (bo.Op == token.EQL || bo.Op == token.NEQ) {
					if k, isK := bo.Y.(*ssa.Const); isK && k.Value != nil && k.Value.Kind() == constant.String && constant.StringVal(k.Value) == "" {
						cmp = true
					}
					if k, isK := bo.X.(*ssa.Const); isK && k.Value != nil && k.Value.Kind() == constant.String && constant.StringVal(k.Value) == "" {
						cmp = true
					}
				}
			}
			why := "plain lookup whose value is used as it is"
			if cmp {
				why = "plain lookup compared with \"\": a value given as the empty string is treated like a missing one and replaced by the default"
			}
			out = append(out, RuleResult{"B-MAPPRESENT", a.P.FuncName(f), "lookup in " + name + " distinguishes given-as-empty from not-given", a.P.InstrPos(lk), !cmp, why})
		}
	}
	out = append(out, RuleResult{"B-MAPPRESENT", "(module)", "per-id flag map lookups in " + fn, "", n >= 3, fmt.Sprintf("%d lookups", n)})
	return out
}

// MergoModelAssumptions (B-MERGEMODEL): the interpreter does not execute dario.cat/mergo; it uses a stated model of
// Merge(dst, src, WithAppendSlice, WithTransformers(typeListTransformer{})) in which the TypeList transformer leaves a non-nil
// destination list alone (the first branch's type wins). That part of the model is about MODULE code, so it is checked: the
// function typeListTransformer.Transformer hands out has no effect — it only returns nil. If it does anything else, every
// verdict on allOf/anyOf compositions rests on a false model and is withdrawn (reported).
func (a *Analyzer) MergoModelAssumptions() []RuleResult {
	fn := "(pkg/schemas.typeListTransformer).Transformer"
	f := a.P.Func(fn)
	if f == nil {
		return []RuleResult{{"B-MERGEMODEL", fn, "anchor", "", false, "function not found: the mergo model's assumption about the TypeList transformer cannot be checked"}}
	}
	var out []RuleResult
	n := 0
	for _, an := range f.AnonFuncs {
		n++
		ok, why := true, "returns nil and does nothing else"
		for _, b := range an.Blocks {
			for _, in := range b.Instrs {
				switch x := in.(type) {
				case *ssa.Return:
					if len(x.Results) != 1 || !isNilConst(x.Results[0]) {
						ok, why = false, "returns "+x.String()
					}
				case *ssa.DebugRef:
				default:
					ok, why = false, "does more than return nil ("+in.String()+"): a non-nil destination type list is changed by the merge, which the composition model does not reproduce"
				}
			}
		}
		out = append(out, RuleResult{"B-MERGEMODEL", fn, fmt.Sprintf("the TypeList transformer #%d is a no-op (first branch's type wins)", n-1), a.P.Pos(an.Pos()), ok, why})
	}
	out = append(out, RuleResult{"B-MERGEMODEL", fn, "transformer functions", "", n >= 1, fmt.Sprintf("%d", n)})
	return out
}

// WholeDocumentDecoded (B-EOF): a function of the module that reads a schema with (*json.Decoder).Decode reads ONE value from a
// stream; whatever follows that value in the file is not looked at by Decode. Every return of such a function that reports success
// (a nil error) and is reachable from the Decode call must lie on the io.EOF side of a further read on the same decoder
// (Token, or a second Decode), otherwise a file with trailing garbage is accepted as if it were the schema.
func (a *Analyzer) WholeDocumentDecoded() []RuleResult {
	var out []RuleResult
	n := 0
	for _, f := range a.P.Funcs {
		occ := 0
		for _, c := range Calls(f) {
			if shortCallee(c) != "(*encoding/json.Decoder).Decode" {
				continue
			}
			n++
			dec := c.Common().Args[0]
			// an end-of-input test: a FURTHER read on the same decoder (Token, or a second Decode) whose error is compared with io.EOF;
			// the block entered when the error IS io.EOF is where "nothing follows the document" is known.
			// (Decoder.More is not such a test: it answers false in front of a stray '}' or ']' and on read errors.)
			var eofBlocks []*ssa.BasicBlock
			for _, e := range Calls(f) {
				switch shortCallee(e) {
				case "(*encoding/json.Decoder).Token", "(*encoding/json.Decoder).Decode":
				default:
					continue
				}
				ev, isVal := e.(ssa.Value)
				if e == c || !isVal || e.Common().Args[0] != dec || !InstrReaches(c.(ssa.Instruction), e.(ssa.Instruction)) {
					continue
				}
				derived := map[ssa.Value]bool{ev: true}
				for _, r := range refs(ev) {
					if x, ok := r.(*ssa.Extract); ok {
						derived[x] = true
					}
				}
				for _, blk := range f.Blocks {
					if len(blk.Instrs) == 0 {
						continue
					}
					if t, ok := blk.Instrs[len(blk.Instrs)-1].(*ssa.If); ok {
						if side, ok := eofTestSide(t.Cond, func(v ssa.Value) bool { return derived[v] }); ok {
							eofBlocks = append(eofBlocks, blk.Succs[side])
						}
					}
				}
			}
			ok, why := true, fmt.Sprintf("every successful return lies on the io.EOF side of %d end-of-input test(s) on the decoder", len(eofBlocks))
			for _, b := range f.Blocks {
				for _, in := range b.Instrs {
					r, isRet := in.(*ssa.Return)
					if !isRet || !InstrReaches(c.(ssa.Instruction), r) || len(r.Results) == 0 {
						continue
					}
					last := r.Results[len(r.Results)-1]
					k, isConst := last.(*ssa.Const)
					if !isConst || !k.IsNil() {
						continue // returns an error
					}
					dominated := false
					for _, eb := range eofBlocks {
						if eb.Dominates(b) {
							dominated = true
						}
					}
					if !dominated {
						ok, why = false, "the successful return at "+a.P.InstrPos(r)+" is reached after Decode without a further read on the decoder that ended in io.EOF (Decoder.Token or a second Decode; Decoder.More is no end-of-input test: it is false in front of a stray '}' or ']'): a document followed by trailing bytes is accepted"
					}
				}
			}
			out = append(out, RuleResult{"B-EOF", a.P.FuncName(f), fmt.Sprintf("json.Decoder.Decode#%d reads the whole document", occ), a.P.InstrPos(c.(ssa.Instruction)), ok, why})
			occ++
		}
	}
	out = append(out, RuleResult{"B-EOF", "(module)", "stream-decoding call sites", "", n >= 1, fmt.Sprintf("%d call sites", n)})
	return out
}

// NoTextSearchInDocuments (B-RAWPEEK): the schema decoders (the UnmarshalJSON methods of pkg/schemas) receive the raw text of a JSON
// value. Looking at its FIRST byte (a value starts without white space) or handing it to encoding/json is independent of how the
// document is formatted; SEARCHING the text (Contains / Index / Count / regexp, on the bytes or on their string conversion) is not:
// `"definitions":` does not occur in `"definitions" : {…}`, and a key text may also occur inside a string value. Equivalent spellings
// of one schema would be read differently.
func (a *Analyzer) NoTextSearchInDocuments() []RuleResult {
	var out []RuleResult
	n := 0
	search := map[string]bool{}
	for _, pk := range []string{"bytes", "strings"} {
		for _, fn := range []string{"Contains", "ContainsAny", "ContainsRune", "Index", "IndexAny", "IndexByte", "IndexRune", "LastIndex", "Count", "Cut", "Split", "SplitN", "Fields"} {
			search[pk+"."+fn] = true
		}
	}
	for _, f := range a.P.Funcs {
		name := a.P.FuncName(f)
		if !strings.Contains(name, "pkg/schemas.") || !strings.HasSuffix(name, ").UnmarshalJSON") || len(f.Params) < 2 {
			continue
		}
		n++
		tainted := map[ssa.Value]bool{f.Params[1]: true}
		work := []ssa.Value{f.Params[1]}
		ok, why := true, "the raw text is only indexed at fixed positions, measured, compared as a whole or handed to encoding/json"
		pos := a.P.Pos(f.Pos())
		for len(work) > 0 {
			v := work[len(work)-1]
			work = work[:len(work)-1]
			for _, r := range refs(v) {
				switch x := r.(type) {
				case *ssa.Convert, *ssa.ChangeType, *ssa.Slice, *ssa.Phi, *ssa.MakeInterface:
					if val := x.(ssa.Value); !tainted[val] {
						tainted[val] = true
						work = append(work, val)
					}
				case ssa.CallInstruction:
					callee := shortCallee(x)
					if search[callee] || strings.HasPrefix(callee, "regexp.") || strings.HasPrefix(callee, "(*regexp.Regexp).") {
						ok, why, pos = false, "the raw text of the document reaches "+callee+": a search in the text depends on insignificant white space and on what string values happen to contain, so equivalent spellings of the schema are read differently", a.P.InstrPos(x.(ssa.Instruction))
					}
					if callee == "bytes.TrimSpace" || callee == "strings.TrimSpace" || callee == "bytes.NewReader" || callee == "bytes.NewBuffer" {
						if val, isVal := x.(ssa.Value); isVal && !tainted[val] {
							tainted[val] = true
							work = append(work, val)
						}
					}
				}
			}
		}
		out = append(out, RuleResult{"B-RAWPEEK", name, "the document's raw text is not searched", pos, ok, why})
	}
	out = append(out, RuleResult{"B-RAWPEEK", "(module)", "schema decoders", "", n >= 3, fmt.Sprintf("%d UnmarshalJSON methods in pkg/schemas", n)})
	return out
}
