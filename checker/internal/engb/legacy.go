package engb

import (
	"fmt"
	"go/token"
	"go/types"
	"reflect"
	"strings"

	"golang.org/x/tools/go/ssa"
)

// LegacyPair names a current/legacy keyword pair folded together at decode time.
type LegacyPair struct {
	Func      string // FuncName of the decode function
	CurTag    string // json name of the current keyword, e.g. "$id"
	LegacyTag string // json name of the legacy keyword, e.g. "id"
}

type LegacyResult struct {
	Pair     LegacyPair
	OK       bool
	How      string
	Problems []string
	Pos      string
}

func jsonTagName(st *types.Struct, i int) string {
	tag := reflect.StructTag(st.Tag(i)).Get("json")
	if j := strings.Index(tag, ","); j >= 0 {
		tag = tag[:j]
	}
	return tag
}

func fieldAddrTag(fa *ssa.FieldAddr) string {
	st := fa.X.Type().Underlying().(*types.Pointer).Elem().Underlying().(*types.Struct)
	return jsonTagName(st, fa.Field)
}

func isZeroConst(v ssa.Value) bool {
	c, ok := v.(*ssa.Const)
	if !ok {
		return false
	}
	if c.IsNil() {
		return true
	}
	if s, ok := ConstString(v); ok && s == "" {
		return true
	}
	return false
}

// dominatedByTrueEdge: block b executes only when `cond` (an If in block ib)
// took the successor `side`.
func dominatedByEdge(b, ib *ssa.BasicBlock, side int) bool {
	t := ib.Succs[side]
	if len(t.Preds) != 1 {
		return false
	}
	return t.Dominates(b)
}

// LegacyFold checks one pair.
func (a *Analyzer) LegacyFold(p LegacyPair) *LegacyResult {
	res := &LegacyResult{Pair: p}
	f := a.P.Func(p.Func)
	if f == nil {
		res.Problems = append(res.Problems, "decode function "+p.Func+" not found")
		return res
	}
	res.Pos = a.P.Pos(f.Pos())
	var curAddrs, legAddrs []*ssa.FieldAddr
	for _, b := range f.Blocks {
		for _, in := range b.Instrs {
			if fa, ok := in.(*ssa.FieldAddr); ok {
				switch fieldAddrTag(fa) {
				case p.CurTag:
					curAddrs = append(curAddrs, fa)
				case p.LegacyTag:
					legAddrs = append(legAddrs, fa)
				}
			}
		}
	}
	// stores cur <- legacy
	nStores := 0
	for _, ca := range curAddrs {
		for _, r := range refs(ca) {
			st, ok := r.(*ssa.Store)
			if !ok || st.Addr != ca {
				continue
			}
			ld, ok := st.Val.(*ssa.UnOp)
			if !ok || ld.Op != token.MUL {
				res.Problems = append(res.Problems, fmt.Sprintf("%q is overwritten at %s by a value that is not the legacy keyword", p.CurTag, a.P.InstrPos(st)))
				continue
			}
			la, ok := ld.X.(*ssa.FieldAddr)
			if !ok || fieldAddrTag(la) != p.LegacyTag {
				res.Problems = append(res.Problems, fmt.Sprintf("%q is overwritten at %s by a value that is not the legacy keyword", p.CurTag, a.P.InstrPos(st)))
				continue
			}
			nStores++
			// guard: dominated by the edge on which cur is zero
			guarded := false
			for _, b := range f.Blocks {
				iff, ok := b.Instrs[len(b.Instrs)-1].(*ssa.If)
				if !ok {
					continue
				}
				bo, ok := iff.Cond.(*ssa.BinOp)
				if !ok || (bo.Op != token.EQL && bo.Op != token.NEQ) {
					continue
				}
				var subj ssa.Value
				if isZeroConst(bo.Y) {
					subj = bo.X
				} else if isZeroConst(bo.X) {
					subj = bo.Y
				} else {
					continue
				}
				sl, ok := subj.(*ssa.UnOp)
				if !ok || sl.Op != token.MUL {
					continue
				}
				sa, ok := sl.X.(*ssa.FieldAddr)
				if !ok || fieldAddrTag(sa) != p.CurTag || sa.X != ca.X {
					continue
				}
				side := 0
				if bo.Op == token.NEQ {
					side = 1
				}
				if dominatedByEdge(st.Block(), b, side) {
					guarded = true
				}
			}
			if !guarded {
				res.Problems = append(res.Problems, fmt.Sprintf("the legacy keyword %q overwrites %q at %s without a dominating test that %q is absent: when both spellings are present the legacy one wins", p.LegacyTag, p.CurTag, a.P.InstrPos(st), p.CurTag))
			}
		}
	}
	if nStores > 0 {
		if len(res.Problems) == 0 {
			res.OK = true
			res.How = fmt.Sprintf("%q is copied into %q only on the branch where %q is absent (%d store)", p.LegacyTag, p.CurTag, p.CurTag, nStores)
		}
		return res
	}
	// No fold at decode time. The alternative discipline: an accessor reads both,
	// and nothing else reads the current field directly.
	// the struct that carries both keywords (as decoded): found module-wide by tags
	var stType types.Type
	for _, g := range a.P.Funcs {
		for _, b := range g.Blocks {
			for _, in := range b.Instrs {
				if fa, ok := in.(*ssa.FieldAddr); ok && fieldAddrTag(fa) == p.LegacyTag {
					t := fa.X.Type().Underlying().(*types.Pointer).Elem()
					if st, ok := t.Underlying().(*types.Struct); ok {
						for i := 0; i < st.NumFields(); i++ {
							if jsonTagName(st, i) == p.CurTag {
								stType = t
							}
						}
					}
				}
			}
		}
	}
	if stType == nil {
		res.Problems = append(res.Problems, fmt.Sprintf("the legacy keyword %q is not read anywhere next to %q: documents spelled with it lose the value", p.LegacyTag, p.CurTag))
		return res
	}
	accessors := map[*ssa.Function]bool{}
	type read struct {
		fn  *ssa.Function
		pos string
	}
	var curReads []read
	for _, g := range a.P.Funcs {
		for _, b := range g.Blocks {
			for _, in := range b.Instrs {
				fa, ok := in.(*ssa.FieldAddr)
				if !ok {
					continue
				}
				t := fa.X.Type().Underlying().(*types.Pointer).Elem()
				if !sameStructShape(t, stType) {
					continue
				}
				switch fieldAddrTag(fa) {
				case p.LegacyTag:
					accessors[g] = true
				case p.CurTag:
					curReads = append(curReads, read{g, a.P.InstrPos(fa)})
				}
			}
		}
	}
	delete(accessors, f)
	if len(accessors) == 0 {
		res.Problems = append(res.Problems, fmt.Sprintf("the legacy keyword %q is decoded but never folded into %q", p.LegacyTag, p.CurTag))
		return res
	}
	for _, r := range curReads {
		if r.fn == f || accessors[r.fn] {
			continue
		}
		res.Problems = append(res.Problems, fmt.Sprintf("%s reads %q directly at %s although the legacy keyword %q is no longer folded in at decode time: a document spelled with %q behaves differently there",
			a.P.FuncName(r.fn), p.CurTag, r.pos, p.LegacyTag, p.LegacyTag))
	}
	if len(res.Problems) == 0 {
		res.OK = true
		res.How = "folded by accessor functions; no direct read of the current field elsewhere"
	}
	return res
}

func sameStructShape(a, b types.Type) bool {
	if a == nil || b == nil {
		return false
	}
	return types.Identical(a.Underlying(), b.Underlying())
}

// RefPrefixCheck: in extractRefNames-like code, the definition prefixes are
// matched on a lower-cased copy, both spellings are in the constant list, and
// the constants themselves are lower case.
func (a *Analyzer) RefPrefixCheck(fn string) (ok bool, how string, problems []string) {
	f := a.P.Func(fn)
	if f == nil {
		return false, "", []string{"function " + fn + " not found"}
	}
	consts := map[string]bool{}
	var hasPrefixCalls []*ssa.Call
	for _, b := range f.Blocks {
		for _, in := range b.Instrs {
			switch x := in.(type) {
			case *ssa.Store:
				if s, ok := ConstString(x.Val); ok && strings.HasPrefix(s, "/") {
					consts[s] = true
				}
			case *ssa.Call:
				if g := x.Call.StaticCallee(); g != nil && g.String() == "strings.HasPrefix" {
					hasPrefixCalls = append(hasPrefixCalls, x)
				}
			}
		}
	}
	for _, want := range []string{"/$defs/", "/definitions/"} {
		if !consts[want] {
			problems = append(problems, "pointer prefix "+want+" is not among the accepted prefixes")
		}
	}
	for s := range consts {
		if s != strings.ToLower(s) {
			problems = append(problems, "accepted prefix "+s+" is not lower case but is matched against a lower-cased pointer")
		}
	}
	if len(hasPrefixCalls) == 0 {
		problems = append(problems, "no prefix test found")
	}
	for _, c := range hasPrefixCalls {
		subj := c.Call.Args[0]
		lc, isCall := subj.(*ssa.Call)
		if !isCall || lc.Call.StaticCallee() == nil || lc.Call.StaticCallee().String() != "strings.ToLower" {
			problems = append(problems, "the prefix test at "+a.P.InstrPos(c)+" is not made on a lower-cased copy of the pointer: '#/Definitions/X' and '#/definitions/X' are treated differently")
		}
	}
	if len(problems) == 0 {
		return true, fmt.Sprintf("%d prefixes, matched case-insensitively", len(consts)), nil
	}
	return false, "", problems
}

// SchemaProducers: every function of pkg/schemas that returns a locally built
// *Schema must have filled it through encoding/json (Unmarshal or Decoder.Decode)
// and through nothing else; the YAML reader must run FixMapKeys between the YAML
// decode and json.Marshal.
func (a *Analyzer) SchemaProducers() (n int, problems []string, notes []string) {
	for _, f := range a.P.Funcs {
		if f.Pkg == nil || !strings.HasSuffix(f.Pkg.Pkg.Path(), "/pkg/schemas") {
			continue
		}
		for _, b := range f.Blocks {
			for _, in := range b.Instrs {
				al, ok := in.(*ssa.Alloc)
				if !ok || !al.Heap {
					continue
				}
				if types.TypeString(al.Type(), nil) != "*"+a.P.Mod+"/pkg/schemas.Schema" {
					continue
				}
				// is it returned?
				returned := false
				for _, r := range refs(al) {
					if _, ok := r.(*ssa.Return); ok {
						returned = true
					}
				}
				if !returned {
					continue
				}
				n++
				fillers := []string{}
				for _, r := range refs(al) {
					mi, ok := r.(*ssa.MakeInterface)
					if !ok {
						continue
					}
					for _, rr := range refs(mi) {
						if c, ok := rr.(ssa.CallInstruction); ok {
							fillers = append(fillers, shortCallee(c))
						}
					}
				}
				okFill := len(fillers) > 0
				for _, fl := range fillers {
					if fl != "encoding/json.Unmarshal" && fl != "(*encoding/json.Decoder).Decode" {
						okFill = false
					}
				}
				name := a.P.FuncName(f)
				if !okFill {
					problems = append(problems, fmt.Sprintf("%s builds the *Schema it returns through %v, not only through encoding/json: JSON and YAML inputs no longer share one decoder", name, fillers))
				} else {
					notes = append(notes, fmt.Sprintf("%s fills its *Schema only through %v", name, fillers))
				}
			}
		}
	}
	// YAML pipeline order
	f := a.P.Func("pkg/schemas.FromYAMLReader")
	if f == nil {
		problems = append(problems, "pkg/schemas.FromYAMLReader not found")
		return
	}
	var dec, fix, mar, unm ssa.Instruction
	for _, c := range Calls(f) {
		switch n := shortCallee(c); {
		case strings.HasSuffix(n, "go-yaml.Decoder).Decode"):
			dec = c.(ssa.Instruction)
		case n == "pkg/yamlutils.FixMapKeys":
			fix = c.(ssa.Instruction)
		case n == "encoding/json.Marshal":
			mar = c.(ssa.Instruction)
		case n == "encoding/json.Unmarshal":
			unm = c.(ssa.Instruction)
		}
	}
	if dec == nil || fix == nil || mar == nil || unm == nil {
		problems = append(problems, "FromYAMLReader no longer has the pipeline YAML decode -> FixMapKeys -> json.Marshal -> json.Unmarshal")
		return
	}
	order := []ssa.Instruction{dec, fix, mar, unm}
	for i := 0; i+1 < len(order); i++ {
		if !(order[i].Block().Dominates(order[i+1].Block()) && InstrReaches(order[i], order[i+1])) {
			problems = append(problems, fmt.Sprintf("in FromYAMLReader, %s does not precede %s on every path", shortCallee(order[i].(ssa.CallInstruction)), shortCallee(order[i+1].(ssa.CallInstruction))))
		}
	}
	// same map flows through FixMapKeys and json.Marshal
	fixArg := fix.(ssa.CallInstruction).Common().Args[0]
	marArg := stripIface(mar.(ssa.CallInstruction).Common().Args[0])
	if exprKey(fixArg) != exprKey(marArg) {
		problems = append(problems, "FixMapKeys and json.Marshal in FromYAMLReader do not operate on the same map")
	}
	notes = append(notes, "FromYAMLReader: YAML decode -> FixMapKeys -> json.Marshal -> json.Unmarshal in dominance order on one map")
	return
}

// CmpIgnoresRef: structural comparison of schema types (cmputil.Opts) must
// ignore the raw $ref text, otherwise '#/$defs/X' and '#/definitions/X' make two
// otherwise identical types different.
func (a *Analyzer) CmpIgnoresRef() (bool, string) {
	f := a.P.Func("pkg/cmputil.Opts")
	if f == nil {
		return false, "pkg/cmputil.Opts not found"
	}
	for _, b := range f.Blocks {
		for _, in := range b.Instrs {
			c, ok := in.(*ssa.Call)
			if !ok {
				continue
			}
			g := c.Call.StaticCallee()
			if g == nil || !strings.HasSuffix(g.String(), "cmpopts.IgnoreFields") {
				continue
			}
			// varargs names: look for the constant "Ref" stored into the varargs array
			for _, arg := range c.Call.Args {
				sl, ok := arg.(*ssa.Slice)
				if !ok {
					continue
				}
				al, ok := sl.X.(*ssa.Alloc)
				if !ok {
					continue
				}
				for _, r := range refs(al) {
					ia, ok := r.(*ssa.IndexAddr)
					if !ok {
						continue
					}
					for _, rr := range refs(ia) {
						if st, ok := rr.(*ssa.Store); ok {
							if s, ok := ConstString(st.Val); ok && s == "Ref" {
								return true, "cmputil.Opts passes cmpopts.IgnoreFields(v, \"Ref\")"
							}
						}
					}
				}
			}
		}
	}
	// a custom treatment of the field (cmp.Comparer / cmp.Transformer / cmpopts.AcyclicTransformer / cmp.FilterPath) is taken
	// as "handled on purpose": what it does with the two spellings is not decided here
	for _, c := range Calls(f) {
		if g := c.Common().StaticCallee(); g != nil {
			n := g.String()
			for _, k := range []string{"cmp.Comparer", "cmp.Transformer", "cmpopts.AcyclicTransformer", "cmp.FilterPath", "cmp.FilterValues"} {
				if strings.HasSuffix(n, k) || strings.Contains(n, k+"[") {
					return true, "cmputil.Opts installs " + k + ": the reference field is compared by a custom rule (its spelling-insensitivity is not decided by this check)"
				}
			}
		}
	}
	return false, "cmputil.Opts neither ignores the Ref field nor compares it by a custom rule: two spellings of the same pointer ('#/$defs/X', '#/definitions/X') make structurally identical types unequal, so type reuse depends on the spelling"
}
