package engb

import (
	"fmt"
	"strings"

	"golang.org/x/tools/go/ssa"
)

// AbortReport is what B-ABORT / B-WRITE found.
type AbortReport struct {
	Run        *ssa.Function         // the function that drives generation (calls DoFile)
	GenSteps   []ssa.CallInstruction // may-fail steps: flag parsing, generator construction, DoFile
	Effects    []ssa.CallInstruction // output effects inside Run
	Stray      []ssa.CallInstruction // output effects anywhere else in the module
	StdoutUses []ssa.Instruction     // reads of os.Stdout outside Run
	Problems   []AbortProblem
	Exits      []ssa.CallInstruction // every os.Exit call of the module
	Pairs      int
	// HelperEffects: output effects inside output helpers (functions called only from Run)
	HelperEffects int
}

type AbortProblem struct {
	Rule, Func, Construct, Pos, Msg string
}

func isDoFile(c ssa.CallInstruction) bool {
	f := c.Common().StaticCallee()
	return f != nil && strings.HasSuffix(f.String(), "Generator).DoFile")
}

// Abort decides B-ABORT and B-WRITE.
func (a *Analyzer) Abort() *AbortReport {
	r := &AbortReport{}
	// the run function: the unique module function that calls DoFile
	var runs []*ssa.Function
	for _, f := range a.P.Funcs {
		for _, c := range Calls(f) {
			if isDoFile(c) {
				runs = append(runs, f)
				break
			}
		}
	}
	if len(runs) != 1 {
		r.Problems = append(r.Problems, AbortProblem{"B-ABORT", "(module)", "run function", "", fmt.Sprintf("expected exactly one function that calls Generator.DoFile, found %d", len(runs))})
		return r
	}
	r.Run = runs[0]
	runName := a.P.FuncName(r.Run)
	// output helpers: a module function that performs output effects and is called ONLY from the run function is part of the run
	// function's output phase (the writing extracted into a helper): a call of it is an output effect at the call site, its own
	// effects are not stray. It must not itself contain a may-fail module step.
	helper := map[*ssa.Function]bool{}
	for _, f := range a.P.Funcs {
		if f == r.Run || f.Pkg == nil || r.Run.Pkg == nil || f.Pkg != r.Run.Pkg {
			continue // only a function of the run function's own package can be its output helper
		}
		has := len(UsesStdout(f)) > 0
		clean := true
		for _, c := range Calls(f) {
			if OutputEffect(c) != "" {
				has = true
				continue
			}
			if g := c.Common().StaticCallee(); g != nil && a.P.InModule(g) && errResultIndex(c.Common().Signature()) >= 0 {
				clean = false
			}
		}
		if !has || !clean {
			continue
		}
		sites, inRun := 0, 0
		for _, g := range a.P.Funcs {
			for _, c := range Calls(g) {
				if c.Common().StaticCallee() == f {
					sites++
					if g == r.Run {
						inRun++
					}
				}
			}
		}
		if sites > 0 && sites == inRun {
			helper[f] = true
			for _, c := range Calls(f) {
				if OutputEffect(c) != "" {
					r.HelperEffects++
				}
			}
		}
	}
	effName := func(c ssa.CallInstruction) string {
		if e := OutputEffect(c); e != "" {
			return e
		}
		return "call of the output helper " + shortCallee(c)
	}
	for _, c := range Calls(r.Run) {
		if e := OutputEffect(c); e != "" || helper[c.Common().StaticCallee()] {
			r.Effects = append(r.Effects, c)
			continue
		}
		f := c.Common().StaticCallee()
		if f != nil && a.P.InModule(f) && errResultIndex(c.Common().Signature()) >= 0 {
			r.GenSteps = append(r.GenSteps, c)
		}
	}
	// R1: no may-fail generation step is reachable after an output effect
	for _, e := range r.Effects {
		for _, g := range r.GenSteps {
			r.Pairs++
			if InstrReaches(e.(ssa.Instruction), g.(ssa.Instruction)) {
				r.Problems = append(r.Problems, AbortProblem{"B-ABORT", runName,
					effName(e) + " before " + shortCallee(g), a.P.InstrPos(e.(ssa.Instruction)),
					fmt.Sprintf("output effect %s at %s can be followed by the may-fail step %s at %s: a failure there leaves partial output behind",
						effName(e), a.P.InstrPos(e.(ssa.Instruction)), shortCallee(g), a.P.InstrPos(g.(ssa.Instruction)))})
			}
		}
	}
	// B-WRITE: no output effect anywhere else
	for _, f := range a.P.Funcs {
		if f == r.Run || helper[f] {
			continue
		}
		for _, c := range Calls(f) {
			if e := OutputEffect(c); e != "" {
				r.Stray = append(r.Stray, c)
				r.Problems = append(r.Problems, AbortProblem{"B-WRITE", a.P.FuncName(f), e, a.P.InstrPos(c.(ssa.Instruction)),
					"output effect " + e + " outside the function that runs after all generation steps have succeeded"})
			}
		}
		for _, u := range UsesStdout(f) {
			r.StdoutUses = append(r.StdoutUses, u)
			r.Problems = append(r.Problems, AbortProblem{"B-WRITE", a.P.FuncName(f), "os.Stdout", a.P.InstrPos(u),
				"os.Stdout is used outside the function that runs after all generation steps have succeeded"})
		}
	}
	// exits: every os.Exit in the module; a failing exit function must write a diagnostic first
	for _, f := range a.P.Funcs {
		for _, c := range Calls(f) {
			g := c.Common().StaticCallee()
			if g == nil || g.String() != "os.Exit" {
				continue
			}
			r.Exits = append(r.Exits, c)
			kind := a.ExitKind(c.(ssa.Instruction))
			fname := a.P.FuncName(f)
			switch kind {
			case "fail":
				// a diagnostic must precede it in this function
				ok := false
				for _, c2 := range Calls(f) {
					if c2 == c {
						continue
					}
					g2 := c2.Common().StaticCallee()
					if g2 == nil {
						continue
					}
					wr := false
					if a.P.InModule(g2) && a.WritesStderr(g2, 3) {
						wr = true
					}
					switch g2.String() {
					case "fmt.Fprint", "fmt.Fprintf", "fmt.Fprintln":
						if len(c2.Common().Args) > 0 && isStderr(c2.Common().Args[0]) {
							wr = true
						}
					}
					if wr && InstrReaches(c2.(ssa.Instruction), c.(ssa.Instruction)) && c2.(ssa.Instruction).Block().Dominates(c.(ssa.Instruction).Block()) {
						ok = true
					}
				}
				if !ok {
					r.Problems = append(r.Problems, AbortProblem{"B-ABORT", fname, "os.Exit(non-zero) without diagnostic", a.P.InstrPos(c.(ssa.Instruction)),
						"a failing exit is not dominated by a write of a diagnostic to os.Stderr"})
				}
			case "success":
				if f != r.Run {
					r.Problems = append(r.Problems, AbortProblem{"B-ABORT", fname, "os.Exit(0)", a.P.InstrPos(c.(ssa.Instruction)),
						"a success exit outside the run function can end the process before generation has completed"})
				} else {
					// the success exit must lie after the loop that processes the input files
					for _, g := range r.GenSteps {
						if !isDoFile(g) {
							continue
						}
						gb := g.(ssa.Instruction).Block()
						hdr := gb
						for h := gb; h != nil; h = h.Idom() {
							if loopHeaderOf(gb, h) {
								hdr = h // keep the outermost
							}
						}
						eb := c.(ssa.Instruction).Block()
						if !hdr.Dominates(eb) || InstrReaches(c.(ssa.Instruction), g.(ssa.Instruction)) {
							r.Problems = append(r.Problems, AbortProblem{"B-ABORT", fname, "os.Exit(0) not after the DoFile loop", a.P.InstrPos(c.(ssa.Instruction)),
								"the success exit is reachable without passing through (or lies inside) the loop that processes the input files"})
						}
					}
				}
			default:
				r.Problems = append(r.Problems, AbortProblem{"B-ABORT", fname, "os.Exit(non-constant)", a.P.InstrPos(c.(ssa.Instruction)),
					"exit status is not a constant; cannot classify the exit"})
			}
		}
	}
	return r
}

// loopHeaderOf: hdr is a loop header whose body contains b (b reaches hdr and hdr dominates b).
func loopHeaderOf(b, hdr *ssa.BasicBlock) bool {
	return hdr.Dominates(b) && Reachable(b.Succs)[hdr]
}
