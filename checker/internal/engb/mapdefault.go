package engb

import (
	"fmt"

	"golang.org/x/tools/go/ssa"
)

// MappingDefaults (B-MAPDEFAULT): main assembles one SchemaMapping per schema id from three flag maps. A mapping whose
// PackageName or OutputName stays empty is not an error anywhere downstream: an empty output name makes Sources() skip
// the file, so the schema's code silently goes nowhere (exit 0). Rule (must-pass-through on the loop body's CFG): on
// every path from the allocation of the mapping value to the append that publishes it, each of the given fields is
// stored — from its flag map or from the default. Sibling cross-check in the sense of Engler et al.: the fields are
// handled by parallel comma-ok lookups and must agree on having an else branch.
func (a *Analyzer) MappingDefaults(fn string, structName string, fields []string) []RuleResult {
	var out []RuleResult
	f := a.P.Func(fn)
	if f == nil {
		return []RuleResult{{"B-MAPDEFAULT", fn, "anchor", "", false, "function not found"}}
	}
	n := 0
	for _, b := range f.Blocks {
		for _, in := range b.Instrs {
			al, ok := in.(*ssa.Alloc)
			if !ok || !namedStruct(al.Type(), structName) {
				continue
			}
			// the publishing use: a load of the whole value (copied into the appended slice element)
			var publish []ssa.Instruction
			stores := map[string][]*ssa.Store{}
			for _, r := range refs(al) {
				switch x := r.(type) {
				case *ssa.UnOp:
					publish = append(publish, x)
				case *ssa.FieldAddr:
					name := FieldAddrName(x)
					for _, rr := range refs(x) {
						if st, ok := rr.(*ssa.Store); ok && st.Addr == x {
							stores[name] = append(stores[name], st)
						}
					}
				}
			}
			if len(publish) == 0 {
				continue
			}
			n++
			for _, fld := range fields {
				ok2, why := mustPassStore(al, stores[fld], publish)
				out = append(out, RuleResult{"B-MAPDEFAULT", a.P.FuncName(f), "mapping field " + fld + " is set on every path before the mapping is published", a.P.InstrPos(al), ok2, why})
			}
		}
	}
	out = append(out, RuleResult{"B-MAPDEFAULT", "(module)", "mapping values assembled in " + fn, "", n >= 1, fmt.Sprintf("%d value(s)", n)})
	return out
}

func namedStruct(t interface{ String() string }, name string) bool {
	s := t.String()
	return len(s) >= len(name) && s[len(s)-len(name):] == name
}

// mustPassStore: every CFG path from `from` to any instruction in `to` executes one of the stores.
func mustPassStore(from ssa.Instruction, stores []*ssa.Store, to []ssa.Instruction) (bool, string) {
	if len(stores) == 0 {
		return false, "the field is never stored: it keeps its zero value"
	}
	isStore := map[ssa.Instruction]bool{}
	for _, s := range stores {
		isStore[s] = true
	}
	isTo := map[ssa.Instruction]bool{}
	for _, t := range to {
		isTo[t] = true
	}
	seen := map[*ssa.BasicBlock]bool{}
	var bad ssa.Instruction
	var walk func(b *ssa.BasicBlock, from int) bool // true: a target was reached without a store
	walk = func(b *ssa.BasicBlock, start int) bool {
		if start == 0 {
			if seen[b] {
				return false
			}
			seen[b] = true
		}
		for i := start; i < len(b.Instrs); i++ {
			in := b.Instrs[i]
			if isStore[in] {
				return false
			}
			if isTo[in] {
				bad = in
				return true
			}
			if in == from && !(b == from.Block() && start > 0) {
				return false // next iteration: a fresh value
			}
		}
		for _, s := range b.Succs {
			if walk(s, 0) {
				return true
			}
		}
		return false
	}
	idx := 0
	for i, in := range from.Block().Instrs {
		if in == from {
			idx = i + 1
		}
	}
	if walk(from.Block(), idx) {
		_ = bad
		return false, "a path reaches the publication of the mapping without a store to the field (a comma-ok lookup without else): the field stays empty for ids that lack this flag"
	}
	return true, fmt.Sprintf("%d store(s), one on every path", len(stores))
}
