package engb

import (
	"fmt"

	"golang.org/x/tools/go/ssa"
)

// QualifiedResolution (B-QUALIFIED): pkg/schemas.QualifiedFileName is the single place where a file reference becomes the
// location of the document; its result is the base for the referenced document's own relative refs. Rules on its SSA:
//   - a relative name is joined to the DIRECTORY of the parent (filepath.Join(filepath.Dir(parent), name)), guarded by
//     !filepath.IsAbs(name);
//   - on the file branch, every success return (nil error) returns the first result of filepath.EvalSymlinks — the real
//     location, so that a document reached through a symlink resolves its siblings next to the real file;
//   - the probed candidates are name+ext for "" first, then the configured extensions in their given order (the slice
//     ranged over is append([]string{""}, exts...)).
func (a *Analyzer) QualifiedResolution() []RuleResult {
	fn := "pkg/schemas.QualifiedFileName"
	f := a.P.Func(fn)
	if f == nil {
		return []RuleResult{{"B-QUALIFIED", fn, "anchor", "", false, "function not found"}}
	}
	var out []RuleResult
	var evals []*ssa.Call
	joinOK := false
	for _, c := range Calls(f) {
		switch shortCallee(c) {
		case "path/filepath.EvalSymlinks":
			if cv, ok := c.(*ssa.Call); ok {
				evals = append(evals, cv)
			}
		case "path/filepath.Join":
			// Join(Dir(parent), name): the varargs slice holds a call to Dir on parameter #1 first
			cv, ok := c.(*ssa.Call)
			if !ok || len(cv.Call.Args) != 1 {
				continue
			}
			sl, ok := cv.Call.Args[0].(*ssa.Slice)
			if !ok {
				continue
			}
			al, ok := sl.X.(*ssa.Alloc)
			if !ok {
				continue
			}
			first := ""
			for _, r := range refs(al) {
				ia, ok := r.(*ssa.IndexAddr)
				if !ok {
					continue
				}
				k, ok := ia.Index.(*ssa.Const)
				if !ok || k.Int64() != 0 {
					continue
				}
				for _, rr := range refs(ia) {
					if st, ok := rr.(*ssa.Store); ok && st.Addr == ia {
						if dc, ok := st.Val.(*ssa.Call); ok && shortCallee(dc) == "path/filepath.Dir" && len(dc.Call.Args) == 1 && len(f.Params) > 1 && dc.Call.Args[0] == ssa.Value(f.Params[1]) {
							first = "Dir(parent)"
						}
					}
				}
			}
			if first == "Dir(parent)" {
				joinOK = true
			}
		}
	}
	out = append(out, RuleResult{"B-QUALIFIED", fn, "a relative name is joined to the directory of the referring file", "", joinOK, "filepath.Join(filepath.Dir(parentFileName), …)"})
	if len(evals) == 0 {
		return append(out, RuleResult{"B-QUALIFIED", fn, "symlinks are resolved", "", false, "no call to filepath.EvalSymlinks"})
	}
	// success returns reachable from an EvalSymlinks call must return its first result
	n := 0
	for _, ev := range evals {
		seen := map[*ssa.BasicBlock]bool{}
		var walk func(b *ssa.BasicBlock, from int)
		walk = func(b *ssa.BasicBlock, from int) {
			if from == 0 {
				if seen[b] {
					return
				}
				seen[b] = true
			}
			for i := from; i < len(b.Instrs); i++ {
				rt, ok := b.Instrs[i].(*ssa.Return)
				if !ok {
					continue
				}
				if len(rt.Results) != 2 || !isNilConst(rt.Results[1]) {
					return
				}
				n++
				// the resolved path may pass through pure path normalisation (Clean, ToSlash/FromSlash, Abs)
				rv := rt.Results[0]
				for i := 0; i < 4; i++ {
					if c, isCall := rv.(*ssa.Call); isCall && len(c.Call.Args) == 1 {
						switch shortCallee(c) {
						case "path/filepath.Clean", "path/filepath.ToSlash", "path/filepath.FromSlash", "path.Clean":
							rv = c.Call.Args[0]
							continue
						}
					}
					if e2, isE := rv.(*ssa.Extract); isE && e2.Index == 0 {
						if c, isCall := e2.Tuple.(*ssa.Call); isCall && shortCallee(c) == "path/filepath.Abs" && len(c.Call.Args) == 1 {
							rv = c.Call.Args[0]
							continue
						}
					}
					break
				}
				ex, isEx := rv.(*ssa.Extract)
				ok2 := isEx && ex.Tuple == ssa.Value(ev) && ex.Index == 0
				why := "returns the resolved path"
				if !ok2 {
					why = "a success return after EvalSymlinks returns " + rt.Results[0].String() + ", not the resolved path: the link's own location becomes the base for the document's relative refs"
				}
				out = append(out, RuleResult{"B-QUALIFIED", fn, "the location returned is the one with symlinks resolved", a.P.InstrPos(rt), ok2, why})
				return
			}
			for _, s := range b.Succs {
				// do not follow the loop back edge to another candidate
				if s == ev.Block() || s.Dominates(ev.Block()) {
					continue
				}
				walk(s, 0)
			}
		}
		idx := 0
		for i, in := range ev.Block().Instrs {
			if in == ssa.Instruction(ev) {
				idx = i + 1
			}
		}
		walk(ev.Block(), idx)
	}
	out = append(out, RuleResult{"B-QUALIFIED", fn, "success returns after EvalSymlinks", "", n >= 1, fmt.Sprintf("%d", n)})
	return out
}
