package engb

import (
	"fmt"
	"go/types"

	"golang.org/x/tools/go/ssa"
)

// QualifiedResolution (B-QUALIFIED): pkg/schemas.QualifiedFileName is the single place where a file reference becomes the
// location of the document; its result is the base for the referenced document's own relative refs. Rules on its SSA:
//   - a relative name is joined to the DIRECTORY of the parent (filepath.Join(filepath.Dir(parent), name)), guarded by
//     !filepath.IsAbs(name);
//   - on the file branch, every success return (nil error) returns the first result of filepath.EvalSymlinks — the real
//     location, so that a document reached through a symlink resolves its siblings next to the real file;
//   - the probed candidates are name+ext for "" first, then the configured extensions in their given order (the slice
//     ranged over is append([]string{""}, exts...)).
func (a *Analyzer) QualifiedResolution() []RuleResult {
	fn := "pkg/schemas.QualifiedFileName"
	f := a.P.Func(fn)
	if f == nil {
		return []RuleResult{{"B-QUALIFIED", fn, "anchor", "", false, "function not found"}}
	}
	var out []RuleResult
	// the name is a path on disk, used as written: percent-decoding it (a reference is a URI reference, a command-line path is not)
	// makes the tool open another file than the one named as soon as a directory contains a valid %XX escape
	decoded := ""
	for _, c := range Calls(f) {
		switch shortCallee(c) {
		case "net/url.PathUnescape", "net/url.QueryUnescape":
			decoded = shortCallee(c) + " at " + a.P.InstrPos(c.(ssa.Instruction))
		}
	}
	out = append(out, RuleResult{"B-QUALIFIED", fn, "the name is resolved as written (no percent-decoding)", a.P.Pos(f.Pos()), decoded == "",
		map[bool]string{true: "no URL decoding of the file name", false: "the file name passes through " + decoded + ": moving the schema directory to a path that contains %XX changes which file is read"}[decoded == ""]})
	var evals []*ssa.Call
	joinOK := false
	for _, c := range Calls(f) {
		// a module helper that only wraps EvalSymlinks (every success return hands back its first result) counts as the call itself
		if cv, ok := c.(*ssa.Call); ok {
			if g := cv.Call.StaticCallee(); g != nil && g != f && a.P.InModule(g) && wrapsEvalSymlinks(g) {
				evals = append(evals, cv)
				continue
			}
		}
		switch shortCallee(c) {
		case "path/filepath.EvalSymlinks":
			if cv, ok := c.(*ssa.Call); ok {
				evals = append(evals, cv)
			}
		case "path/filepath.Join":
			// Join(Dir(parent), name): the varargs slice holds a call to Dir on parameter #1 first
			cv, ok := c.(*ssa.Call)
			if !ok || len(cv.Call.Args) != 1 {
				continue
			}
			sl, ok := cv.Call.Args[0].(*ssa.Slice)
			if !ok {
				continue
			}
			al, ok := sl.X.(*ssa.Alloc)
			if !ok {
				continue
			}
			first := ""
			for _, r := range refs(al) {
				ia, ok := r.(*ssa.IndexAddr)
				if !ok {
					continue
				}
				k, ok := ia.Index.(*ssa.Const)
				if !ok || k.Int64() != 0 {
					continue
				}
				for _, rr := range refs(ia) {
					if st, ok := rr.(*ssa.Store); ok && st.Addr == ia {
						if dc, ok := st.Val.(*ssa.Call); ok && shortCallee(dc) == "path/filepath.Dir" && len(dc.Call.Args) == 1 && len(f.Params) > 1 && dc.Call.Args[0] == ssa.Value(f.Params[1]) {
							first = "Dir(parent)"
						}
					}
				}
			}
			if first == "Dir(parent)" {
				joinOK = true
			}
		}
	}
	out = append(out, RuleResult{"B-QUALIFIED", fn, "a relative name is joined to the directory of the referring file", "", joinOK, "filepath.Join(filepath.Dir(parentFileName), …)"})
	if len(evals) == 0 {
		return append(out, RuleResult{"B-QUALIFIED", fn, "symlinks are resolved", "", false, "no call to filepath.EvalSymlinks"})
	}
	// every success return of the FILE branch (the blocks dominated by the filepath.IsAbs test on the name) must return the first
	// result of an EvalSymlinks call — also a return that is not preceded by one on its path (a shortcut around the resolution)
	var anchor *ssa.BasicBlock
	for _, c := range Calls(f) {
		if shortCallee(c) == "path/filepath.IsAbs" {
			anchor = c.Block()
			break
		}
	}
	if anchor == nil {
		return append(out, RuleResult{"B-QUALIFIED", fn, "file branch", "", false, "no filepath.IsAbs test found to delimit the file branch"})
	}
	isEval := map[ssa.Value]bool{}
	for _, ev := range evals {
		isEval[ev] = true
	}
	n := 0
	for _, b := range f.Blocks {
		if !(anchor == b || anchor.Dominates(b)) {
			continue
		}
		for _, in := range b.Instrs {
			rt, ok := in.(*ssa.Return)
			if !ok || len(rt.Results) != 2 {
				continue
			}
			// `return EvalSymlinks(x)` / `return helper(x)`: both results forwarded from one resolving call
			if e0, ok0 := rt.Results[0].(*ssa.Extract); ok0 && e0.Index == 0 {
				if e1, ok1 := rt.Results[1].(*ssa.Extract); ok1 && e1.Index == 1 && e1.Tuple == e0.Tuple && isEval[e0.Tuple] {
					n++
					out = append(out, RuleResult{"B-QUALIFIED", fn, fmt.Sprintf("success return #%d of the file branch returns the location with symlinks resolved", n), a.P.InstrPos(rt), true, "forwards both results of the resolving call"})
					continue
				}
			}
			if !isNilConst(rt.Results[1]) {
				continue
			}
			n++
			// the resolved path may pass through pure path normalisation (Clean, ToSlash/FromSlash, Abs)
			rv := rt.Results[0]
			for i := 0; i < 4; i++ {
				if c, isCall := rv.(*ssa.Call); isCall && len(c.Call.Args) == 1 {
					switch shortCallee(c) {
					case "path/filepath.Clean", "path/filepath.ToSlash", "path/filepath.FromSlash", "path.Clean":
						rv = c.Call.Args[0]
						continue
					}
				}
				if e2, isE := rv.(*ssa.Extract); isE && e2.Index == 0 {
					if c, isCall := e2.Tuple.(*ssa.Call); isCall && shortCallee(c) == "path/filepath.Abs" && len(c.Call.Args) == 1 {
						rv = c.Call.Args[0]
						continue
					}
				}
				break
			}
			ex, isEx := rv.(*ssa.Extract)
			ok2 := isEx && isEval[ex.Tuple] && ex.Index == 0
			why := "returns the resolved path"
			if !ok2 {
				why = "a success return of the file branch returns " + rt.Results[0].String() + ", not the first result of filepath.EvalSymlinks: a location that still contains a link becomes the base for the document's relative refs"
			}
			out = append(out, RuleResult{"B-QUALIFIED", fn, fmt.Sprintf("success return #%d of the file branch returns the location with symlinks resolved", n), a.P.InstrPos(rt), ok2, why})
		}
	}
	// the candidates: the slice the probe loop indexes is, unconditionally, append([]string{""}, resolveExtensions...) — the name as
	// written first, then EVERY configured extension, whatever the name looks like (a dotted stem such as address.v2 has no extension)
	{
		cands := map[ssa.Value]bool{}
		for _, b := range f.Blocks {
			for _, in := range b.Instrs {
				if ia, ok := in.(*ssa.IndexAddr); ok {
					if st, isSlice := ia.X.Type().Underlying().(*types.Slice); isSlice {
						if bt, isB := st.Elem().Underlying().(*types.Basic); isB && bt.Kind() == types.String {
							if _, isParam := ia.X.(*ssa.Parameter); !isParam {
								cands[ia.X] = true
							}
						}
					}
				}
			}
		}
		okc, why := len(cands) == 1, fmt.Sprintf("%d indexed []string values", len(cands))
		for v := range cands {
			call, isCall := v.(*ssa.Call)
			bi, isB := (ssa.Value)(nil), false
			if isCall {
				_, isB = call.Call.Value.(*ssa.Builtin)
				bi = call.Call.Value
			}
			switch {
			case !isCall || !isB || bi.Name() != "append" || len(call.Call.Args) != 2:
				okc, why = false, "the probed list is "+v.String()+" ("+fmt.Sprintf("%T", v)+"), not one unconditional append([]string{\"\"}, resolveExtensions...): on some path configured extensions are not tried"
			case len(f.Params) < 3 || call.Call.Args[1] != ssa.Value(f.Params[2]):
				okc, why = false, "the appended list is not the resolveExtensions parameter"
			default:
				why = "append([]string{\"\"}, resolveExtensions...) indexed by the probe loop"
			}
		}
		out = append(out, RuleResult{"B-QUALIFIED", fn, "every configured extension is probed after the name as written", "", okc, why})
	}
	out = append(out, RuleResult{"B-QUALIFIED", fn, "success returns after EvalSymlinks", "", n >= 1, fmt.Sprintf("%d", n)})
	return out
}

// wrapsEvalSymlinks: g returns (string, error) and every return with a nil error returns the first result of a
// filepath.EvalSymlinks call made in g (possibly cleaned).
func wrapsEvalSymlinks(g *ssa.Function) bool {
	if g.Blocks == nil || g.Signature.Results().Len() != 2 {
		return false
	}
	n := 0
	for _, b := range g.Blocks {
		for _, in := range b.Instrs {
			rt, ok := in.(*ssa.Return)
			if !ok || len(rt.Results) != 2 || !isNilConst(rt.Results[1]) {
				continue
			}
			rv := rt.Results[0]
			if c, isCall := rv.(*ssa.Call); isCall && len(c.Call.Args) == 1 {
				switch shortCallee(c) {
				case "path/filepath.Clean", "path/filepath.ToSlash", "path/filepath.FromSlash":
					rv = c.Call.Args[0]
				}
			}
			ex, isEx := rv.(*ssa.Extract)
			if !isEx || ex.Index != 0 {
				return false
			}
			c, isCall := ex.Tuple.(*ssa.Call)
			if !isCall || shortCallee(c) != "path/filepath.EvalSymlinks" {
				return false
			}
			n++
		}
	}
	return n > 0
}
