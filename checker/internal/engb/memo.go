package engb

import (
	"fmt"
	"go/token"
	"go/types"
	"strings"

	"golang.org/x/tools/go/ssa"
)

type RuleResult struct {
	Rule, Func, Construct, Pos string
	OK                         bool
	Detail                     string
}

// Memo checks the loader cache (B-MEMO): hit returns the cached schema without
// calling the inner loader; miss calls the inner loader with the same
// arguments, stores the result under the same key and returns it; and the key
// is a function of the *resolved* location.
func (a *Analyzer) Memo(fn string) []RuleResult {
	var out []RuleResult
	f := a.P.Func(fn)
	if f == nil {
		return []RuleResult{{Rule: "B-MEMO", Func: fn, Construct: "cache function", Detail: "not found"}}
	}
	pos := a.P.Pos(f.Pos())
	var lookup *ssa.Lookup
	var update *ssa.MapUpdate
	var inner *ssa.Call
	for _, b := range f.Blocks {
		for _, in := range b.Instrs {
			switch x := in.(type) {
			case *ssa.Lookup:
				if x.CommaOk && fieldOfLoad(x.X) != "" {
					lookup = x
				}
			case *ssa.MapUpdate:
				if fieldOfLoad(x.Map) != "" {
					update = x
				}
			case *ssa.Call:
				if x.Call.IsInvoke() && x.Call.Method.Name() == "Load" {
					inner = x
				}
			}
		}
	}
	add := func(construct string, ok bool, detail string) {
		out = append(out, RuleResult{"B-MEMO", fn, construct, pos, ok, detail})
	}
	if lookup == nil || update == nil || inner == nil {
		add("cache shape", false, fmt.Sprintf("expected a comma-ok lookup, an inner Load and a map update; found lookup=%v update=%v inner=%v: the cache no longer memoises", lookup != nil, update != nil, inner != nil))
		return out
	}
	// hit branch: If on the ok flag; on true: return the looked-up value, inner not reachable
	var okFlag, hitVal ssa.Value
	for _, r := range refs(lookup) {
		if ex, ok := r.(*ssa.Extract); ok {
			if ex.Index == 1 {
				okFlag = ex
			} else {
				hitVal = ex
			}
		}
	}
	hitOK := false
	why := "no branch on the lookup's ok flag"
	if okFlag != nil {
		for _, r := range refs(okFlag) {
			iff, ok := r.(*ssa.If)
			if !ok {
				continue
			}
			hitBlk := iff.Block().Succs[0]
			// all paths from hitBlk must return hitVal without calling inner
			reach := Reachable([]*ssa.BasicBlock{hitBlk})
			if reach[inner.Block()] && !hitBlk.Dominates(inner.Block()) == false {
				why = "the inner loader is called on the hit branch"
				continue
			}
			if hitBlk.Dominates(inner.Block()) {
				why = "the inner loader is called on the hit branch"
				continue
			}
			ret, ok := hitBlk.Instrs[len(hitBlk.Instrs)-1].(*ssa.Return)
			if !ok || len(ret.Results) != 2 || ret.Results[0] != hitVal || !isNilConst(ret.Results[1]) {
				why = "the hit branch does not return the cached schema with a nil error"
				continue
			}
			hitOK = true
		}
	}
	if hitOK {
		why = "the branch taken on a hit returns the looked-up schema and cannot reach the inner loader"
	}
	add("hit returns cached value without loading", hitOK, why)
	// miss: inner called with the function's own parameters
	argsOK := len(inner.Call.Args) == 2 && len(f.Params) == 3 && inner.Call.Args[0] == f.Params[1] && inner.Call.Args[1] == f.Params[2]
	add("miss forwards (uri, parentURI) unchanged", argsOK, "inner Load arguments: "+exprKey(inner.Call.Args[0])+", "+exprKey(inner.Call.Args[1]))
	// store: same key expression, value is the inner result, inner dominates the store
	var innerVal ssa.Value
	for _, r := range refs(inner) {
		if ex, ok := r.(*ssa.Extract); ok && ex.Index == 0 {
			innerVal = ex
		}
	}
	storeOK := exprKey(update.Key) == exprKey(lookup.Index) && update.Value == innerVal && inner.Block().Dominates(update.Block())
	add("miss stores the loaded schema under the looked-up key", storeOK, "lookup key "+exprKey(lookup.Index)+", store key "+exprKey(update.Key))
	// returned value on the miss path is the loaded schema
	retOK := false
	for _, b := range f.Blocks {
		if ret, ok := b.Instrs[len(b.Instrs)-1].(*ssa.Return); ok && update.Block().Dominates(b) {
			if len(ret.Results) == 2 && ret.Results[0] == innerVal && isNilConst(ret.Results[1]) {
				retOK = true
			}
		}
	}
	add("miss returns the loaded schema", retOK, "")
	// key completeness: the key must be derived from the resolved location
	keyExpr := exprKey(lookup.Index)
	resolved := dependsOnCall(lookup.Index, "QualifiedFileName", 6)
	out = append(out, RuleResult{"B-MEMO:key", fn, "cache key = " + keyExpr, pos, resolved,
		"the inner loader resolves a relative uri against parentURI, so one *Schema per file (needed for definition identity and recursion across files) requires a key that names the resolved location; key is " + keyExpr})
	return out
}

func dependsOnCall(v ssa.Value, nameSuffix string, depth int) bool {
	if depth == 0 {
		return false
	}
	if c, ok := v.(*ssa.Call); ok {
		if g := c.Call.StaticCallee(); g != nil && strings.HasSuffix(g.String(), nameSuffix) {
			return true
		}
	}
	in, ok := v.(ssa.Instruction)
	if !ok {
		return false
	}
	for _, op := range in.Operands(nil) {
		if *op != nil && dependsOnCall(*op, nameSuffix, depth-1) {
			return true
		}
	}
	return false
}

// Cycle checks B-CYCLE.
func (a *Analyzer) Cycle() []RuleResult {
	var out []RuleResult
	// (a) generateDeclaredType registers the declaration in both maps before it can recurse
	gd := "(*pkg/generator.schemaGenerator).generateDeclaredType"
	if f := a.P.Func(gd); f == nil {
		out = append(out, RuleResult{Rule: "B-CYCLE", Func: gd, Construct: "registration before recursion", Detail: "function not found"})
	} else {
		var rec ssa.Instruction
		for _, c := range Calls(f) {
			if strings.HasSuffix(shortCallee(c), "schemaGenerator).generateType") {
				rec = c.(ssa.Instruction)
			}
		}
		if rec == nil {
			out = append(out, RuleResult{"B-CYCLE", gd, "registration before recursion", a.P.Pos(f.Pos()), false, "call to generateType not found"})
		} else {
			for _, fld := range []string{"declsBySchema", "declsByName"} {
				ok := false
				for _, b := range f.Blocks {
					for _, in := range b.Instrs {
						if mu, isMu := in.(*ssa.MapUpdate); isMu && fieldOfLoad(mu.Map) == fld {
							if mu.Block().Dominates(rec.Block()) && InstrReaches(mu, rec) {
								ok = true
							}
						}
					}
				}
				out = append(out, RuleResult{"B-CYCLE", gd, fld + " written before generateType", a.P.InstrPos(rec), ok,
					"a recursive reference met while the type is being generated must find the in-progress declaration in " + fld})
			}
		}
	}
	// (b) every detectCycle call: cleanup is deferred before anything that can recurse
	n := 0
	for _, f := range a.P.Funcs {
		occ := 0
		for _, c := range Calls(f) {
			if !strings.HasSuffix(shortCallee(c), "schemaGenerator).detectCycle") {
				continue
			}
			cv, ok := c.(*ssa.Call)
			if !ok {
				continue
			}
			n++
			fn := a.P.FuncName(f)
			construct := fmt.Sprintf("detectCycle#%d cleanup deferred", occ)
			occ++
			var cleanup ssa.Value
			for _, r := range refs(cv) {
				if ex, ok := r.(*ssa.Extract); ok && ex.Index == 1 {
					cleanup = ex
				}
			}
			var def *ssa.Defer
			if cleanup != nil {
				for _, r := range refs(cleanup) {
					if d, ok := r.(*ssa.Defer); ok && d.Call.Value == cleanup {
						def = d
					}
				}
			}
			if def == nil {
				out = append(out, RuleResult{"B-CYCLE", fn, construct, a.P.InstrPos(cv), false,
					"the cleanup returned by detectCycle is not deferred: the in-scope marker leaks (later references look like cycles) or is removed too early (real cycles recurse forever)"})
				continue
			}
			// no call that can recurse into generation may be reachable from the
			// detectCycle call without passing through the defer
			bad := ""
			isRec := func(k ssa.CallInstruction) bool {
				name := shortCallee(k)
				return strings.Contains(name, "schemaGenerator).generate") || strings.Contains(name, "schemaGenerator).resolveRef")
			}
			cb, db := cv.Block(), def.Block()
			ci, di := instrIndex(cv), instrIndex(def)
			scan := func(b *ssa.BasicBlock, from, to int) {
				for i := from; i < to && i < len(b.Instrs); i++ {
					if k, ok := b.Instrs[i].(ssa.CallInstruction); ok && isRec(k) {
						bad = shortCallee(k) + " at " + a.P.InstrPos(b.Instrs[i])
					}
				}
			}
			if cb == db {
				scan(cb, ci+1, di)
			} else {
				scan(cb, ci+1, len(cb.Instrs))
				seen := map[*ssa.BasicBlock]bool{db: true}
				var walk func(b *ssa.BasicBlock)
				walk = func(b *ssa.BasicBlock) {
					if seen[b] {
						return
					}
					seen[b] = true
					if b == cb {
						scan(b, 0, ci) // around a loop, back into the call's own block
					} else {
						scan(b, 0, len(b.Instrs))
					}
					for _, s := range b.Succs {
						walk(s)
					}
				}
				for _, s := range cb.Succs {
					walk(s)
				}
				scan(db, 0, di)
			}
			out = append(out, RuleResult{"B-CYCLE", fn, construct, a.P.InstrPos(cv), bad == "",
				func() string {
					if bad == "" {
						return "deferred at " + a.P.InstrPos(def) + " before every recursive generation call"
					}
					return "recursive generation call " + bad + " is not preceded by the deferred cleanup"
				}()})
		}
	}
	out = append(out, RuleResult{"B-CYCLE", "(module)", "detectCycle call sites", "", n >= 2, fmt.Sprintf("%d call sites", n)})
	// (c) the cleanup deletes exactly the key detectCycle inserted
	dc := "(*pkg/generator.schemaGenerator).detectCycle"
	if f := a.P.Func(dc); f != nil {
		var insKey ssa.Value
		for _, b := range f.Blocks {
			for _, in := range b.Instrs {
				if mu, ok := in.(*ssa.MapUpdate); ok && fieldOfLoad(mu.Map) == "inScope" {
					insKey = mu.Key
				}
			}
		}
		ok := false
		detail := "insertion into inScope not found"
		if insKey != nil {
			detail = "no closure deleting the inserted key found"
			for _, anon := range f.AnonFuncs {
				for _, c := range Calls(anon) {
					if b, isB := c.Common().Value.(*ssa.Builtin); isB && b.Name() == "delete" {
						// key is a load of a free variable bound to the same cell the insertion key was loaded from
						k := c.Common().Args[1]
						if sameCell(k, insKey, anon, f) {
							ok = true
							detail = "cleanup deletes the key that was inserted"
						}
					}
				}
			}
		}
		out = append(out, RuleResult{"B-CYCLE", dc, "cleanup deletes the inserted key", a.P.Pos(f.Pos()), ok, detail})
	}
	return out
}

// sameCell: k (inside closure anon) and outer (inside parent) are loads of the same variable cell.
func sameCell(k, outer ssa.Value, anon, parent *ssa.Function) bool {
	kl, ok := k.(*ssa.UnOp)
	if !ok || kl.Op != token.MUL {
		return false
	}
	fv, ok := kl.X.(*ssa.FreeVar)
	if !ok {
		return false
	}
	idx := -1
	for i, x := range anon.FreeVars {
		if x == fv {
			idx = i
		}
	}
	ol, ok := outer.(*ssa.UnOp)
	if !ok || ol.Op != token.MUL {
		return false
	}
	for _, b := range parent.Blocks {
		for _, in := range b.Instrs {
			if mc, ok := in.(*ssa.MakeClosure); ok && mc.Fn == anon && idx >= 0 {
				return mc.Bindings[idx] == ol.X
			}
		}
	}
	return false
}

// ParentPath checks that every file name registered through addFile (which
// becomes the parent for nested relative $refs) is either the path given on the
// command line or a path resolved by QualifiedFileName.
func (a *Analyzer) ParentPath() []RuleResult {
	var out []RuleResult
	n := 0
	for _, f := range a.P.Funcs {
		occ := 0
		for _, c := range Calls(f) {
			if !strings.HasSuffix(shortCallee(c), "Generator).addFile") {
				continue
			}
			n++
			arg := c.Common().Args[1]
			ok := false
			how := exprKey(arg)
			switch x := arg.(type) {
			case *ssa.Parameter:
				ok = strings.HasSuffix(a.P.FuncName(f), "Generator).DoFile")
				how = "parameter " + x.Name() + " of " + a.P.FuncName(f)
				if !ok {
					// one level of wrapping: every call of this function in the module passes a qualified name (or DoFile's own parameter) there
					idx, sites, good := paramIndex(f, x), 0, 0
					for _, g := range a.P.Funcs {
						for _, cc := range Calls(g) {
							if cc.Common().StaticCallee() != f || idx < 0 || idx >= len(cc.Common().Args) {
								continue
							}
							sites++
							av := cc.Common().Args[idx]
							if ex, isEx := av.(*ssa.Extract); isEx && ex.Index == 0 {
								if call, isCall := ex.Tuple.(*ssa.Call); isCall {
									if h := call.Call.StaticCallee(); h != nil && strings.HasSuffix(h.String(), "schemas.QualifiedFileName") {
										good++
									}
								}
							}
							if pp, isP := av.(*ssa.Parameter); isP && strings.HasSuffix(a.P.FuncName(g), "Generator).DoFile") && pp != nil {
								good++
							}
						}
					}
					if sites > 0 && good == sites {
						ok = true
						how = fmt.Sprintf("parameter %s of the wrapper %s, which all %d call sites give a qualified name", x.Name(), a.P.FuncName(f), sites)
					}
				}
			case *ssa.Extract:
				if call, isCall := x.Tuple.(*ssa.Call); isCall {
					if g := call.Call.StaticCallee(); g != nil && strings.HasSuffix(g.String(), "schemas.QualifiedFileName") && x.Index == 0 {
						ok = true
						how = "result of QualifiedFileName"
					}
				}
			}
			out = append(out, RuleResult{"B-PARENT", a.P.FuncName(f), fmt.Sprintf("addFile#%d file name", occ), a.P.InstrPos(c.(ssa.Instruction)), ok,
				"the name registered for a loaded schema is the base for its own relative $refs; it is " + how})
			occ++
		}
	}
	out = append(out, RuleResult{"B-PARENT", "(module)", "addFile call sites", "", n >= 2, fmt.Sprintf("%d call sites", n)})
	// a helper generator built with anything but a qualified name (the raw reference text) resolves relative references against the
	// working directory; that is harmless only while everything of that schema has already been generated under its qualified name,
	// i.e. while an addFile(<qualified>, <same schema>) call DOMINATES the construction (unconditionally, on every path)
	isQualified := func(v ssa.Value) bool {
		if ex, ok := v.(*ssa.Extract); ok && ex.Index == 0 {
			if call, isCall := ex.Tuple.(*ssa.Call); isCall {
				if g := call.Call.StaticCallee(); g != nil && strings.HasSuffix(g.String(), "schemas.QualifiedFileName") {
					return true
				}
			}
		}
		return false
	}
	helpers := 0
	for _, f := range a.P.Funcs {
		occ := 0
		for _, c := range Calls(f) {
			if shortCallee(c) != "pkg/generator.newSchemaGenerator" {
				continue
			}
			args := c.Common().Args
			if len(args) < 4 {
				continue
			}
			name, schema := args[2], args[1]
			if isQualified(name) {
				occ++
				continue
			}
			if _, isParam := name.(*ssa.Parameter); isParam {
				occ++
				continue // handed down by the caller (addFile's own parameter): judged at the addFile call sites above
			}
			helpers++
			ci := c.(ssa.Instruction)
			covered := false
			for _, d := range Calls(f) {
				da := d.Common().Args
				di := d.(ssa.Instruction)
				if strings.HasSuffix(shortCallee(d), "Generator).addFile") {
					if len(da) >= 3 && isQualified(da[1]) && sameValue(da[2], schema) && instrDominates(di, ci) {
						covered = true
					}
					continue
				}
				// one level of wrapping: a module helper that hands two of its parameters on to addFile(name, schema) unconditionally
				if g := d.Common().StaticCallee(); g != nil && a.P.InModule(g) && g.Blocks != nil && instrDominates(di, ci) {
					for _, e := range Calls(g) {
						if !strings.HasSuffix(shortCallee(e), "Generator).addFile") || len(e.Common().Args) < 3 || !e.Block().Dominates(g.Blocks[len(g.Blocks)-1]) && e.Block() != g.Blocks[0] {
							continue
						}
						pn, ok1 := e.Common().Args[1].(*ssa.Parameter)
						ps, ok2 := e.Common().Args[2].(*ssa.Parameter)
						if !ok1 || !ok2 {
							continue
						}
						in, is := paramIndex(g, pn), paramIndex(g, ps)
						if in >= 0 && is >= 0 && in < len(da) && is < len(da) && isQualified(da[in]) && sameValue(da[is], schema) && e.Block() == g.Blocks[0] {
							covered = true
						}
					}
				}
			}
			why := "the generator is built with " + exprKey(name) + " (not a qualified name); addFile(<qualified>, same schema) dominates it, so the schema's definitions are generated under the qualified name first"
			if !covered {
				why = "the generator is built with " + exprKey(name) + " (not a qualified name) and no addFile(<qualified>, same schema) call dominates the construction: on some path the schema's definitions are generated by this generator, whose relative $refs resolve against the working directory"
			}
			out = append(out, RuleResult{"B-PARENT", a.P.FuncName(f), fmt.Sprintf("newSchemaGenerator#%d built with an unqualified name is preceded by addFile on every path", occ), a.P.InstrPos(ci), covered, why})
			occ++
		}
	}
	_ = helpers
	return out
}

// instrDominates: a is executed before b on every path to b (same block: earlier; otherwise block dominance).
func instrDominates(a, b ssa.Instruction) bool {
	if a.Block() == b.Block() {
		for _, in := range a.Block().Instrs {
			if in == a {
				return true
			}
			if in == b {
				return false
			}
		}
		return false
	}
	return a.Block().Dominates(b.Block())
}

// Route checks B-ROUTE: each schemaGenerator is built with the output looked
// up for that very schema's id, and the outputs map is only written in beginOutput.
func (a *Analyzer) Route() []RuleResult {
	var out []RuleResult
	n := 0
	for _, f := range a.P.Funcs {
		occ := 0
		for _, c := range Calls(f) {
			if shortCallee(c) != "pkg/generator.newSchemaGenerator" {
				continue
			}
			n++
			args := c.Common().Args
			schema, outp := args[1], args[3]
			ok := false
			detail := "output argument is " + exprKey(outp)
			if ex, isEx := outp.(*ssa.Extract); isEx && ex.Index == 0 {
				if call, isCall := ex.Tuple.(*ssa.Call); isCall && strings.HasSuffix(shortCallee(call), "Generator).findOutputFileForSchemaID") {
					id := call.Call.Args[1]
					if ld, isLd := id.(*ssa.UnOp); isLd && ld.Op == token.MUL {
						if fa, isFa := ld.X.(*ssa.FieldAddr); isFa && fieldAddrTag(fa) == "$id" && sameValue(fa.X, schema) {
							ok = true
							detail = "output = findOutputFileForSchemaID(<schema>.ID) for the same schema value"
						} else {
							detail = "findOutputFileForSchemaID is called with " + exprKey(id) + ", not with the id of the schema the generator is built for"
						}
					}
				}
			}
			out = append(out, RuleResult{"B-ROUTE", a.P.FuncName(f), fmt.Sprintf("newSchemaGenerator#%d output", occ), a.P.InstrPos(c.(ssa.Instruction)), ok, detail})
			occ++
		}
	}
	out = append(out, RuleResult{"B-ROUTE", "(module)", "newSchemaGenerator call sites", "", n >= 2, fmt.Sprintf("%d call sites", n)})
	// who may write outputs
	for _, f := range a.P.Funcs {
		for _, b := range f.Blocks {
			for _, in := range b.Instrs {
				if mu, ok := in.(*ssa.MapUpdate); ok && fieldOfLoad(mu.Map) == "outputs" {
					fn := a.P.FuncName(f)
					out = append(out, RuleResult{"B-ROUTE", fn, "write to outputs", a.P.InstrPos(mu), strings.HasSuffix(fn, "Generator).beginOutput"),
						"the id -> output map may only be extended by beginOutput, after its same-file search"})
				}
			}
		}
	}
	return out
}

// sameValue: two SSA values denote the same variable (identical, or loads of the same cell, or phi-free copies).
func sameValue(x, y ssa.Value) bool {
	if x == y {
		return true
	}
	lx, ok1 := x.(*ssa.UnOp)
	ly, ok2 := y.(*ssa.UnOp)
	if ok1 && ok2 && lx.Op == token.MUL && ly.Op == token.MUL && lx.X == ly.X {
		return true
	}
	return false
}

// CrossPackage checks B-XPKG in generateReferencedType: the decision between
// returning the referenced type unqualified and qualifying it (package pointer
// + import) compares the *package qualified names* of the two outputs, and the
// qualified branch takes package and import from the target's output.
func (a *Analyzer) CrossPackage(fn string) []RuleResult {
	var out []RuleResult
	f := a.P.Func(fn)
	if f == nil {
		return []RuleResult{{Rule: "B-XPKG", Func: fn, Construct: "qualification decision", Detail: "function not found"}}
	}
	// the qualified result: an allocated NamedType whose Package field is stored
	var nt *ssa.Alloc
	var pkgStore *ssa.Store
	for _, b := range f.Blocks {
		for _, in := range b.Instrs {
			st, ok := in.(*ssa.Store)
			if !ok {
				continue
			}
			fa, ok := st.Addr.(*ssa.FieldAddr)
			if !ok || FieldAddrName(fa) != "Package" {
				continue
			}
			if al, ok := fa.X.(*ssa.Alloc); ok && strings.HasSuffix(al.Type().String(), "codegen.NamedType") {
				nt, pkgStore = al, st
			}
		}
	}
	if nt == nil {
		return []RuleResult{{"B-XPKG", fn, "qualification decision", a.P.Pos(f.Pos()), false, "no NamedType with a Package is built any more: cross-package references are not qualified"}}
	}
	// the deciding branch: nearest dominating If of nt's block, going up while the
	// block is reached through loop/if structure of the import search
	var decide *ssa.If
	var side int
	for d := nt.Block(); d != nil; d = d.Idom() {
		id := d.Idom()
		if id == nil {
			break
		}
		iff, ok := id.Instrs[len(id.Instrs)-1].(*ssa.If)
		if !ok {
			continue
		}
		bo, ok := iff.Cond.(*ssa.BinOp)
		if !ok || bo.Op != token.EQL && bo.Op != token.NEQ {
			continue
		}
		k := exprKey(bo.X) + " " + exprKey(bo.Y)
		if strings.Contains(k, "output") {
			decide = iff
			for i, s := range id.Succs {
				if s == d || s.Dominates(d) {
					side = i
				}
			}
			break
		}
	}
	if decide == nil {
		return []RuleResult{{"B-XPKG", fn, "qualification decision", a.P.InstrPos(nt), false, "the qualified return is not guarded by a comparison of the two outputs' packages"}}
	}
	bo := decide.Cond.(*ssa.BinOp)
	isPkgName := func(v ssa.Value) (string, bool) {
		ld, ok := v.(*ssa.UnOp)
		if !ok || ld.Op != token.MUL {
			return exprKey(v), false
		}
		fa, ok := ld.X.(*ssa.FieldAddr)
		if !ok || FieldAddrName(fa) != "QualifiedName" {
			return exprKey(v), false
		}
		pa, ok := fa.X.(*ssa.FieldAddr)
		if !ok || FieldAddrName(pa) != "Package" {
			return exprKey(v), false
		}
		return exprKey(v), true
	}
	kx, okx := isPkgName(bo.X)
	ky, oky := isPkgName(bo.Y)
	wantSide := 1 // qualified branch is taken when the names differ: else side of ==
	if bo.Op == token.NEQ {
		wantSide = 0
	}
	ok := okx && oky && kx != ky && side == wantSide
	out = append(out, RuleResult{"B-XPKG", fn, "qualification decision compares package names", a.P.InstrPos(decide), ok,
		fmt.Sprintf("the branch deciding unqualified vs. package-qualified compares %s with %s; two files of one package must stay unqualified, two packages must be qualified", kx, ky)})
	// the package pointer comes from the target generator's output (not the referrer's)
	src := exprKey(pkgStore.Val)
	var refRoot string
	if okx && oky {
		// referrer side is the one rooted at the receiver
		recv := f.Params[0].Name()
		for _, k := range []string{kx, ky} {
			if strings.HasPrefix(k, recv+".") {
				refRoot = k
			}
		}
	}
	okPkg := strings.HasSuffix(src, "output.file.Package") && (refRoot == "" || !strings.HasPrefix(src, f.Params[0].Name()+"."))
	out = append(out, RuleResult{"B-XPKG", fn, "qualified type carries the target's package", a.P.InstrPos(pkgStore), okPkg, "NamedType.Package = &" + src})
	// an AddImport on the referrer's package with the target's qualified name is reachable on the qualified branch
	okImp := false
	for _, c := range Calls(f) {
		if strings.HasSuffix(shortCallee(c), "codegen.Package).AddImport") {
			args := c.Common().Args
			if strings.HasPrefix(exprKey(args[0]), f.Params[0].Name()+".") && strings.HasSuffix(exprKey(args[1]), "output.file.Package.QualifiedName") &&
				!strings.HasPrefix(exprKey(args[1]), f.Params[0].Name()+".") && decide.Block().Dominates(c.(ssa.Instruction).Block()) {
				okImp = true
			}
		}
	}
	out = append(out, RuleResult{"B-XPKG", fn, "import of the target package added to the referrer", a.P.InstrPos(decide), okImp, "AddImport(referrer package <- target QualifiedName) on the qualified branch"})
	return out
}

// AccumulatorStartsEmpty: every slice that fn builds by appending inside a
// range loop and returns starts out empty (make with length 0, or nil).
func (a *Analyzer) AccumulatorStartsEmpty(fn string) []RuleResult {
	var out []RuleResult
	f := a.P.Func(fn)
	if f == nil {
		return []RuleResult{{Rule: "B-ROUTE:keys", Func: fn, Construct: "key list", Detail: "function not found"}}
	}
	n := 0
	for _, b := range f.Blocks {
		for _, in := range b.Instrs {
			ph, ok := in.(*ssa.Phi)
			if !ok {
				continue
			}
			isAcc := false
			for _, e := range ph.Edges {
				if c, ok := e.(*ssa.Call); ok {
					if bi, ok := c.Call.Value.(*ssa.Builtin); ok && bi.Name() == "append" {
						isAcc = true
					}
				}
			}
			if !isAcc {
				continue
			}
			n++
			for _, e := range ph.Edges {
				switch x := e.(type) {
				case *ssa.MakeSlice:
					l, isC := ConstInt(x.Len)
					out = append(out, RuleResult{"B-ROUTE:keys", fn, "accumulator " + exprKey(ph) + " starts empty", a.P.InstrPos(x), isC && l == 0,
						"a slice that is only appended to must be created with length 0; a non-zero length leaves that many zero-valued (empty-string) entries in front: here they become mappings for the empty schema id"})
				case *ssa.Const:
					out = append(out, RuleResult{"B-ROUTE:keys", fn, "accumulator " + exprKey(ph) + " starts empty", a.P.InstrPos(ph), x.IsNil(), "starts as nil"})
				}
			}
		}
	}
	if n == 0 {
		out = append(out, RuleResult{"B-ROUTE:keys", fn, "key list", a.P.Pos(f.Pos()), false, "no append accumulator found"})
	}
	return out
}

// RefCacheScope: a cache keyed by the raw $ref string is only meaningful within
// one schema file ('#/$defs/X' names different definitions in different files):
// every map written under a key loaded from the $ref field must be a field of
// the per-file generator object (allocated in newSchemaGenerator), or the loader
// cache (whose key is decided by B-MEMO).
func (a *Analyzer) RefCacheScope() []RuleResult {
	var out []RuleResult
	perFile := map[string]bool{}      // struct type names allocated in newSchemaGenerator
	freshField := map[string]bool{}   // "<owner type>#<field index>": the field is initialised there with a map made in that very call
	staleField := map[string]string{} // ... or with something else (what)
	if f := a.P.Func("pkg/generator.newSchemaGenerator"); f != nil {
		for _, b := range f.Blocks {
			for _, in := range b.Instrs {
				if al, ok := in.(*ssa.Alloc); ok {
					perFile[al.Type().String()] = true
				}
				st, ok := in.(*ssa.Store)
				if !ok {
					continue
				}
				fa, ok := st.Addr.(*ssa.FieldAddr)
				if !ok {
					continue
				}
				if _, isMap := st.Val.Type().Underlying().(*types.Map); !isMap {
					continue
				}
				k := fmt.Sprintf("%s#%d", fa.X.Type().String(), fa.Field)
				if _, ok := st.Val.(*ssa.MakeMap); ok {
					freshField[k] = true
				} else {
					staleField[k] = st.Val.String()
				}
			}
		}
	}
	n := 0
	for _, f := range a.P.Funcs {
		for _, b := range f.Blocks {
			for _, in := range b.Instrs {
				mu, ok := in.(*ssa.MapUpdate)
				if !ok {
					continue
				}
				kl, ok := mu.Key.(*ssa.UnOp)
				if !ok || kl.Op != token.MUL {
					continue
				}
				kf, ok := kl.X.(*ssa.FieldAddr)
				if !ok || fieldAddrTag(kf) != "$ref" {
					continue
				}
				n++
				ml, ok := mu.Map.(*ssa.UnOp)
				owner := "?"
				okScope := false
				if ok && ml.Op == token.MUL {
					if mf, ok := ml.X.(*ssa.FieldAddr); ok {
						owner = mf.X.Type().String()
						okScope = perFile[owner]
						k := fmt.Sprintf("%s#%d", owner, mf.Field)
						if okScope && !(freshField[k] && staleField[k] == "") {
							okScope = false
							owner += " but is not created afresh for each file in newSchemaGenerator (initialised from " + staleField[k] + ")"
						}
					}
				}
				out = append(out, RuleResult{"B-REFCACHE", a.P.FuncName(f), "map keyed by the raw $ref belongs to the per-file generator", a.P.InstrPos(mu), okScope,
					"a '#/...' reference means a different definition in every file; the cache written here lives in " + owner})
			}
		}
	}
	out = append(out, RuleResult{"B-REFCACHE", "(module)", "caches keyed by raw $ref", "", n >= 1, fmt.Sprintf("%d write site(s)", n)})
	return out
}

func paramIndex(f *ssa.Function, p *ssa.Parameter) int {
	for i, q := range f.Params {
		if q == p {
			return i
		}
	}
	return -1
}
