// Package engb holds the discipline rules over SSA / CFG / call graph
// (Engine B of DESIGN.md).
package engb

import (
	"go/constant"
	"go/token"
	"go/types"
	"strings"

	"golang.org/x/tools/go/ssa"

	"verif/checker/internal/core"
)

// An Analyzer caches whole-program facts the rules share.
type Analyzer struct {
	P            *core.Program
	noret        map[*ssa.Function]bool
	abortOnParam map[*ssa.Function]map[int]bool
}

func New(p *core.Program) *Analyzer {
	a := &Analyzer{P: p, noret: map[*ssa.Function]bool{}, abortOnParam: map[*ssa.Function]map[int]bool{}}
	a.computeNoreturn()
	return a
}

// baseNoreturn lists the library functions that never return.
func baseNoreturn(f *ssa.Function) bool {
	if f == nil {
		return false
	}
	switch f.String() {
	case "os.Exit", "log.Fatal", "log.Fatalf", "log.Fatalln", "runtime.Goexit",
		"(*log.Logger).Fatal", "(*log.Logger).Fatalf", "(*log.Logger).Fatalln":
		return true
	}
	return false
}

// IsNoreturnCall: the call never returns (library exit function or a module
// function all of whose paths end in one).
func (a *Analyzer) IsNoreturnCall(in ssa.Instruction) bool {
	c, ok := in.(ssa.CallInstruction)
	if !ok {
		return false
	}
	if _, isDefer := in.(*ssa.Defer); isDefer {
		return false
	}
	if _, isGo := in.(*ssa.Go); isGo {
		return false
	}
	f := c.Common().StaticCallee()
	return f != nil && (baseNoreturn(f) || a.noret[f])
}

// ExitKind classifies a call that never returns: "fail" (non-zero exit, fatal
// log, or a module function all of whose exits are of that kind), "success"
// (os.Exit(0)), "unknown" (non-constant status) or "" (the call returns).
func (a *Analyzer) ExitKind(in ssa.Instruction) string {
	if !a.IsNoreturnCall(in) {
		return ""
	}
	c := in.(ssa.CallInstruction)
	f := c.Common().StaticCallee()
	if f.String() == "os.Exit" {
		if n, ok := ConstInt(c.Common().Args[0]); ok {
			if n == 0 {
				return "success"
			}
			return "fail"
		}
		return "unknown"
	}
	if baseNoreturn(f) {
		return "fail"
	}
	return a.funcExitKind(f, map[*ssa.Function]bool{})
}

func (a *Analyzer) funcExitKind(f *ssa.Function, seen map[*ssa.Function]bool) string {
	if seen[f] {
		return "fail"
	}
	seen[f] = true
	kind := ""
	for _, b := range f.Blocks {
		for _, in := range b.Instrs {
			if !a.IsNoreturnCall(in) {
				continue
			}
			var k string
			g := in.(ssa.CallInstruction).Common().StaticCallee()
			if g.String() == "os.Exit" || baseNoreturn(g) {
				k = a.ExitKind(in)
			} else {
				k = a.funcExitKind(g, seen)
			}
			if kind == "" {
				kind = k
			} else if kind != k {
				kind = "unknown"
			}
		}
	}
	return kind
}

// returnReachable reports whether a Return can be reached from the entry of f
// when every block is cut at the first no-return call, and (if assumeNonNil
// is a parameter) the nil side of every test of that parameter is ignored.
func (a *Analyzer) returnReachable(f *ssa.Function, assumeNonNil *ssa.Parameter) bool {
	if len(f.Blocks) == 0 {
		return true
	}
	seen := map[*ssa.BasicBlock]bool{}
	var walk func(b *ssa.BasicBlock) bool
	walk = func(b *ssa.BasicBlock) bool {
		if seen[b] {
			return false
		}
		seen[b] = true
		for _, in := range b.Instrs {
			if a.IsNoreturnCall(in) {
				return false
			}
			if c, ok := in.(*ssa.Call); ok && assumeNonNil != nil {
				// a call that aborts when handed this (non-nil) parameter
				if g := c.Call.StaticCallee(); g != nil {
					for i, arg := range c.Call.Args {
						if arg == assumeNonNil && a.abortOnParam[g][i] {
							return false
						}
					}
				}
			}
			switch t := in.(type) {
			case *ssa.Return:
				return true
			case *ssa.Panic:
				return false
			case *ssa.If:
				if assumeNonNil != nil {
					if side, ok := nilTestSide(t.Cond, func(v ssa.Value) bool { return v == assumeNonNil }); ok {
						// side = index of the successor taken when the value is non-nil
						return walk(b.Succs[side])
					}
				}
			}
		}
		for _, s := range b.Succs {
			if walk(s) {
				return true
			}
		}
		return false
	}
	return walk(f.Blocks[0])
}

func (a *Analyzer) computeNoreturn() {
	for changed := true; changed; {
		changed = false
		for _, f := range a.P.Funcs {
			if !a.noret[f] && !a.returnReachable(f, nil) {
				a.noret[f] = true
				changed = true
			}
			for i, prm := range f.Params {
				if !isNillable(prm.Type()) {
					continue
				}
				if a.abortOnParam[f][i] {
					continue
				}
				if !a.returnReachable(f, prm) {
					if a.abortOnParam[f] == nil {
						a.abortOnParam[f] = map[int]bool{}
					}
					a.abortOnParam[f][i] = true
					changed = true
				}
			}
		}
	}
}

func isNillable(t types.Type) bool {
	switch t.Underlying().(type) {
	case *types.Interface, *types.Pointer, *types.Slice, *types.Map, *types.Signature, *types.Chan:
		return true
	}
	return false
}

// nilTestSide recognises cond as a (possibly negated) comparison of a value
// satisfying is() with nil, and returns the index (0 = then, 1 = else) of the
// successor taken when the value is NOT nil.
func nilTestSide(cond ssa.Value, is func(ssa.Value) bool) (int, bool) {
	neg := false
	for {
		if u, ok := cond.(*ssa.UnOp); ok && u.Op == token.NOT {
			neg = !neg
			cond = u.X
			continue
		}
		break
	}
	b, ok := cond.(*ssa.BinOp)
	if !ok || (b.Op != token.EQL && b.Op != token.NEQ) {
		return 0, false
	}
	var other ssa.Value
	switch {
	case is(b.X):
		other = b.Y
	case is(b.Y):
		other = b.X
	default:
		return 0, false
	}
	c, ok := other.(*ssa.Const)
	if !ok || !c.IsNil() {
		return 0, false
	}
	nonNilOnThen := b.Op == token.NEQ
	if neg {
		nonNilOnThen = !nonNilOnThen
	}
	if nonNilOnThen {
		return 0, true
	}
	return 1, true
}

// Reachable returns the set of blocks reachable from b (including b when
// includeSelf, or when b lies on a cycle).
func Reachable(from []*ssa.BasicBlock) map[*ssa.BasicBlock]bool {
	seen := map[*ssa.BasicBlock]bool{}
	var stack []*ssa.BasicBlock
	stack = append(stack, from...)
	for len(stack) > 0 {
		b := stack[len(stack)-1]
		stack = stack[:len(stack)-1]
		if seen[b] {
			continue
		}
		seen[b] = true
		stack = append(stack, b.Succs...)
	}
	return seen
}

// InstrReaches reports whether control can flow from just after instruction x
// to instruction y (same function).
func InstrReaches(x, y ssa.Instruction) bool {
	bx, by := x.Block(), y.Block()
	if bx == by {
		ix, iy := -1, -1
		for i, in := range bx.Instrs {
			if in == x {
				ix = i
			}
			if in == y {
				iy = i
			}
		}
		if ix < iy {
			return true
		}
	}
	return Reachable(bx.Succs)[by]
}

func instrIndex(in ssa.Instruction) int {
	for i, x := range in.Block().Instrs {
		if x == in {
			return i
		}
	}
	return -1
}

// ConstInt returns the integer value of a constant SSA value.
func ConstInt(v ssa.Value) (int64, bool) {
	c, ok := v.(*ssa.Const)
	if !ok || c.Value == nil || c.Value.Kind() != constant.Int {
		return 0, false
	}
	return c.Int64(), true
}

// ConstString returns the string value of a constant SSA value.
func ConstString(v ssa.Value) (string, bool) {
	c, ok := v.(*ssa.Const)
	if !ok || c.Value == nil || c.Value.Kind() != constant.String {
		return "", false
	}
	return constant.StringVal(c.Value), true
}

// Calls lists the call instructions (Call, Defer, Go) of a function.
func Calls(f *ssa.Function) []ssa.CallInstruction {
	var out []ssa.CallInstruction
	for _, b := range f.Blocks {
		for _, in := range b.Instrs {
			if c, ok := in.(ssa.CallInstruction); ok {
				out = append(out, c)
			}
		}
	}
	return out
}

// Referrers that are not debug refs.
func refs(v ssa.Value) []ssa.Instruction {
	r := v.Referrers()
	if r == nil {
		return nil
	}
	var out []ssa.Instruction
	for _, in := range *r {
		if _, ok := in.(*ssa.DebugRef); ok {
			continue
		}
		out = append(out, in)
	}
	return out
}

// GlobalName returns "pkgpath.Name" when v is a load of (or the address of) a
// package-level variable.
func GlobalName(v ssa.Value) string {
	switch x := v.(type) {
	case *ssa.Global:
		return x.Pkg.Pkg.Path() + "." + x.Name()
	case *ssa.UnOp:
		if x.Op == token.MUL {
			if g, ok := x.X.(*ssa.Global); ok {
				return g.Pkg.Pkg.Path() + "." + g.Name()
			}
		}
	}
	return ""
}

// shortCallee trims the module path from a callee name for use in keys.
func shortCallee(c ssa.CallInstruction) string {
	s := core.CalleeName(c)
	s = strings.ReplaceAll(s, core.ModPath+"/", "")
	s = strings.ReplaceAll(s, core.ModPath+".", "main.")
	return s
}

// exprKey is a position-free rendering of an SSA value for use in finding keys.
func exprKey(v ssa.Value) string {
	switch x := v.(type) {
	case *ssa.Const:
		return x.String()
	case *ssa.Parameter:
		return x.Name()
	case *ssa.Global:
		return x.Name()
	case *ssa.FieldAddr:
		st := x.X.Type().Underlying().(*types.Pointer).Elem().Underlying().(*types.Struct)
		return exprKey(x.X) + "." + st.Field(x.Field).Name()
	case *ssa.Field:
		st := x.X.Type().Underlying().(*types.Struct)
		return exprKey(x.X) + "." + st.Field(x.Field).Name()
	case *ssa.UnOp:
		if x.Op == token.MUL {
			return exprKey(x.X)
		}
		return x.Op.String() + exprKey(x.X)
	case *ssa.Call:
		return shortCallee(x) + "()"
	case *ssa.Extract:
		return exprKey(x.Tuple)
	case *ssa.Alloc:
		if x.Comment != "" {
			return x.Comment
		}
		return "alloc"
	case *ssa.Phi:
		if x.Comment != "" {
			return x.Comment
		}
		return "phi"
	case *ssa.FreeVar:
		return x.Name()
	case *ssa.IndexAddr:
		return exprKey(x.X) + "[]"
	case *ssa.Lookup:
		return exprKey(x.X) + "[" + exprKey(x.Index) + "]"
	case *ssa.MakeInterface:
		return exprKey(x.X)
	case *ssa.ChangeInterface:
		return exprKey(x.X)
	case *ssa.ChangeType:
		return exprKey(x.X)
	case *ssa.Convert:
		return exprKey(x.X)
	case *ssa.BinOp:
		return exprKey(x.X) + x.Op.String() + exprKey(x.Y)
	case *ssa.Function:
		return x.Name()
	case *ssa.MakeClosure:
		return exprKey(x.Fn)
	case *ssa.Slice:
		return exprKey(x.X) + "[:]"
	case *ssa.TypeAssert:
		return exprKey(x.X) + ".(" + types.TypeString(x.AssertedType, func(p *types.Package) string { return p.Name() }) + ")"
	}
	return v.Name()
}

// FieldAddrName returns the name of the field a FieldAddr selects.
func FieldAddrName(fa *ssa.FieldAddr) string {
	st := fa.X.Type().Underlying().(*types.Pointer).Elem().Underlying().(*types.Struct)
	return st.Field(fa.Field).Name()
}
