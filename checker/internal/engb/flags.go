package engb

import (
	"fmt"
	"go/token"
	"sort"
	"strings"

	"golang.org/x/tools/go/ssa"
)

// FlagWiring (B-FLAG): main.go is executed by no test. Each command-line flag is registered with a *Var call that binds
// a package-level variable to a flag NAME; the Run closure copies those variables into generator.Config fields (and
// into the per-id mapping maps). An option "changes exactly what it names" only if the variable bound to flag N reaches
// the Config field that implements N. The table flag-name -> Config field (or "map:<helper>" for the three per-id
// flags) is frozen here after reading main.go and generator.Config once; the rule resolves, from the SSA, which global
// each flag name binds and which global each Config field is loaded from, and requires that they agree. A swapped pair
// (OnlyModels: extraImports) compiles, passes the suite and is reported here.
var flagToField = map[string]string{
	"extra-imports":          "ExtraImports",
	"only-models":            "OnlyModels",
	"package":                "DefaultPackageName",
	"output":                 "DefaultOutputName",
	"capitalization":         "Capitalizations",
	"resolve-extension":      "ResolveExtensions",
	"yaml-extension":         "YAMLExtensions",
	"struct-name-from-title": "StructNameFromTitle",
	"tags":                   "Tags",
	"min-sized-ints":         "MinSizedInts",
}

func (a *Analyzer) FlagWiring(mainFn, runFn, configType string) []RuleResult {
	var out []RuleResult
	mf, rf := a.P.Func(mainFn), a.P.Func(runFn)
	if mf == nil || rf == nil {
		return []RuleResult{{"B-FLAG", mainFn, "anchor", "", false, "function not found"}}
	}
	// 1. flag name -> global
	bound := map[string]*ssa.Global{}
	for _, c := range Calls(mf) {
		cal := c.Common().StaticCallee()
		if cal == nil || !strings.Contains(cal.Name(), "Var") || !strings.Contains(cal.String(), "pflag.FlagSet") {
			continue
		}
		args := c.Common().Args
		var g *ssa.Global
		name := ""
		for _, arg := range args {
			if gg, ok := arg.(*ssa.Global); ok && g == nil {
				g = gg
			}
			if k, ok := arg.(*ssa.Const); ok && name == "" && k.Value != nil && k.Value.Kind().String() == "String" {
				name = strings.Trim(k.Value.ExactString(), `"`)
			}
		}
		if g != nil && name != "" {
			bound[name] = g
			// a list-valued option is given as a comma-separated value AND by repeating the flag; of pflag's registrations only
			// StringSliceVar(P) does both (StringArrayVar does not split "json,yaml", a StringVar keeps only the last occurrence)
			if g.Type().String() == "*[]string" {
				okk := cal.Name() == "StringSliceVar" || cal.Name() == "StringSliceVarP"
				why := "registered with " + cal.Name()
				if !okk {
					why += ": a comma-separated value is not split, or a repeated flag does not accumulate — the generator then sees one malformed element (e.g. the tag name \"json,yaml\") or only the last value"
				}
				out = append(out, RuleResult{"B-FLAG", mainFn, "list flag --" + name + " splits commas and accumulates", a.P.InstrPos(c.(ssa.Instruction)), okk, why})
			}
		}
	}
	// 2. Config field -> global it is loaded from (stores through FieldAddr of an alloc of configType in the Run closure)
	fieldFrom := map[string]ssa.Value{}
	for _, b := range rf.Blocks {
		for _, in := range b.Instrs {
			st, ok := in.(*ssa.Store)
			if !ok {
				continue
			}
			fa, ok := st.Addr.(*ssa.FieldAddr)
			if !ok || !strings.HasSuffix(fa.X.Type().String(), configType) {
				continue
			}
			fieldFrom[FieldAddrName(fa)] = st.Val
		}
	}
	names := make([]string, 0, len(flagToField))
	for n := range flagToField {
		names = append(names, n)
	}
	sort.Strings(names)
	sites := 0
	for _, n := range names {
		fld := flagToField[n]
		g := bound[n]
		v := fieldFrom[fld]
		key := "--" + n + " reaches Config." + fld
		switch {
		case g == nil:
			out = append(out, RuleResult{"B-FLAG", mainFn, key, "", false, "no *Var registration with this flag name binds a package-level variable"})
		case v == nil:
			out = append(out, RuleResult{"B-FLAG", runFn, key, "", false, "the Config literal in the Run closure does not set this field"})
		default:
			sites++
			src := globalOf(v)
			ok := src == g
			why := "loaded from " + g.Name()
			if !ok {
				from := "a value that is not a flag variable (" + v.String() + ")"
				if src != nil {
					from = "variable " + src.Name()
					for fn, gg := range bound {
						if gg == src {
							from += " (bound to --" + fn + ")"
						}
					}
				}
				why = fmt.Sprintf("the flag binds %s but Config.%s is loaded from %s: the option changes something other than what it names", g.Name(), fld, from)
			}
			out = append(out, RuleResult{"B-FLAG", runFn, key, a.P.Pos(v.Pos()), ok, why})
		}
	}
	out = append(out, RuleResult{"B-FLAG", "(module)", "flag-to-Config wirings resolved", "", sites >= 8, fmt.Sprintf("%d of %d", sites, len(names))})
	return out
}

func globalOf(v ssa.Value) *ssa.Global {
	for i := 0; i < 4 && v != nil; i++ {
		switch x := v.(type) {
		case *ssa.Global:
			return x
		case *ssa.UnOp:
			if x.Op != token.MUL {
				return nil
			}
			v = x.X
		case *ssa.ChangeType:
			v = x.X
		default:
			return nil
		}
	}
	return nil
}
