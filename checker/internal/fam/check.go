package fam

import (
	"fmt"
	"go/ast"
	"regexp"
	"sort"
	"strings"

	"verif/checker/internal/absint"
	"verif/checker/internal/skel"
)

// formats lists the unmarshal method names the configuration must produce.
func (w *World) formats() []string {
	if w.Cfg.OnlyModels {
		return nil
	}
	if w.Cfg.ExtraImports {
		return []string{"UnmarshalJSON", "UnmarshalYAML"}
	}
	return []string{"UnmarshalJSON"}
}

func (w *World) tagKey() string {
	if len(w.Cfg.Tags) > 0 {
		return w.Cfg.Tags[0]
	}
	return "json"
}

func stripPtr(t string) (string, bool) {
	if strings.HasPrefix(t, "*") {
		return t[1:], true
	}
	return t, false
}

// RunIssues reports failures of the abstract run itself.
func (w *World) RunIssues() []Issue {
	var out []Issue
	if w.Err != nil {
		msg := w.Err.Msg
		switch w.Err.Kind {
		case "budget":
			if strings.Contains(msg, "step budget") {
				// the family members are a handful of schema nodes: two million interpreter steps without finishing is a loop that does
				// not make progress (the tool hangs)
				out = append(out, Issue{Rule: "A-HANG", Construct: "the generator does not finish on a small schema", Msg: fmt.Sprintf("the interpreted generator exceeds its step budget on this family member (%s at %s; innermost frames %v): a loop that does not make progress — the tool hangs", msg, w.Err.Pos, w.Err.Stack)})
				return out
			}
			out = append(out, Issue{Rule: "A-UNDECIDED", Construct: normMsg(msg), Msg: fmt.Sprintf("the abstract interpreter could not decide (%s: %s at %s; stack %v)", w.Err.Kind, msg, w.Err.Pos, w.Err.Stack)})
		case "panic":
			out = append(out, Issue{Rule: "A-PANIC", Construct: normMsg(msg), Msg: fmt.Sprintf("the generator panics on this schema family (%s at %s; stack %v)", msg, w.Err.Pos, w.Err.Stack)})
		default:
			out = append(out, Issue{Rule: "A-UNDECIDED", Construct: normMsg(msg), Msg: fmt.Sprintf("the abstract interpreter could not decide (%s: %s at %s; stack %v)", w.Err.Kind, msg, w.Err.Pos, w.Err.Stack)})
		}
		return out
	}
	for _, e := range w.Events {
		out = append(out, Issue{Rule: "A-EVENT:" + e.Kind, Construct: normMsg(e.Msg), Msg: e.Msg + " at " + e.Pos})
	}
	return out
}

func normMsg(s string) string {
	// drop atom ids «Kind#12(name)» -> «Kind(name)»
	var b strings.Builder
	for i := 0; i < len(s); i++ {
		if s[i] == '#' {
			j := i + 1
			for j < len(s) && s[j] >= '0' && s[j] <= '9' {
				j++
			}
			if j > i+1 {
				i = j - 1
				continue
			}
		}
		b.WriteByte(s[i])
	}
	r := b.String()
	if len(r) > 200 {
		r = r[:200]
	}
	return r
}

// SynIssues: every emitted file parses.
func (w *World) SynIssues() []Issue {
	var out []Issue
	for name, f := range w.Files {
		if f.Err != nil {
			msg := f.Err.Error()
			out = append(out, Issue{Rule: "A-SYN", Construct: "emitted file does not parse", Msg: fmt.Sprintf("%s does not parse: %s", name, firstLine(msg))})
			continue
		}
		// A-INDENT: the emitter's indentation level is back at zero between declarations. The raw text (before gofmt) shows it: every
		// top-level declaration starts in column 1. A level left over by one declaration shifts the wrapping width of every later
		// comment (Emitter.Comment wraps at maxLineLength - indent), which gofmt does not undo — the bytes of a declaration then
		// depend on what was emitted before it (e.g. on whether unmarshalers are emitted at all).
		if f.AST != nil {
			for _, d := range f.AST.Decls {
				if col := f.Fset.Position(d.Pos()).Column; col != 1 {
					what := "declaration"
					switch x := d.(type) {
					case *ast.FuncDecl:
						what = "func " + x.Name.Name
					case *ast.GenDecl:
						what = x.Tok.String() + " declaration"
					}
					out = append(out, Issue{Rule: "A-INDENT", Construct: "top-level declaration emitted with leftover indentation", Msg: fmt.Sprintf("%s: the top-level %s starts in column %d of the emitted text: an earlier declaration left the emitter's indentation level raised, so later comments are wrapped narrower than in a run that does not emit that declaration", name, what, col)})
					break
				}
			}
		}
	}
	return out
}

func firstLine(s string) string {
	if i := strings.IndexByte(s, '\n'); i >= 0 {
		return s[:i]
	}
	return s
}

// CtxIssues: every hole sits in a lexical context compatible with its sanitisation.
func (w *World) CtxIssues() []Issue {
	var out []Issue
	seen := map[string]bool{}
	for _, f := range w.Files {
		for _, c := range skel.Contexts(f.R) {
			// a value that reaches a back-quoted literal AFTER the emitter cut the text into lines: whatever the emitter writes between
			// the lines (its indentation) becomes part of the literal's value — the pattern that is matched is not the schema's
			if c.Kind == "raw-string" {
				cutAt := -1
				for i, t := range c.Span.Hole.Tr {
					if t == "no:\n" {
						cutAt = i
					}
				}
				key := "cut|" + skel.HoleKey(c.Span.Hole)
				if cutAt >= 0 && !seen[key] {
					seen[key] = true
					out = append(out, Issue{Rule: "A-CTX:cut", Construct: "schema text cut into lines on its way into a back-quoted literal (" + c.Span.Hole.A.Name + ")",
						Msg: fmt.Sprintf("the text of %s is split at its line breaks and re-assembled by the emitter inside a back-quoted literal (formatted at %s): a value containing a newline is emitted with the emitter's indentation inside it, so the literal's value differs from the schema's", c.Span.Hole.A.Name, c.Span.Hole.SitePos)})
				}
			}
			if p := skel.CtxProblem(c); p != "" {
				key := c.Kind + "|" + skel.HoleKey(c.Span.Hole)
				if seen[key] {
					continue
				}
				seen[key] = true
				out = append(out, Issue{Rule: "A-CTX", Construct: c.Kind + " <- " + c.Span.Hole.A.Kind, Site: skel.HoleKey(c.Span.Hole),
					Msg: fmt.Sprintf("%s (atom %s, formatted at %s [%s], token %s)", p, c.Span.Hole.A.Name, c.Span.Hole.SitePos, skel.HoleKey(c.Span.Hole), c.Token)})
			}
		}
	}
	return out
}

// TypIssues type-checks each emitted file against exactly its imports.
func (w *World) TypIssues(repo string) []Issue {
	var out []Issue
	for name, f := range w.Files {
		if f.Err != nil {
			continue
		}
		errs, _, _, err := skel.TypeCheck(repo, f, nil)
		if err != nil {
			out = append(out, Issue{Rule: "A-UNDECIDED", Construct: "type-check environment", Msg: err.Error()})
			continue
		}
		seen := map[string]bool{}
		for _, e := range errs {
			if strings.HasPrefix(strings.TrimSpace(e.Msg), "other declaration of") {
				continue // secondary line of a redeclaration error
			}
			if strings.Contains(e.Msg, "overflows") && strings.Contains(e.Msg, "700") {
				// a numeric placeholder does not respect the region its atom was narrowed to in this world;
				// representability of kept bounds in the chosen sized type is not decided here
				continue
			}
			k := skel.NormalizeTypeError(e.Msg, f.R)
			k = normIdents(k, w)
			if seen[k] {
				continue
			}
			seen[k] = true
			out = append(out, Issue{Rule: "A-TYP", Construct: k, Msg: fmt.Sprintf("%s does not type-check: %s (line %d: %s)", name, e.Msg, e.Line, e.Text)})
		}
	}
	return out
}

// normIdents replaces concrete generated names that depend on the family (none today) — hook for stability.
func normIdents(s string, w *World) string {
	s = reConstVal.ReplaceAllString(s, "constant)")
	s = rePtrAssign.ReplaceAllString(s, "cannot use <literal> as pointer value in assignment")
	s = reUnknownField.ReplaceAllString(s, "unknown field (built from a default's key) in struct literal")
	s = reDefIdent.ReplaceAllString(s, "<identifier of a definition>")
	s = rePosition.ReplaceAllString(s, "")
	return s
}

var (
	rePtrAssign    = regexp.MustCompile(`cannot use .* as \*\w+ value in assignment`)
	reDefIdent     = regexp.MustCompile(`<identifier of name of definition for [^>]*>`)
	reUnknownField = regexp.MustCompile(`unknown field (<default key>)+ in struct literal of type .*`)
)

var rePosition = regexp.MustCompile(` at [\w/.]+\.go:\d+:\d+`)

var reConstVal = regexp.MustCompile(`constant [0-9.e+\-]+\)`)

// objectTarget describes where the checks of a property live.
type target struct {
	recv  string // type whose methods carry the checks
	field string // field name within plain ("" = plain itself)
	isPtr bool
}

// CheckObject walks an object spec against the struct that represents it.
func (w *World) CheckObject(fm *FileModel, s *Spec, structName string, path string) []Issue {
	var out []Issue
	if len(s.AllOf) > 0 {
		return w.CheckObject(fm, MergeAllOf(s), structName, path+"&")
	}
	if len(s.AnyOf) > 0 {
		out = append(out, w.anyOfIssues(fm, s, path)...)
		for i, b := range s.AnyOf {
			if len(b.Props) > 0 {
				name := ""
				for _, st := range fm.StructsWithField(b.Props[0].Name, w.tagKey()) {
					if strings.HasSuffix(st.Name, fmt.Sprintf("_%d", i)) {
						name = st.Name
					}
				}
				if name == "" {
					// a referenced branch: `type X_i = Def` — the definition's struct is the branch type
					for tn, td := range fm.Types {
						if td.Alias && strings.HasSuffix(tn, fmt.Sprintf("_%d", i)) {
							if st := fm.Structs[fm.Resolve(tn)]; st != nil && st.FieldByTag(b.Props[0].Text(), w.tagKey()) != nil {
								name = st.Name
							}
						}
					}
				}
				if name == "" {
					out = append(out, Issue{Rule: "A-ANYOF", Construct: "anyOf branch without its own type", Msg: fmt.Sprintf("%s: branch %d of the anyOf has no struct type of its own (suffix _%d)", path, i, i)})
					continue
				}
				out = append(out, w.CheckObject(fm, b, name, fmt.Sprintf("%s|%d", path, i))...)
			}
		}
		return out
	}
	S := fm.Structs[structName]
	if S == nil {
		// locate by the first property's tag
		for _, p := range s.Props {
			if st, _ := fm.FindFieldText(p.Text(), w.tagKey()); st != nil {
				S = st
				break
			}
		}
	}
	if S == nil {
		if len(s.Props) > 0 {
			out = append(out, Issue{Rule: "A-MAP", Construct: "object without struct", Msg: path + ": no struct type carries the properties of this object"})
		}
		return out
	}
	// required
	out = append(out, w.checkRequired(fm, s, S, path)...)
	for _, p := range s.Props {
		F := S.FieldByTag(p.Text(), w.tagKey())
		ppath := path + "." + p.Label
		if F == nil {
			out = append(out, Issue{Rule: "A-TAG", Construct: "property without a field bound to its name", Msg: ppath + ": no field of " + S.Name + " carries the property's exact name in its " + w.tagKey() + " tag"})
			continue
		}
		out = append(out, w.checkTags(p, F, ppath)...)
		if p.ExtType != "" {
			// the override decides the type: T when required or nillable, *T otherwise; the schema's own keywords are not validated
			want := p.ExtType
			if !p.Required && !p.ExtNillable && p.Spec.Default == "" {
				want = "*" + want
			}
			if F.Type != want {
				out = append(out, Issue{Rule: "A-MAP", Construct: fmt.Sprintf("goJSONSchema.type override (required=%v nillable=%v)", p.Required, p.ExtNillable), Msg: fmt.Sprintf("%s: the field has type %s, the override %q with required=%v nillable=%v demands %s", ppath, F.Type, p.ExtType, p.Required, p.ExtNillable, want)})
			}
			continue
		}
		if p.Spec.RefRootOf != "" {
			// an opaque reference by text (to a whole document, to "#", to a definition named elsewhere in the member): its Go type
			// is decided by the member's own clauses (self-reference / same-node clauses, A-TYP), not by the type table
			out = append(out, w.checkDefault(fm, p, S, F, ppath)...)
			continue
		}
		out = append(out, w.checkFieldType(fm, p, F, ppath)...)
		out = append(out, w.checkValue(fm, p.Spec, S, F, ppath, !p.Required || p.Spec.Null != "")...)
		out = append(out, w.checkDefault(fm, p, S, F, ppath)...)
	}
	return out
}

func (w *World) checkTags(p *Prop, F *Field, path string) []Issue {
	var out []Issue
	want := p.Text()
	optional := !p.Required
	for _, k := range w.Cfg.Tags {
		v, ok := F.Tags[k]
		if !ok {
			out = append(out, Issue{Rule: "A-TAG", Construct: "configured tag missing", Msg: fmt.Sprintf("%s: field %s has no %s tag", path, F.Name, k)})
			continue
		}
		if v == "-" {
			// encoding/json, yaml.v3 and mapstructure all read a tag that is exactly "-" as "skip this field"
			out = append(out, Issue{Rule: "A-TAG", Construct: "tag is the skip marker", Msg: fmt.Sprintf("%s: the %s tag of field %s is exactly \"-\": the decoder skips the field, so the property's value is never bound (and never re-encoded)", path, k, F.Name)})
			continue
		}
		name, opts, hasComma := strings.Cut(v, ",")
		if hasComma && opts == "" && k != "json" {
			out = append(out, Issue{Rule: "A-TAG", Construct: "tag ends in an empty option", Msg: fmt.Sprintf("%s: %s tag %q ends in a comma: only encoding/json accepts an empty option (yaml.v3 refuses the type with \"unsupported flag\")", path, k, v)})
		}
		if name != want {
			out = append(out, Issue{Rule: "A-TAG", Construct: "tag does not carry the raw property name", Msg: fmt.Sprintf("%s: %s tag is %q, expected exactly the property name", path, k, v)})
		}
		if (opts == "omitempty") != optional || (opts != "" && opts != "omitempty") {
			out = append(out, Issue{Rule: "A-TAG", Construct: "omitempty does not follow required", Msg: fmt.Sprintf("%s: %s tag options %q for a property with required=%v", path, k, opts, p.Required)})
		}
	}
	return out
}

// goBaseType is the oracle for the Go type of a schema node (without pointer
// wrapping). "NAMED" stands for any declared type name.
func (w *World) goBaseType(s *Spec) (typ string, nillable bool) {
	if s.Enum != "" {
		return "NAMED", false
	}
	switch s.Kind {
	case "string":
		switch s.Format {
		case "date-time":
			return "time.Time", false
		case "date":
			return "types.SerializableDate", false
		case "time":
			return "types.SerializableTime", false
		case "ipv4", "ipv6":
			return "netip.Addr", false
		}
		if s.Ref != "" && w.hasValidators(s) {
			return "NAMED", false
		}
		return "string", false
	case "integer":
		if s.Ref != "" && w.hasValidators(s) {
			return "NAMED", false
		}
		if w.Cfg.MinSizedInts {
			return "INT", false
		}
		return "int", false
	case "number":
		if s.Ref != "" && w.hasValidators(s) {
			return "NAMED", false
		}
		return "float64", false
	case "boolean":
		return "bool", false
	case "null", "any":
		return "interface{}", true
	case "array":
		if s.Items == nil {
			return "[]interface{}", true
		}
		et, _ := w.goBaseType(s.Items)
		// (an enum that lists null holds it in its own wrapper: no pointer is needed to represent it)
		if s.Items.Null != "" && s.Items.Enum != "strings+null" && et != "interface{}" && !strings.HasPrefix(et, "[]") && !strings.HasPrefix(et, "map[") {
			et = "*" + et
		}
		return "[]" + et, true
	case "object":
		if len(s.Props) == 0 && len(s.AnyOf) == 0 && len(s.AllOf) == 0 {
			if s.AddPropsSpec != nil {
				vt, _ := w.goBaseType(s.AddPropsSpec)
				return "map[string]" + vt, true
			}
			return "map[string]interface{}", true
		}
		return "NAMED", false
	}
	return "?", false
}

func (w *World) hasValidators(s *Spec) bool { return true }

func typeMatches(want, got string) bool {
	switch {
	case want == got:
		return true
	case want == "NAMED":
		return got != "" && !strings.ContainsAny(got, "*[]{}. ") && got != "string" && got != "int" && got != "float64" && got != "bool"
	case want == "INT":
		switch got {
		case "int", "int8", "int16", "int32", "int64", "uint8", "uint16", "uint32", "uint64":
			return true
		}
	case strings.HasPrefix(want, "[]") && strings.HasPrefix(got, "[]"):
		return typeMatches(want[2:], got[2:])
	case strings.HasPrefix(want, "map[string]") && strings.HasPrefix(got, "map[string]"):
		return typeMatches(want[len("map[string]"):], got[len("map[string]"):])
	case strings.HasPrefix(want, "*") && strings.HasPrefix(got, "*"):
		return typeMatches(want[1:], got[1:])
	}
	return false
}

func isFormatType(t string) bool {
	switch t {
	case "time.Time", "types.SerializableDate", "types.SerializableTime", "netip.Addr":
		return true
	}
	return false
}

func (w *World) checkFieldType(fm *FileModel, p *Prop, F *Field, path string) []Issue {
	base, nillable := w.goBaseType(p.Spec)
	if base == "?" {
		return nil
	}
	// a definition reference (and a property-less object) is represented by a declared type whose
	// underlying type is the base type; self-decoding format types must not be wrapped (a defined
	// type does not inherit UnmarshalJSON)
	viaDecl := (p.Spec.Ref != "" || (p.Spec.Kind == "object" && len(p.Spec.Props) == 0 && len(p.Spec.AnyOf) == 0 && len(p.Spec.AllOf) == 0)) && base != "NAMED" && !isFormatType(base)
	if viaDecl {
		ft, _ := stripPtr(F.Type)
		td := fm.Types[ft]
		if td == nil {
			return []Issue{{Rule: "A-MAP", Construct: "reference not represented by a declared type (" + specShape(p.Spec) + ")", Msg: fmt.Sprintf("%s: field %s has type %s, expected a declared type standing for the definition", path, F.Name, F.Type)}}
		}
		if strings.HasPrefix(base, "[]") && strings.Contains(td.Type, "struct {") {
			return []Issue{{Rule: "A-MAP", Construct: "array-of-objects definition declared with an anonymous element struct", Msg: fmt.Sprintf("%s: type %s (an array-of-objects definition) is declared with an anonymous element struct: the elements get no type of their own and therefore no unmarshaler, so their required/constraint checks are lost while the same array written inline keeps them", path, ft)}}
		}
		if !typeMatches(base, td.Type) && !(strings.HasPrefix(base, "map[string]") && strings.HasPrefix(td.Type, "map[string]") && p.Spec.AddPropsSpec == nil) {
			return []Issue{{Rule: "A-MAP", Construct: "declared type of " + specShape(p.Spec), Msg: fmt.Sprintf("%s: type %s is declared as %s, but the definition is a %s and must decode as %s", path, ft, td.Type, specShape(p.Spec), base)}}
		}
		base = ft
	}
	wantPtr := false
	switch {
	case p.Spec.Null != "" && p.Spec.Kind != "array" && p.Spec.Kind != "object" && p.Spec.Kind != "null" && p.Spec.Enum == "":
		wantPtr = true // null must be representable
	case !p.Required && p.Spec.Default == "" && !nillable:
		wantPtr = true // absence must be representable
	}
	want := base
	if wantPtr {
		want = "*" + base
	}
	if typeMatches(want, F.Type) {
		return nil
	}
	if p.Spec.Ref != "" && isFormatType(base) {
		if ft, _ := stripPtr(F.Type); fm.Types[ft] != nil {
			return []Issue{{Rule: "A-MAP", Construct: "format type behind a definition reference is wrapped in a declared type", Msg: fmt.Sprintf("%s: field %s has type %s, declared as `type %s %s`: a defined type does not inherit %s's UnmarshalJSON, so every valid %s string is rejected ('cannot unmarshal string into ...') while the same schema written inline decodes", path, F.Name, F.Type, ft, fm.Types[ft].Type, base, p.Spec.Format)}}
		}
	}
	return []Issue{{Rule: "A-MAP", Construct: fmt.Sprintf("Go type for %s required=%v default=%v", specShape(p.Spec), p.Required, p.Spec.Default != ""),
		Msg: fmt.Sprintf("%s: field %s has type %s, but a %s property (required=%v, default=%q) must be %s so that wrong JSON types are rejected and null/absence is representable",
			path, F.Name, F.Type, specShape(p.Spec), p.Required, p.Spec.Default, want)}}
}

func specShape(s *Spec) string {
	t := s.Kind
	if s.Format != "" {
		t += ":" + s.Format
	}
	if s.Null != "" {
		t += "|null(" + s.Null + ")"
	}
	if s.Ref != "" {
		t += " via " + s.Ref
	}
	if s.Enum != "" {
		t += " enum:" + s.Enum
	}
	if s.Kind == "array" && s.Items != nil {
		t += " of " + specShape(s.Items)
	}
	return t
}

// checkValue compares the value constraints of a property (or definition) with the emitted reject branches.
func (w *World) checkValue(fm *FileModel, s *Spec, S *Struct, F *Field, path string, mayBeNil bool) []Issue {
	var out []Issue
	exp := w.ExpectedRejects(s)
	if s.Kind == "array" && mayBeNil {
		// an optional or nullable array that is absent / null decodes to a nil slice, which the schema does not constrain: a lower
		// limit on its length must not be applied to it (len(nil) < N holds for every N > 0)
		for i := range exp {
			if exp[i].Len && exp[i].Depth == 0 && exp[i].Op == "<" {
				exp[i].NeedNilGuard = true
			}
		}
	}
	skipRejects := false
	ft, isPtr := stripPtr(F.Type)
	named := fm.Types[ft]
	what := path + " (" + specShape(s) + ")"
	if w.Cfg.MinSizedInts && s.Kind == "integer" && s.Enum == "" {
		// a bound check may be dropped exactly where the chosen type's range implies it (C15)
		gt := ft
		if named != nil {
			gt = fm.Underlying(ft)
		}
		var sized []Issue
		exp, sized, skipRejects = w.SizedOracle(s, gt, exp, what)
		if w.SizedCheck {
			out = append(out, sized...)
		} else {
			skipRejects = true // decided by the C15 driver only (keeps the world product of the other drivers small)
		}
	}
	primitiveNamed := named != nil && fm.Structs[ft] == nil && s.Kind != "object" && s.Enum == ""
	for _, mn := range w.formats() {
		if skipRejects {
			break
		}
		if primitiveNamed && s.Ref != "" {
			// checks live on the named type; the struct must not re-check
			m := fm.Methods[ft+"."+mn]
			if m == nil {
				if len(exp) > 0 {
					for _, e := range exp {
						if e.Optional {
							continue
						}
						out = append(out, Issue{Rule: "A-REJ", Construct: "missing or misdirected check for " + e.Kw, Msg: fmt.Sprintf("%s: the schema states %s but type %s has no %s at all", what, e.Kw, ft, mn)})
					}
				}
			} else {
				out = append(out, fm.CompareRejects(w, m, "", exp, false, what+" on type "+ft)...)
			}
			if sm := fm.Methods[S.Name+"."+mn]; sm != nil {
				out = append(out, fm.CompareRejects(w, sm, F.Name, nil, isPtr, what)...)
			}
			continue
		}
		m := fm.Methods[S.Name+"."+mn]
		if m == nil {
			if len(exp) > 0 {
				for _, e := range exp {
					if e.Optional {
						continue
					}
					out = append(out, Issue{Rule: "A-REJ", Construct: "missing or misdirected check for " + e.Kw, Msg: fmt.Sprintf("%s: the schema states %s but %s has no %s at all", what, e.Kw, S.Name, mn)})
				}
			}
			continue
		}
		out = append(out, fm.CompareRejects(w, m, F.Name, exp, isPtr, what)...)
	}
	// --min-sized-ints on array ELEMENTS: without the flag element bounds are not validated at all ([]int), so an element type
	// narrower than 64 bits makes the decoder reject elements the plain build accepts
	if w.Cfg.MinSizedInts && w.SizedCheck && s.Kind == "array" && s.Items != nil && s.Items.Kind == "integer" {
		et := strings.TrimPrefix(strings.TrimPrefix(fm.Underlying(ft), "[]"), "*")
		for _, T := range sizedTypes {
			if T.name == et && T.name != "int" && T.name != "int64" {
				loops := false
				for _, mn := range w.formats() {
					if m := fm.Methods[S.Name+"."+mn]; m != nil {
						for _, r := range m.Rejects {
							if r.Field == F.Name && len(r.Loops) > 0 && r.Kind == "cmp" && r.Len == "" {
								loops = true
							}
						}
					}
				}
				if !loops {
					out = append(out, Issue{Rule: "A-SIZED", Construct: "array elements narrowed to a sized type although element bounds are never validated",
						Msg: fmt.Sprintf("%s: elements are %s with the flag and int without; no element check exists in either build, so an out-of-range element is accepted without the flag and refused (decode error) with it", what, et)})
				}
			}
		}
	}
	// nested object / array of objects: recurse
	switch {
	case s.Kind == "object" && len(s.Props) == 0 && s.AddPropsSpec != nil && s.AddPropsSpec.Kind == "object" && len(s.AddPropsSpec.Props) > 0:
		// a map whose values are objects of their own: the value type carries the value schema's checks
		vt := strings.TrimPrefix(fm.Underlying(ft), "map[string]")
		vt, _ = stripPtr(vt)
		if fm.Structs[vt] != nil {
			out = append(out, w.CheckObject(fm, s.AddPropsSpec, vt, path+"{}")...)
		}
	case s.Kind == "object" && (len(s.Props) > 0 || len(s.AllOf) > 0 || len(s.AnyOf) > 0):
		out = append(out, w.CheckObject(fm, s, ft, path)...)
	case s.Kind == "array":
		inner := s
		t := fm.Underlying(ft)
		if strings.Contains(t, "struct {") {
			break // reported by the type oracle (anonymous element struct)
		}
		for inner != nil && inner.Kind == "array" {
			t = strings.TrimPrefix(t, "[]")
			inner = inner.Items
		}
		if inner != nil && inner.Kind == "object" && len(inner.Props) > 0 {
			t, _ = stripPtr(t)
			out = append(out, w.CheckObject(fm, inner, t, path+"[]")...)
		}
	}
	return out
}

func (w *World) checkRequired(fm *FileModel, s *Spec, S *Struct, path string) []Issue {
	var out []Issue
	want := map[string]string{}
	for _, p := range s.Props {
		if p.Required && p.Spec.Default == "" {
			want[p.Text()] = p.Label
		}
	}
	if s.ReqNoProp {
		want[AtomText(s.Atoms["required-without-property"])] = "(name listed in required without a property)"
	}
	for _, mn := range w.formats() {
		m := fm.Methods[S.Name+"."+mn]
		got := map[string]skel.Reject{}
		if m != nil {
			for _, r := range m.Rejects {
				if r.Kind == "required" {
					got[strings.Trim(r.RawKey, "\"")] = r
				}
			}
		}
		var keys []string
		for k := range want {
			keys = append(keys, k)
		}
		sort.Strings(keys)
		for _, k := range keys {
			r, ok := got[k]
			lbl := want[k]
			if !ok {
				c := "required property without presence check"
				if strings.HasPrefix(lbl, "(") {
					c = "required name without a property has no presence check"
				}
				out = append(out, Issue{Rule: "A-REQ", Construct: c, Msg: fmt.Sprintf("%s: %s is required (no default) but %s.%s has no presence test for its key: a document omitting it is accepted", path, lbl, S.Name, mn)})
				continue
			}
			if m.PlainDecl >= 0 && r.Top > m.PlainDecl {
				out = append(out, Issue{Rule: "A-REQ", Construct: "presence check after the typed decode", Msg: fmt.Sprintf("%s: the presence test for %s comes after the typed decode", path, lbl)})
			}
			if !r.NilGuard {
				out = append(out, Issue{Rule: "A-REQ", Construct: "presence check without raw != nil", Msg: fmt.Sprintf("%s: the presence test for %s is not guarded by raw != nil (a null container would be rejected)", path, lbl)})
			}
		}
		for k, r := range got {
			if _, ok := want[k]; !ok {
				out = append(out, Issue{Rule: "A-NOEXTRA", Construct: "presence check for a property that is not required (or has a default)", Msg: fmt.Sprintf("%s: %s.%s demands key %s (`%s`) although it is optional or defaulted: valid documents are refused", path, S.Name, mn, k, r.Cond)})
			}
		}
	}
	return out
}

// checkDefault: A-DEF.
func (w *World) checkDefault(fm *FileModel, p *Prop, S *Struct, F *Field, path string) []Issue {
	var out []Issue
	for _, mn := range w.formats() {
		m := fm.Methods[S.Name+"."+mn]
		var as []skel.Assign
		if m != nil {
			for _, a := range m.Assigns {
				if a.Field == F.Name {
					as = append(as, a)
				}
			}
		}
		if p.Spec.Default == "" {
			for _, a := range as {
				out = append(out, Issue{Rule: "A-DEF", Construct: "assignment to a field without default", Msg: fmt.Sprintf("%s: %s.%s assigns %s = %s although the property has no default", path, S.Name, mn, F.Name, a.Expr)})
			}
			continue
		}
		if m == nil {
			out = append(out, Issue{Rule: "A-DEF", Construct: "defaulted property without unmarshaler", Msg: fmt.Sprintf("%s: the property has a default but %s has no %s to apply it", path, S.Name, mn)})
			continue
		}
		// "absent OR NULL takes the default": the field of a defaulted property is a plain value; when its type is a named type with an
		// unmarshaler of its own, encoding/json hands that method the token null (documented: UnmarshalJSON is called "including when
		// the input is a JSON null"), so the method must let null through — it runs before the default is applied
		if ft, isPtr := stripPtr(F.Type); !isPtr && mn == "UnmarshalJSON" {
			if tm := fm.Methods[ft+"."+mn]; tm != nil && tm.Decl != nil && tm.Decl.Body != nil {
				letsNull := false
				ast.Inspect(tm.Decl.Body, func(n ast.Node) bool {
					if bl, ok := n.(*ast.BasicLit); ok && (bl.Value == `"null"` || bl.Value == "`null`") {
						letsNull = true
					}
					return true
				})
				if !letsNull {
					out = append(out, Issue{Rule: "A-DEF", Construct: "null for a defaulted property is refused by the field type's own unmarshaler",
						Msg: fmt.Sprintf("%s: the field %s.%s is a plain %s, whose own %s validates every input including the token null (no test for it): {\"<key>\": null} is refused before the default can be applied, although an absent or null property takes its default", path, S.Name, F.Name, ft, mn)})
				}
			}
		}
		if len(as) != 1 {
			out = append(out, Issue{Rule: "A-DEF", Construct: "default not assigned exactly once", Msg: fmt.Sprintf("%s: expected exactly one default assignment to %s in %s.%s, found %d", path, F.Name, S.Name, mn, len(as))})
			continue
		}
		a := as[0]
		wantKey := "\"" + p.Text() + "\""
		okGuard := strings.Contains(a.Init, "raw["+wantKey+"]") && strings.Contains(strings.ReplaceAll(a.Guard, " ", ""), "!ok||v==nil")
		if !okGuard {
			out = append(out, Issue{Rule: "A-DEF", Construct: "default guard is not 'key absent or null'", Msg: fmt.Sprintf("%s: the default is applied under `%s; %s`, expected a test that the raw key %s is absent or null", path, a.Init, a.Guard, wantKey)})
		}
		if da := p.Spec.Atoms["default"]; da != nil && p.Spec.Default == "scalar" && !strings.Contains(a.Expr, AtomText(da)) {
			other := "another literal"
			if h := fm.HoleOf(strings.Trim(a.Expr, "\"")); h != nil {
				other = "the value of " + h.A.Name
			}
			out = append(out, Issue{Rule: "A-DEF", Construct: "assigned literal is not this property's default", Msg: fmt.Sprintf("%s: the field is assigned %s (%s), not the default stated for this property", path, a.Expr, other)})
		}
		if ka := p.Spec.Atoms["default key"]; ka != nil && (p.Spec.Default == "map" || p.Spec.Default == "mapmap") && fm.Structs[strings.TrimPrefix(F.Type, "*")] == nil {
			// the default of a MAP-typed field (a property-less object): its keys are data, they are the schema's keys verbatim — one
			// whole quoted piece of the key's text each (a struct-typed default turns keys into field selectors instead; not this case)
			want := "\"" + AtomText(ka) + "\""
			if !strings.Contains(a.Expr, want+":") && !strings.Contains(a.Expr, want+" :") {
				construct := "key of a map default is not the schema's key verbatim"
				if !strings.Contains(a.Expr, ":") {
					construct = "non-empty map default replaced by an empty map (additionalProperties: " + p.Spec.AddProps + ")"
				}
				out = append(out, Issue{Rule: "A-DEF", Construct: construct, Msg: fmt.Sprintf("%s: the map-typed field is assigned %s: its key is not the (quoted) default key as written in the schema — the decoded default has other keys than the schema's", path, normLine(a.Expr))})
			}
		}
		if p.Spec.Kind == "string" && p.Spec.Default == "scalar" && strings.Contains(strings.TrimLeft(a.Expr, "&("), "`") {
			// inside a raw string literal the Go scanner drops every carriage return and a back-quote ends the literal: the
			// assigned value is then not the default for every string
			out = append(out, Issue{Rule: "A-DEF", Construct: "string default emitted in a raw string literal", Msg: fmt.Sprintf("%s: the default is assigned as %s: a raw string literal loses carriage returns (and cannot hold a back-quote), so the field does not receive the schema's default for every string", path, a.Expr)})
		}
		if m.PlainDecl >= 0 && a.Top < m.PlainDecl {
			out = append(out, Issue{Rule: "A-DEF", Construct: "default assigned before the typed decode", Msg: fmt.Sprintf("%s: the default is assigned before the typed decode, which then overwrites it", path)})
		}
		// every check on the field must come after the default is in place
		for _, r := range m.Rejects {
			if r.Field == F.Name && (r.Kind == "cmp" || r.Kind == "pattern" || r.Kind == "multipleOf") && r.Top < a.Top {
				out = append(out, Issue{Rule: "A-DEF", Construct: "constraint checked before the default is applied", Msg: fmt.Sprintf("%s: `%s` is evaluated before the default assignment: an absent property is checked as the Go zero value", path, r.Cond)})
			}
		}
	}
	return out
}

// MethodIssues: A-AON and A-NILG problems of every method of the file.
func MethodIssues(fm *FileModel) []Issue {
	var out []Issue
	var names []string
	for n := range fm.Methods {
		names = append(names, n)
	}
	sort.Strings(names)
	for _, n := range names {
		m := fm.Methods[n]
		if !strings.HasPrefix(m.Name, "Unmarshal") {
			continue
		}
		for _, p := range m.Problems {
			rule, rest, _ := strings.Cut(p, ": ")
			out = append(out, Issue{Rule: rule, Construct: normLine(rest), Msg: n + ": " + rest})
		}
		out = append(out, remainDecodeIssues(fm, m, n)...)
	}
	return out
}

// remainDecodeIssues (A-NILG:remain): the collector of additional properties is filled with mapstructure.Decode(raw, &plain.F).
// For the document `null` the raw key map is a nil map[string]interface{} (encoding/json and yaml.v3 leave a nil map), while the
// emitted default has already put an EMPTY, non-nil map into plain.F (its guard `!ok || v == nil` holds for every key of a nil
// map). mapstructure v2.1.0 (decodeMapFromMap, read in the module cache) then executes `val.Set(dataVal)` — the nil INPUT map
// assigned to the destination — which panics in reflect when the destination's type is not map[string]interface{} itself.
// So a call whose destination is another map type must be dominated by a test that raw is not nil.
func remainDecodeIssues(fm *FileModel, m *skel.Method, name string) []Issue {
	var out []Issue
	st := fm.Structs[m.Recv]
	if st == nil || m.Decl == nil || m.Decl.Body == nil {
		return nil
	}
	fset := fm.F.Fset
	var walk func(stmts []ast.Stmt, rawChecked bool)
	walk = func(stmts []ast.Stmt, rawChecked bool) {
		for _, s := range stmts {
			ifs, ok := s.(*ast.IfStmt)
			if !ok {
				continue
			}
			if ifs.Init != nil && !rawChecked {
				in := skel.ExprString(fset, ifs.Init)
				if i := strings.Index(in, "mapstructure.Decode(raw, &plain."); i >= 0 {
					field := in[i+len("mapstructure.Decode(raw, &plain."):]
					field = strings.TrimSuffix(field, ")")
					var ft string
					for _, f := range st.Fields {
						if f.Name == field {
							ft = f.Type
							// A-COLLECT: the destination of the remainder decode is the collector — a field bound to NO key of its own
							// (`mapstructure:",remain"`, json/yaml "-"). A field that carries a declared property's name receives every
							// undeclared key of the document on top of (or instead of) its own value.
							bound := ""
							for _, k := range []string{"json", "yaml", "mapstructure"} {
								if v, ok := f.Tags[k]; ok {
									if nm := strings.Split(v, ",")[0]; nm != "" && nm != "-" {
										bound = k + ":" + nm
									}
								}
							}
							if bound != "" {
								out = append(out, Issue{Rule: "A-COLLECT", Construct: "undeclared keys decoded into a field that is bound to a declared property",
									Msg: fmt.Sprintf("%s: `%s` collects the undeclared keys of the document into %s.%s, whose tag binds it to the property %s: a declared property is taken for the additional-properties collector", name, in, st.Name, field, bound)})
							}
						}
					}
					preset := false
					for _, a := range m.Assigns {
						if a.Field == field && strings.HasPrefix(a.Expr, "map[") {
							preset = true
						}
					}
					if ft != "" && ft != "map[string]interface{}" && ft != "interface{}" && strings.HasPrefix(ft, "map[") && preset {
						out = append(out, Issue{Rule: "A-NILG", Construct: "additional properties collected from a possibly nil raw map into a typed map",
							Msg: fmt.Sprintf("%s: `%s` runs also for the document null, where raw is a nil map[string]interface{} and plain.%s already holds an empty %s: mapstructure assigns the nil input to the destination with reflect.Set, which panics because the map types differ", name, in, field, ft)})
					}
				}
			}
			cond := skel.ExprString(fset, ifs.Cond)
			walk(ifs.Body.List, rawChecked || strings.Contains(cond, "raw != nil") || strings.Contains(cond, "len(raw) > 0") || strings.Contains(cond, "len(raw) != 0"))
		}
	}
	walk(m.Decl.Body.List, false)
	return out
}

func normLine(s string) string {
	// drop "at line N" / "(line N)" and placeholders
	fields := strings.Fields(s)
	var keep []string
	for i := 0; i < len(fields); i++ {
		if fields[i] == "line" && i+1 < len(fields) {
			i++
			continue
		}
		keep = append(keep, fields[i])
	}
	r := strings.Join(keep, " ")
	r = placeholderRE(r)
	return r
}

func placeholderRE(s string) string {
	var b strings.Builder
	for i := 0; i < len(s); {
		if strings.HasPrefix(s[i:], "Zq") || strings.HasPrefix(s[i:], "rw") || strings.HasPrefix(s[i:], "700") {
			j := i + 2
			for j < len(s) && (s[j] >= '0' && s[j] <= '9') {
				j++
			}
			if j > i+2 {
				if j < len(s) && (s[j] == 'q' || s[j] == 'w') {
					j++
				}
				b.WriteString("<hole>")
				i = j
				continue
			}
		}
		b.WriteByte(s[i])
		i++
	}
	return b.String()
}

var _ = absint.Lit

// MergeAllOf is the specification of allOf for object schemas: the union of the
// branches' properties, a property declared in several branches carrying the
// constraints of all of them, and the union of the required lists.
func MergeAllOf(s *Spec) *Spec {
	m := &Spec{Kind: "object"}
	byAtom := map[int]*Prop{}
	reqAtoms := map[int]bool{}
	labels := map[string]*Prop{}
	for _, b := range s.AllOf {
		br := b
		if len(b.AllOf) > 0 {
			br = MergeAllOf(b)
		}
		for _, p := range br.Props {
			if p.Name == nil {
				continue
			}
			labels[p.Label] = p
			if ex := byAtom[p.Name.ID]; ex != nil {
				// conjunction of the constraints
				for _, kw := range p.Spec.Kw {
					if !ex.Spec.Has(kw) {
						ex.Spec.Kw = append(ex.Spec.Kw, kw)
						if ex.Spec.Atoms == nil {
							ex.Spec.Atoms = map[string]*absint.Atom{}
						}
						ex.Spec.Atoms[kw] = p.Spec.Atoms[kw]
					} else {
						ex.Spec.Kw = append(ex.Spec.Kw, kw) // stated twice: both limits must hold
						ex.Spec.Atoms[kw+"#2"] = p.Spec.Atoms[kw]
						ex.Spec.Twice = append(ex.Spec.Twice, kw)
					}
				}
				if p.Required {
					ex.Required = true
				}
				// an object-valued property re-declared by a later branch: its nested properties (disjoint here) and their required flags join
				if ex.Spec.Kind == "object" && p.Spec.Kind == "object" && len(p.Spec.Props) > 0 {
					ex.Spec.Props = append(append([]*Prop{}, ex.Spec.Props...), p.Spec.Props...)
				}
				continue
			}
			np := *p
			sp := *p.Spec
			sp.Kw = append([]string{}, p.Spec.Kw...)
			at := map[string]*absint.Atom{}
			for k, v := range p.Spec.Atoms {
				at[k] = v
			}
			sp.Atoms = at
			np.Spec = &sp
			byAtom[p.Name.ID] = &np
			m.Props = append(m.Props, &np)
		}
	}
	for _, b := range s.AllOf {
		for _, l := range append(append([]string{}, b.ReqOnly...), b.ReqAlso...) {
			if p := labels[l]; p != nil && p.Name != nil {
				reqAtoms[p.Name.ID] = true
			}
		}
	}
	for _, p := range m.Props {
		if reqAtoms[p.Name.ID] {
			p.Required = true
		}
	}
	return m
}

// anyOfIssues: the merged type of an anyOf tries every branch type and fails only if all fail.
func (w *World) anyOfIssues(fm *FileModel, s *Spec, path string) []Issue {
	var out []Issue
	if w.Cfg.OnlyModels {
		return nil
	}
	n := len(s.AnyOf)
	// the merged struct: has a field of a branch but no _i suffix
	var merged *Struct
	for _, b := range s.AnyOf {
		if len(b.Props) == 0 {
			continue
		}
		for _, st := range fm.StructsWithField(b.Props[0].Name, w.tagKey()) {
			isBranch := false
			for i := range s.AnyOf {
				if strings.HasSuffix(st.Name, fmt.Sprintf("_%d", i)) {
					isBranch = true
				}
			}
			if !isBranch {
				merged = st
			}
		}
	}
	if merged == nil {
		return []Issue{{Rule: "A-ANYOF", Construct: "anyOf without a merged type", Msg: path + ": no struct stands for the anyOf as a whole"}}
	}
	for _, mn := range w.formats() {
		m := fm.Methods[merged.Name+"."+mn]
		if m == nil {
			out = append(out, Issue{Rule: "A-ANYOF", Construct: "anyOf type without unmarshaler", Msg: fmt.Sprintf("%s: %s has no %s: no branch is ever tried", path, merged.Name, mn)})
			continue
		}
		attempts, count := 0, ""
		for _, r := range m.Rejects {
			if r.Kind == "anyOf" {
				count = r.Bound
			}
		}
		body := skel.ExprString(fm.F.Fset, m.Decl.Body)
		for i := 0; i < n; i++ {
			if strings.Contains(body, fmt.Sprintf("_%d.%s(value)", i, mn)) {
				attempts++
			}
		}
		if attempts != n {
			out = append(out, Issue{Rule: "A-ANYOF", Construct: "not every anyOf branch is tried", Msg: fmt.Sprintf("%s: %s.%s tries %d of the %d branches", path, merged.Name, mn, attempts, n)})
		}
		if count != fmt.Sprint(n) {
			out = append(out, Issue{Rule: "A-ANYOF", Construct: "anyOf failure threshold is not the number of branches", Msg: fmt.Sprintf("%s: %s.%s fails when len(errs) == %s, but there are %d branches: with a smaller threshold a document one branch accepts is refused, with a larger one nothing is", path, merged.Name, mn, count, n)})
		}
		// every branch type must have the method that is called
		for i := 0; i < n; i++ {
			bt := fmt.Sprintf("%s_%d", merged.Name, i)
			if fm.Types[bt] != nil && fm.Methods[fm.Resolve(bt)+"."+mn] == nil {
				out = append(out, Issue{Rule: "A-ANYOF", Construct: "anyOf branch type without the unmarshaler that is called on it", Msg: fmt.Sprintf("%s: %s has no %s", path, bt, mn)})
			}
		}
	}
	// union of properties
	for i, b := range s.AnyOf {
		for _, p := range b.Props {
			if merged.FieldByTag(p.Text(), w.tagKey()) == nil {
				out = append(out, Issue{Rule: "A-ANYOF", Construct: "merged anyOf type lacks a branch property", Msg: fmt.Sprintf("%s: property %s of branch %d has no field in %s", path, p.Label, i, merged.Name)})
			}
		}
	}
	return out
}
