package fam

import (
	"fmt"
	"regexp"
	"sort"
	"strings"

	"verif/checker/internal/skel"
)

var (
	reJSONDecode = regexp.MustCompile(`json\.Unmarshal\(value, (&[A-Za-z0-9_.]+|\(\*?\w+\)\(\w+\))\)`)
	reYAMLDecode = regexp.MustCompile(`value\.Decode\((&[A-Za-z0-9_.]+|\(\*?\w+\)\(\w+\))\)`)
	reBranch     = regexp.MustCompile(`\.Unmarshal(JSON|YAML)\(value\)`)
)

func normBody(fm *FileModel, m *skel.Method) []string {
	txt := skel.ExprString(fm.F.Fset, m.Decl.Body)
	txt = reJSONDecode.ReplaceAllString(txt, "DECODE($1)")
	txt = reYAMLDecode.ReplaceAllString(txt, "DECODE($1)")
	txt = reBranch.ReplaceAllString(txt, ".UNMARSHAL(value)")
	var out []string
	for _, l := range strings.Split(txt, "\n") {
		l = strings.TrimSpace(l)
		if l != "" {
			out = append(out, l)
		}
	}
	return out
}

// SibIssues compares the JSON and the YAML unmarshaler of every type.
func SibIssues(fm *FileModel) []Issue {
	var out []Issue
	recvs := map[string]bool{}
	for _, m := range fm.Methods {
		if strings.HasPrefix(m.Name, "Unmarshal") {
			recvs[m.Recv] = true
		}
	}
	var names []string
	for r := range recvs {
		names = append(names, r)
	}
	sort.Strings(names)
	for _, r := range names {
		j, y := fm.Methods[r+".UnmarshalJSON"], fm.Methods[r+".UnmarshalYAML"]
		if j == nil || y == nil {
			which := "UnmarshalYAML"
			if j == nil {
				which = "UnmarshalJSON"
			}
			out = append(out, Issue{Rule: "A-SIB", Construct: "type with only one of the two unmarshalers", Msg: "type " + r + " has no " + which + ": the two decode paths enforce different rules"})
			continue
		}
		a, b := normBody(fm, j), normBody(fm, y)
		n := len(a)
		if len(b) < n {
			n = len(b)
		}
		diff := -1
		for i := 0; i < n; i++ {
			if a[i] != b[i] {
				diff = i
				break
			}
		}
		if diff < 0 && len(a) != len(b) {
			diff = n
		}
		if diff >= 0 {
			la, lb := "(end)", "(end)"
			if diff < len(a) {
				la = a[diff]
			}
			if diff < len(b) {
				lb = b[diff]
			}
			out = append(out, Issue{Rule: "A-SIB", Construct: "JSON and YAML unmarshalers differ: " + placeholderRE(la) + "  vs  " + placeholderRE(lb),
				Msg: "type " + r + ": UnmarshalJSON and UnmarshalYAML differ beyond the decode call; first difference: JSON `" + la + "` / YAML `" + lb + "`"})
		}
	}
	return out
}

// tagBinding reads one struct tag the way its library does: the key it binds, whether the field is skipped, and a
// defect that makes the library refuse the type. Library facts (read from the sources in the module cache):
// encoding/json — a tag that is exactly "-" skips the field, "-," binds the key "-", unknown options are ignored;
// yaml.v3 (getStructInfo) — a tag that is exactly "-" skips the field, every option after the first comma must be
// omitempty, flow or inline, anything else (also the empty option of a trailing comma) fails with "unsupported flag",
// which Decode reports by panicking.
func tagBinding(lib, tag, fieldName string) (key string, skipped bool, defect string) {
	if tag == "-" {
		return "", true, ""
	}
	name, opts, has := strings.Cut(tag, ",")
	if lib == "yaml" && has {
		for _, o := range strings.Split(opts, ",") {
			switch o {
			case "omitempty", "flow", "inline":
			default:
				defect = fmt.Sprintf("yaml.v3 does not know the tag option %q (tag %q): decoding a value of the struct panics with \"unsupported flag\"", o, tag)
			}
		}
	}
	if name == "" {
		if lib == "yaml" {
			name = strings.ToLower(fieldName)
		} else {
			name = fieldName
		}
	}
	return name, false, defect
}

// TagParityIssues (A-TAGPAR): every field that carries both a json and a yaml tag is bound to the same key by both
// libraries, or skipped by both, and neither tag is one its library refuses.
func TagParityIssues(fm *FileModel) []Issue {
	var out []Issue
	var names []string
	for n := range fm.Structs {
		names = append(names, n)
	}
	sort.Strings(names)
	for _, n := range names {
		for _, f := range fm.Structs[n].Fields {
			j, hasJ := f.Tags["json"]
			y, hasY := f.Tags["yaml"]
			if hasY {
				if _, _, d := tagBinding("yaml", y, f.Name); d != "" {
					out = append(out, Issue{Rule: "A-TAGPAR", Construct: "yaml tag with an option yaml.v3 refuses", Msg: fmt.Sprintf("field %s.%s: %s", n, f.Name, d)})
					continue
				}
			}
			if !hasJ || !hasY {
				continue
			}
			jk, js, _ := tagBinding("json", j, f.Name)
			yk, ys, _ := tagBinding("yaml", y, f.Name)
			switch {
			case js != ys:
				out = append(out, Issue{Rule: "A-TAGPAR", Construct: "field skipped by one decoder and bound by the other", Msg: fmt.Sprintf("field %s.%s: json tag %q (skipped=%v) and yaml tag %q (skipped=%v)", n, f.Name, j, js, y, ys)})
			case !js && jk != yk:
				out = append(out, Issue{Rule: "A-TAGPAR", Construct: "json and yaml tags bind different keys", Msg: fmt.Sprintf("field %s.%s: json binds %q, yaml binds %q", n, f.Name, jk, yk)})
			}
		}
	}
	return out
}
