package fam

import (
	"regexp"
	"sort"
	"strings"

	"verif/checker/internal/skel"
)

var (
	reJSONDecode = regexp.MustCompile(`json\.Unmarshal\(value, (&[A-Za-z0-9_.]+|\(\*?\w+\)\(\w+\))\)`)
	reYAMLDecode = regexp.MustCompile(`value\.Decode\((&[A-Za-z0-9_.]+|\(\*?\w+\)\(\w+\))\)`)
	reBranch     = regexp.MustCompile(`\.Unmarshal(JSON|YAML)\(value\)`)
)

func normBody(fm *FileModel, m *skel.Method) []string {
	txt := skel.ExprString(fm.F.Fset, m.Decl.Body)
	txt = reJSONDecode.ReplaceAllString(txt, "DECODE($1)")
	txt = reYAMLDecode.ReplaceAllString(txt, "DECODE($1)")
	txt = reBranch.ReplaceAllString(txt, ".UNMARSHAL(value)")
	var out []string
	for _, l := range strings.Split(txt, "\n") {
		l = strings.TrimSpace(l)
		if l != "" {
			out = append(out, l)
		}
	}
	return out
}

// SibIssues compares the JSON and the YAML unmarshaler of every type.
func SibIssues(fm *FileModel) []Issue {
	var out []Issue
	recvs := map[string]bool{}
	for _, m := range fm.Methods {
		if strings.HasPrefix(m.Name, "Unmarshal") {
			recvs[m.Recv] = true
		}
	}
	var names []string
	for r := range recvs {
		names = append(names, r)
	}
	sort.Strings(names)
	for _, r := range names {
		j, y := fm.Methods[r+".UnmarshalJSON"], fm.Methods[r+".UnmarshalYAML"]
		if j == nil || y == nil {
			which := "UnmarshalYAML"
			if j == nil {
				which = "UnmarshalJSON"
			}
			out = append(out, Issue{Rule: "A-SIB", Construct: "type with only one of the two unmarshalers", Msg: "type " + r + " has no " + which + ": the two decode paths enforce different rules"})
			continue
		}
		a, b := normBody(fm, j), normBody(fm, y)
		n := len(a)
		if len(b) < n {
			n = len(b)
		}
		diff := -1
		for i := 0; i < n; i++ {
			if a[i] != b[i] {
				diff = i
				break
			}
		}
		if diff < 0 && len(a) != len(b) {
			diff = n
		}
		if diff >= 0 {
			la, lb := "(end)", "(end)"
			if diff < len(a) {
				la = a[diff]
			}
			if diff < len(b) {
				lb = b[diff]
			}
			out = append(out, Issue{Rule: "A-SIB", Construct: "JSON and YAML unmarshalers differ: " + placeholderRE(la) + "  vs  " + placeholderRE(lb),
				Msg: "type " + r + ": UnmarshalJSON and UnmarshalYAML differ beyond the decode call; first difference: JSON `" + la + "` / YAML `" + lb + "`"})
		}
	}
	return out
}
