package fam

import (
	"fmt"
	"go/ast"
	"go/token"
	"go/types"
	"reflect"
	"sort"
	"strconv"
	"strings"

	"verif/checker/internal/absint"
	"verif/checker/internal/core"
	"verif/checker/internal/gen"
	"verif/checker/internal/skel"
)

// World is one completed abstract run of the generator on one family member.
type World struct {
	Spec       *Spec // clone with atoms of this run
	Cfg        gen.Config
	Script     []int
	Forks      []absint.ForkSite
	Err        *absint.RunError // interpreted generator panicked / analysis undecided
	GenErr     string           // the generator returned an error (text)
	Files      map[string]*skel.File
	Models     map[string]*FileModel
	Events     []absint.Event
	Warnings   []string
	Assume     []string
	Ext        []string
	Steps      int
	Facts      map[string]int
	SizedCheck bool         // apply the --min-sized-ints oracle (set by the C15 driver)
	Cells      map[int]Cell // final region of every numeric atom of the spec (region domain; --min-sized-ints compares bounds with constants)
}

// Cell is the region a symbolic number was narrowed to in one world.
type Cell struct {
	Lo, Hi         float64
	LoOpen, HiOpen bool
}

// collectCells records the final interval of every Float atom of the spec.
func collectCells(m *absint.Machine, root *Spec) map[int]Cell {
	out := map[int]Cell{}
	seen := map[*Spec]bool{}
	var walk func(s *Spec)
	walk = func(s *Spec) {
		if s == nil || seen[s] {
			return
		}
		seen[s] = true
		for _, a := range s.Atoms {
			if a != nil && a.Kind == "Float" {
				lo, hi, lop, hop := m.Interval(a)
				out[a.ID] = Cell{lo, hi, lop, hop}
			}
		}
		walk(s.Items)
		for _, p := range s.Props {
			walk(p.Spec)
		}
		for _, x := range s.AnyOf {
			walk(x)
		}
		for _, x := range s.AllOf {
			walk(x)
		}
	}
	walk(root)
	return out
}

// ReservedIdents are literals the generator compares identifiers with; a
// symbolic identifier is assumed different from them unless a family asks otherwise.
var ReservedIdents = []string{"AdditionalProperties", "Plain", "Value"}

// Run executes the generator abstractly on the family member under cfg and
// returns every world (one per decision script). complete=false: budget exhausted.
// aliasFromFacts: atoms a world decided to be the same string share a placeholder.
func aliasFromFacts(facts map[string]int) map[int]int {
	alias := map[int]int{}
	find := func(x int) int {
		for alias[x] != 0 && alias[x] != x {
			x = alias[x]
		}
		return x
	}
	for k, v := range facts {
		if v != 1 || !strings.HasPrefix(k, "streq:") {
			continue
		}
		var a, b int
		if n, _ := fmt.Sscanf(k, "streq:\x00%d|\x00==\x00%d|\x00", &a, &b); n == 2 {
			ra, rb := find(a), find(b)
			if ra != rb {
				if ra > rb {
					ra, rb = rb, ra
				}
				alias[rb] = ra
				alias[ra] = ra
			}
		}
	}
	out := map[int]int{}
	for x := range alias {
		out[x] = find(x)
	}
	return out
}

// RunOpt carries optional settings of an abstract run.
type RunOpt struct {
	ForkStringEquality bool
}

func Run(p *core.Program, cfg gen.Config, root *Spec, budget int, facts map[string]int) (worlds []*World, complete bool) {
	return RunWith(p, cfg, root, budget, facts, RunOpt{})
}

func RunWith(p *core.Program, cfg gen.Config, root *Spec, budget int, facts map[string]int, opt RunOpt) (worlds []*World, complete bool) {
	type out struct {
		spec   *Spec
		files  map[string]absint.Str
		genErr string
		warn   []string
		cells  map[int]Cell
	}
	runs, complete := absint.Explore(p, budget, func(m *absint.Machine) {
		gen.InstallStubs(m)
		for k, v := range facts {
			m.Facts[k] = v
		}
		m.ForkStringEquality = opt.ForkStringEquality
		m.FactPrefixDefault = map[string]int{}
		// identifiers are assumed different from the generator's reserved literals
		for _, r := range ReservedIdents {
			m.FactPrefixDefault["=="+r] = 0
		}
	}, func(m *absint.Machine) any {
		g := gen.New(m)
		o := &out{spec: root.Clone()}
		sch := Build(g, o.spec)
		G := g.NewGenerator(cfg)
		errv := g.AddFile(G, "schema.json", sch)
		if !absint.IsNilValue(errv) {
			o.genErr = "error"
			if iv, ok := errv.(absint.Iface); ok {
				if ev, ok := iv.V.(absint.ErrVal); ok {
					o.genErr = ev.Msg.Debug()
				}
			}
			return o
		}
		o.files = g.Sources(G)
		for _, w := range m.Warnings {
			o.warn = append(o.warn, w.Debug())
		}
		o.cells = collectCells(m, o.spec)
		return o
	})
	for _, r := range runs {
		w := &World{Cfg: cfg, Script: r.Script, Forks: r.Forks, Err: r.Err, Events: r.Events, Assume: r.Assumptions, Ext: r.Externals, Steps: r.Steps, Facts: map[string]int{}}
		for i, f := range r.Forks {
			if i < len(r.Script) {
				w.Facts[f.Key] = r.Script[i]
			}
		}
		if o, ok := r.Out.(*out); ok && o != nil {
			w.Spec, w.GenErr, w.Warnings, w.Cells = o.spec, o.genErr, o.warn, o.cells
			w.Files = map[string]*skel.File{}
			w.Models = map[string]*FileModel{}
			alias := aliasFromFacts(w.Facts)
			for name, s := range o.files {
				f := skel.Parse(skel.RenderAlias(s, alias))
				w.Files[name] = f
				if f.Err == nil {
					w.Models[name] = Model(f)
				}
			}
		} else {
			w.Spec = root.Clone()
		}
		worlds = append(worlds, w)
	}
	return worlds, complete
}

// ---- model of an emitted file -------------------------------------------------------------

type Field struct {
	Name    string
	Type    string
	Tags    map[string]string // tag key -> value
	RawTag  string
	Comment string
	Line    int
}

type Struct struct {
	Name   string
	Fields []*Field
	Line   int
}

type TypeDecl struct {
	Name  string
	Alias bool   // type A = B: methods and fields are B's
	Type  string // printed type expression
	Line  int
}

type FileModel struct {
	F       *skel.File
	Package string
	Imports []string // path (alias)
	Structs map[string]*Struct
	Types   map[string]*TypeDecl
	Methods map[string]*skel.Method // "Recv.Name"
	Funcs   []string
	Vars    map[string]string // name -> printed value
	Consts  map[string][2]string
	Decls   []string // kind:name in order
	holeBy  map[string]*absint.Hole
}

func exprString(fset *token.FileSet, n ast.Node) string { return skel.ExprString(fset, n) }

// Model extracts declarations from a parsed emitted file.
func Model(f *skel.File) *FileModel {
	m := &FileModel{F: f, Package: f.AST.Name.Name, Structs: map[string]*Struct{}, Types: map[string]*TypeDecl{}, Methods: map[string]*skel.Method{},
		Vars: map[string]string{}, Consts: map[string][2]string{}, holeBy: map[string]*absint.Hole{}}
	for i := range f.R.Spans {
		sp := f.R.Spans[i]
		m.holeBy[sp.Text] = sp.Hole
	}
	fset := f.Fset
	for _, im := range f.AST.Imports {
		s, _ := strconv.Unquote(im.Path.Value)
		if im.Name != nil {
			s += " (" + im.Name.Name + ")"
		}
		m.Imports = append(m.Imports, s)
	}
	for _, d := range f.AST.Decls {
		switch x := d.(type) {
		case *ast.GenDecl:
			for _, sp := range x.Specs {
				switch s := sp.(type) {
				case *ast.TypeSpec:
					td := &TypeDecl{Name: s.Name.Name, Type: exprString(fset, s.Type), Line: fset.Position(s.Pos()).Line, Alias: s.Assign.IsValid()}
					m.Types[td.Name] = td
					m.Decls = append(m.Decls, "type:"+td.Name)
					if st, ok := s.Type.(*ast.StructType); ok {
						S := &Struct{Name: s.Name.Name, Line: td.Line}
						for _, fl := range st.Fields.List {
							tag := ""
							if fl.Tag != nil {
								tag, _ = strconv.Unquote(fl.Tag.Value)
							}
							cm := ""
							if fl.Doc != nil {
								cm = fl.Doc.Text()
							}
							names := fl.Names
							if len(names) == 0 {
								names = []*ast.Ident{{Name: exprString(fset, fl.Type)}}
							}
							for _, n := range names {
								F := &Field{Name: n.Name, Type: exprString(fset, fl.Type), RawTag: tag, Tags: map[string]string{}, Comment: cm, Line: fset.Position(fl.Pos()).Line}
								st := reflect.StructTag(tag)
								for _, k := range []string{"json", "yaml", "mapstructure", "toml", "xml", "custom"} {
									if v, ok := st.Lookup(k); ok {
										F.Tags[k] = v
									}
								}
								S.Fields = append(S.Fields, F)
							}
						}
						m.Structs[S.Name] = S
					}
				case *ast.ValueSpec:
					for i, n := range s.Names {
						val := ""
						if i < len(s.Values) {
							val = exprString(fset, s.Values[i])
						}
						if x.Tok == token.CONST {
							m.Consts[n.Name] = [2]string{exprString(fset, s.Type), val}
							m.Decls = append(m.Decls, "const:"+n.Name)
						} else {
							m.Vars[n.Name] = val
							m.Decls = append(m.Decls, "var:"+n.Name)
						}
					}
				}
			}
		case *ast.FuncDecl:
			if x.Recv != nil {
				mm := skel.AnalyseMethod(fset, x)
				m.Methods[mm.Recv+"."+mm.Name] = mm
				m.Decls = append(m.Decls, "method:"+mm.Recv+"."+mm.Name)
			} else {
				m.Funcs = append(m.Funcs, x.Name.Name)
				m.Decls = append(m.Decls, "func:"+x.Name.Name)
			}
		}
	}
	sort.Strings(m.Imports)
	return m
}

// Resolve follows alias declarations (type A = B) to the declared type that carries the methods.
func (m *FileModel) Resolve(name string) string {
	for i := 0; i < 8; i++ {
		td := m.Types[name]
		if td == nil || !td.Alias {
			return name
		}
		name = td.Type
	}
	return name
}

// HoleOf maps placeholder text back to the hole that produced it.
func (m *FileModel) HoleOf(text string) *absint.Hole {
	text = strings.Trim(text, "\"`")
	return m.holeBy[text]
}

// AtomText is the placeholder text of an untransformed atom.
func AtomText(a *absint.Atom, tr ...string) string {
	return skel.Placeholder(&absint.Hole{A: a, Tr: tr})
}

// FindField finds the struct and field whose json (or first configured) tag names the raw property atom.
func (m *FileModel) FindField(name *absint.Atom, tagKey string) (*Struct, *Field) {
	return m.FindFieldText(AtomText(name), tagKey)
}

// FindFieldText is FindField for a given tag text.
func (m *FileModel) FindFieldText(want, tagKey string) (*Struct, *Field) {
	var names []string
	for n := range m.Structs {
		names = append(names, n)
	}
	sort.Strings(names)
	for _, n := range names {
		S := m.Structs[n]
		for _, f := range S.Fields {
			v := f.Tags[tagKey]
			if i := strings.IndexByte(v, ','); i >= 0 {
				v = v[:i]
			}
			if v == want {
				return S, f
			}
		}
	}
	return nil, nil
}

func (w *World) Describe() string {
	return fmt.Sprintf("%s under %s world%v", w.Spec.String(), CfgString(w.Cfg), w.Script)
}

func CfgString(c gen.Config) string {
	var parts []string
	if c.ExtraImports {
		parts = append(parts, "extra-imports")
	}
	if c.OnlyModels {
		parts = append(parts, "only-models")
	}
	if c.MinSizedInts {
		parts = append(parts, "min-sized-ints")
	}
	if c.StructNameFromTitle {
		parts = append(parts, "struct-name-from-title")
	}
	parts = append(parts, "tags="+strings.Join(c.Tags, "+"))
	if len(c.Capitalizations) > 0 {
		parts = append(parts, "caps="+strings.Join(c.Capitalizations, "+"))
	}
	return "[" + strings.Join(parts, " ") + "]"
}

// Underlying follows declared non-struct types to their type expression.
func (m *FileModel) Underlying(t string) string {
	for i := 0; i < 8; i++ {
		td := m.Types[t]
		if td == nil || m.Structs[t] != nil {
			return t
		}
		t = td.Type
	}
	return t
}

// StructsWithField lists the structs having a field tagged with the raw property name.
func (m *FileModel) StructsWithField(name *absint.Atom, tagKey string) []*Struct {
	want := AtomText(name)
	var names []string
	for n := range m.Structs {
		names = append(names, n)
	}
	sort.Strings(names)
	var out []*Struct
	for _, n := range names {
		if m.Structs[n].FieldByTag(want, tagKey) != nil {
			out = append(out, m.Structs[n])
		}
	}
	return out
}

// FieldByTag finds the field whose tag names `want`.
func (s *Struct) FieldByTag(want, tagKey string) *Field {
	for _, f := range s.Fields {
		v := f.Tags[tagKey]
		if i := strings.IndexByte(v, ','); i >= 0 {
			v = v[:i]
		}
		if v == want {
			return f
		}
	}
	return nil
}

// MultiWorld is one abstract run over several schema files.
type MultiWorld struct {
	World
	Specs []*FileSpec
	Loads []string
}

// RunMulti generates the files `args` (in that order) in one generator run; other files are only reachable through $ref.
func RunMulti(p *core.Program, cfg gen.Config, files []*FileSpec, args []string, budget int) (worlds []*MultiWorld, complete bool) {
	type out struct {
		specs  []*FileSpec
		files  map[string]absint.Str
		genErr string
		loads  []string
	}
	runs, complete := absint.Explore(p, budget, func(m *absint.Machine) {
		gen.InstallStubs(m)
		m.FactPrefixDefault = map[string]int{}
		for _, r := range ReservedIdents {
			m.FactPrefixDefault["=="+r] = 0
		}
	}, func(m *absint.Machine) any {
		g := gen.New(m)
		o := &out{}
		for _, f := range files {
			o.specs = append(o.specs, &FileSpec{Name: f.Name, ID: f.ID, Root: f.Root.Clone(), NoRoot: f.NoRoot})
		}
		schemas := BuildFiles(g, o.specs)
		g.StubLoader(schemas)
		G := g.NewGenerator(cfg)
		for _, a := range args {
			errv := g.AddFile(G, a, schemas[a])
			if !absint.IsNilValue(errv) {
				o.genErr = "error"
				if iv, ok := errv.(absint.Iface); ok {
					if ev, ok := iv.V.(absint.ErrVal); ok {
						o.genErr = ev.Msg.Debug()
					}
				}
				return o
			}
		}
		o.files = g.Sources(G)
		o.loads = g.Loads
		return o
	})
	for _, r := range runs {
		w := &MultiWorld{}
		w.Cfg, w.Script, w.Forks, w.Err, w.Events, w.Assume, w.Ext, w.Steps = cfg, r.Script, r.Forks, r.Err, r.Events, r.Assumptions, r.Externals, r.Steps
		w.Facts = map[string]int{}
		for i, f := range r.Forks {
			if i < len(r.Script) {
				w.Facts[f.Key] = r.Script[i]
			}
		}
		if o, ok := r.Out.(*out); ok && o != nil {
			w.Specs, w.GenErr, w.Loads = o.specs, o.genErr, o.loads
			w.Files = map[string]*skel.File{}
			w.Models = map[string]*FileModel{}
			alias := aliasFromFacts(w.Facts)
			fset := token.NewFileSet()
			for name, s := range o.files {
				f := skel.ParseInto(fset, name, skel.RenderAlias(s, alias))
				w.Files[name] = f
				if f.Err == nil {
					w.Models[name] = Model(f)
				}
			}
			if len(o.specs) > 0 {
				w.Spec = o.specs[0].Root
			}
		}
		worlds = append(worlds, w)
	}
	return worlds, complete
}

// TypeCheckAll type-checks all emitted files of a run together: the files of one package as one package, packages that
// import other generated packages after those and against them (the emitted packages must build together).
func (w *MultiWorld) TypeCheckAll(repo string, pkgOfFile map[string]string) []Issue {
	var out []Issue
	done := map[string]*types.Package{}
	groups := map[string][]string{} // package path -> file names
	for n, f := range w.Files {
		if f.Err == nil {
			groups[pkgOfFile[n]] = append(groups[pkgOfFile[n]], n)
		}
	}
	var paths []string
	for p := range groups {
		paths = append(paths, p)
	}
	sort.Strings(paths)
	pending := map[string]bool{}
	for _, p := range paths {
		pending[p] = true
	}
	for round := 0; round < 6 && len(pending) > 0; round++ {
		for _, p := range paths {
			if !pending[p] {
				continue
			}
			names := groups[p]
			sort.Strings(names)
			ready := true
			var fs []*skel.File
			for _, n := range names {
				f := w.Files[n]
				fs = append(fs, f)
				for _, im := range f.AST.Imports {
					ip := strings.Trim(im.Path.Value, "\"")
					if _, gen := groups[ip]; gen && ip != p && done[ip] == nil {
						ready = false
					}
				}
			}
			if !ready && round < 5 {
				continue
			}
			delete(pending, p)
			errs, pkg, _, err := skel.TypeCheckFiles(repo, fs, done)
			if err != nil {
				out = append(out, Issue{Rule: "A-UNDECIDED", Construct: "type-check environment", Msg: err.Error()})
				continue
			}
			if pkg != nil {
				done[p] = pkg
			}
			seen := map[string]bool{}
			for _, e := range errs {
				if strings.HasPrefix(strings.TrimSpace(e.Msg), "other declaration of") {
					continue
				}
				k := e.Msg
				for _, f := range fs {
					k = skel.NormalizeTypeError(k, f.R)
				}
				k = normIdents(k, &w.World)
				if seen[k] {
					continue
				}
				seen[k] = true
				out = append(out, Issue{Rule: "A-TYP", Construct: k, Msg: fmt.Sprintf("package %s (files %v) does not type-check when all emitted packages are taken together: %s (line %d: %s)", p, names, e.Msg, e.Line, e.Text)})
			}
		}
	}
	return out
}
