package fam

import (
	"fmt"
	"math"
	"regexp"
	"sort"
	"strings"

	"verif/checker/internal/absint"
	"verif/checker/internal/skel"
)

// Issue is a discrepancy between an emitted skeleton and the oracle.
type Issue struct {
	Rule      string // A-REJ(minLength), A-NOEXTRA, A-NILG, A-MAP, ...
	Construct string // position-free description (keyword / shape), used in finding keys
	Msg       string
	Site      string // formatting site of the offending hole, if any
}

// Exp is one expected reject branch in normalised form.
type Exp struct {
	Kw    string // keyword it enforces
	Kind  string // cmp, pattern, multipleOf, null
	Op    string
	Atom  *absint.Atom
	Depth int  // number of enclosing range loops
	Len   bool // a length measure is applied
	Chars bool // the length must count characters
	// Optional: the Go type chosen under --min-sized-ints already implies this bound in this world; the check may be dropped
	Optional bool
	// NeedNilGuard: the measured value is a slice that is nil for an absent or null property; the check must be guarded by != nil
	NeedNilGuard bool
}

func (e Exp) key() string {
	id := 0
	if e.Atom != nil {
		id = e.Atom.ID
	}
	return fmt.Sprintf("%s|%s|a%d|d%d|len=%v", e.Kind, e.Op, id, e.Depth, e.Len)
}

// normBounds is the specification of bound normalisation: intersection of the
// stated bounds; the tighter wins; exclusive wins a tie; the boolean form
// modifies minimum/maximum. rel is the relation (−1,0,1) of the numeric
// exclusive bound to the inclusive one as decided in this world (2 = unknown).
func normSide(hasIncl bool, incl *absint.Atom, ex string, exAtom *absint.Atom, rel int, lower bool) (*absint.Atom, bool) {
	switch ex {
	case "":
		if hasIncl {
			return incl, false
		}
	case "true", "false":
		if hasIncl {
			return incl, ex == "true"
		}
	case "num":
		if !hasIncl {
			return exAtom, true
		}
		tighter := rel
		if !lower {
			tighter = -rel
		}
		if tighter >= 0 && rel != 2 {
			return exAtom, true
		}
		return incl, false
	}
	return nil, false
}

func (w *World) rel(a, b *absint.Atom) int {
	if a == nil || b == nil {
		return 2
	}
	x, y, flip := a, b, 1
	if x.ID > y.ID {
		x, y, flip = b, a, -1
	}
	ch, ok := w.Facts[fmt.Sprintf("ord:%d:%d", x.ID, y.ID)]
	if !ok {
		return 2
	}
	return []int{-1, 0, 1}[ch] * flip
}

// ExpectedRejects lists the reject branches the schema node demands on the
// value it describes (not counting required/enum/anyOf, which are checked apart).
func (w *World) ExpectedRejects(s *Spec) []Exp {
	var out []Exp
	switch s.Kind {
	case "string":
		if s.Format != "" {
			return nil // formatted strings are decoded by their own types; length/pattern are not attached
		}
		if s.Has("minLength") {
			out = append(out, Exp{Kw: "minLength", Kind: "cmp", Op: "<", Atom: s.Atoms["minLength"], Len: true, Chars: true})
		}
		if s.Has("maxLength") {
			out = append(out, Exp{Kw: "maxLength", Kind: "cmp", Op: ">", Atom: s.Atoms["maxLength"], Len: true, Chars: true})
		}
		if s.Has("pattern") {
			e := Exp{Kw: "pattern", Kind: "pattern", Atom: s.Atoms["pattern"]}
			// a world in which the generator found the pattern's text equal to a constant: the check may be dropped only if that
			// text matches every string (decided negatively by probes: one refused probe proves the check is needed)
			for k, v := range w.Facts {
				if id, lit, ok := absint.ConstPairOf(k, func(id int) bool { return id == e.Atom.ID }); ok && v == 1 && id == e.Atom.ID {
					if re, err := regexp.Compile(lit); err == nil {
						universal := true
						for _, probe := range []string{"", "a", " ", "a\nb", "\n", "\r\n", "\u00e9", "\x00", "A9_-", strings.Repeat("xy", 40)} {
							if !re.MatchString(probe) {
								universal = false
							}
						}
						e.Optional = universal
						e.Kw = fmt.Sprintf("pattern (whose text the generator found equal to %q)", lit)
					}
				}
			}
			out = append(out, e)
		}
		for _, kw := range s.Twice {
			switch kw {
			case "minLength":
				out = append(out, Exp{Kw: "minLength (second allOf branch)", Kind: "cmp", Op: "<", Atom: s.Atoms["minLength#2"], Len: true, Chars: true})
			case "maxLength":
				out = append(out, Exp{Kw: "maxLength (second allOf branch)", Kind: "cmp", Op: ">", Atom: s.Atoms["maxLength#2"], Len: true, Chars: true})
			}
		}
	case "integer", "number":
		lo, loEx := normSide(s.Has("minimum"), s.Atoms["minimum"], s.EMin, s.Atoms["exclusiveMinimum"], w.rel(s.Atoms["exclusiveMinimum"], s.Atoms["minimum"]), true)
		hi, hiEx := normSide(s.Has("maximum"), s.Atoms["maximum"], s.EMax, s.Atoms["exclusiveMaximum"], w.rel(s.Atoms["exclusiveMaximum"], s.Atoms["maximum"]), false)
		if lo != nil {
			op := "<"
			if loEx {
				op = "<="
			}
			out = append(out, Exp{Kw: "lower bound", Kind: "cmp", Op: op, Atom: lo})
		}
		if hi != nil {
			op := ">"
			if hiEx {
				op = ">="
			}
			out = append(out, Exp{Kw: "upper bound", Kind: "cmp", Op: op, Atom: hi})
		}
		if s.Has("multipleOf") {
			out = append(out, Exp{Kw: "multipleOf", Kind: "multipleOf", Atom: s.Atoms["multipleOf"]})
		}
	case "null":
		out = append(out, Exp{Kw: "type null", Kind: "null", Op: "!="})
	case "array":
		d := 0
		for a := s; a != nil && a.Kind == "array"; a = a.Items {
			if a.Has("minItems") {
				out = append(out, Exp{Kw: fmt.Sprintf("minItems@%d", d+1), Kind: "cmp", Op: "<", Atom: a.Atoms["minItems"], Depth: d, Len: true})
			}
			if a.Has("maxItems") {
				out = append(out, Exp{Kw: fmt.Sprintf("maxItems@%d", d+1), Kind: "cmp", Op: ">", Atom: a.Atoms["maxItems"], Depth: d, Len: true})
			}
			d++
			if a.Items != nil && a.Items.Kind == "null" {
				out = append(out, Exp{Kw: fmt.Sprintf("items null@%d", d), Kind: "null", Op: "!=", Depth: d})
			}
		}
	}
	return out
}

// atomOfBound maps the printed bound of a reject back to its atom.
func (fm *FileModel) atomOfBound(bound string) (*absint.Atom, *absint.Hole) {
	h := fm.HoleOf(bound)
	if h == nil {
		return nil, nil
	}
	return h.A, h
}

// CompareRejects compares the reject branches found on `field` in method m
// with the expected ones. isPtr tells whether the Go field is a pointer.
func (fm *FileModel) CompareRejects(w *World, m *skel.Method, field string, exp []Exp, isPtr bool, what string) []Issue {
	var issues []Issue
	type act struct {
		r    skel.Reject
		atom *absint.Atom
		hole *absint.Hole
		used bool
	}
	var acts []*act
	for _, r := range m.Rejects {
		switch r.Kind {
		case "cmp", "pattern", "multipleOf", "null":
		default:
			continue
		}
		if r.Field != field {
			continue
		}
		a, h := fm.atomOfBound(r.Bound)
		acts = append(acts, &act{r: r, atom: a, hole: h})
	}
	// independent of the oracle: a check inside range loops must measure the value indexed by exactly
	// those loop variables, each loop ranging over the value one level up
	for _, a := range acts {
		r := a.r
		if field == "" || len(r.Loops) == 0 {
			continue
		}
		prefix := "plain." + field
		okSubj := true
		for _, l := range r.Loops {
			if l.Over != prefix {
				okSubj = false
			}
			prefix += "[" + l.Var + "]"
		}
		if r.Subject != prefix {
			okSubj = false
		}
		if !okSubj {
			issues = append(issues, Issue{Rule: "A-REJ", Construct: fmt.Sprintf("nested check does not measure the element selected by its %d enclosing loop(s)", len(r.Loops)),
				Msg: fmt.Sprintf("%s: `%s` sits inside loops %v but measures %s (expected %s): a different array than the one being iterated is checked (or indexed out of range)", what, r.Cond, r.Loops, r.Subject, prefix)})
		}
	}
	for _, e := range exp {
		var hit *act
		for _, a := range acts {
			if a.used || a.r.Kind != e.Kind {
				continue
			}
			if e.Atom != nil && !w.sameAtom(a.atom, e.Atom) {
				continue
			}
			if e.Kind == "null" && len(a.r.Loops) != e.Depth {
				continue
			}
			hit = a
			break
		}
		if hit == nil && e.Optional {
			continue
		}
		if hit == nil {
			// is there a branch of that kind with another atom / nothing at all?
			msg := fmt.Sprintf("%s: the schema states %s but %s.%s has no branch rejecting on it", what, e.Kw, m.Recv, m.Name)
			for _, a := range acts {
				if !a.used && a.r.Kind == e.Kind && e.Kind == "cmp" && a.r.Op == e.Op && len(a.r.Loops) == e.Depth && (a.r.Len != "") == e.Len {
					other := "another value"
					if a.atom != nil {
						other = "the value of " + a.atom.Name
					}
					msg = fmt.Sprintf("%s: the check for %s compares with %s instead of the limit stated for it (condition `%s`)", what, e.Kw, other, a.r.Cond)
					a.used = true
					break
				}
			}
			issues = append(issues, Issue{Rule: "A-REJ", Construct: "missing or misdirected check for " + e.Kw, Msg: msg})
			continue
		}
		hit.used = true
		r := hit.r
		roundedOK := false
		if e.Kind == "cmp" {
			// a limit that was rounded before it was printed (integer fields): for a fractional limit b the reject set of
			// "value < b" and of "value <= b" is the same, value < ceil(b) = value <= floor(b); symmetrically for the upper side.
			// So a rounded limit is exact iff its direction and the operator pair up that way, whatever the exclusivity.
			if dir := w.roundingOf(hit.hole); dir != "" {
				want := map[string]string{"ceil<": "<", "floor<": "<=", "floor>": ">", "ceil>": ">="}[dir+e.Op[:1]]
				switch {
				case want != "" && r.Op == want:
					roundedOK = true
				case want != "":
					issues = append(issues, Issue{Rule: "A-REJ:lossy", Construct: fmt.Sprintf("bound rounded with %s and compared with %s for %s", dir, r.Op, e.Kw), Site: siteOf(hit.hole),
						Msg: fmt.Sprintf("%s: the fractional limit of %s is rounded with %s and the value is rejected when value %s rounded limit (`%s`); with that rounding only %s rejects exactly the values the schema rejects", what, e.Kw, dir, r.Op, r.Cond, want)})
					if rejectsMore(r.Op, want) {
						issues = append(issues, Issue{Rule: "A-OVERREJ", Construct: fmt.Sprintf("bound rounded with %s and compared with %s for %s", dir, r.Op, e.Kw), Site: siteOf(hit.hole),
							Msg: fmt.Sprintf("%s: `%s` rejects the integer equal to the rounded limit of %s although the schema admits it (rounded with %s, so only %s is exact)", what, r.Cond, e.Kw, dir, want)})
					}
					roundedOK = true
				}
			}
			if r.Op != e.Op && !roundedOK {
				issues = append(issues, Issue{Rule: "A-REJ", Construct: "operator for " + e.Kw, Msg: fmt.Sprintf("%s: %s must reject when value %s limit, but the emitted condition `%s` rejects when value %s limit", what, e.Kw, e.Op, r.Cond, r.Op)})
				if rejectsMore(r.Op, e.Op) {
					issues = append(issues, Issue{Rule: "A-OVERREJ", Construct: "operator for " + e.Kw, Msg: fmt.Sprintf("%s: the schema rejects only when value %s limit of %s, but `%s` rejects when value %s limit: valid documents are refused", what, e.Op, e.Kw, r.Cond, r.Op)})
				}
			}
			if (r.Len != "") != e.Len {
				issues = append(issues, Issue{Rule: "A-REJ", Construct: "measure for " + e.Kw, Msg: fmt.Sprintf("%s: %s compares %s, expected a length=%v comparison (`%s`)", what, e.Kw, r.Subject, e.Len, r.Cond)})
			}
			if e.Chars && r.Len == "len" {
				issues = append(issues, Issue{Rule: "A-REJ:chars", Construct: "length measure for " + e.Kw, Site: siteOf(hit.hole),
					Msg: fmt.Sprintf("%s: %s is compared with len(x), the number of bytes; the schema counts characters, so a string with multi-byte characters is measured too long (`%s`)", what, e.Kw, r.Cond)})
			}
			if len(r.Loops) != e.Depth {
				issues = append(issues, Issue{Rule: "A-REJ", Construct: "nesting for " + e.Kw, Msg: fmt.Sprintf("%s: the check for %s sits inside %d range loop(s), expected %d (`%s`)", what, e.Kw, len(r.Loops), e.Depth, r.Cond)})
			}
		}
		if e.Kind == "pattern" && r.DropsErr {
			issues = append(issues, Issue{Rule: "A-ERRDROP2", Construct: "pattern matcher error discarded", Site: siteOf(hit.hole),
				Msg: fmt.Sprintf("%s: `%s` discards the error of %s: a pattern Go's regexp cannot compile makes every value fail validation instead of failing generation", what, r.Init, r.Call)})
		}
		if hit.hole != nil {
			for _, t := range hit.hole.Tr {
				if strings.HasPrefix(t, "narrow-") {
					issues = append(issues, Issue{Rule: "A-REJ:lossy", Construct: "limit passed through a narrowing integer conversion for " + strings.SplitN(e.Kw, "@", 2)[0], Site: siteOf(hit.hole),
						Msg: fmt.Sprintf("%s: the limit of %s is converted to %s before it is printed (`%s`): a limit beyond that type's range wraps around (2^31 becomes negative, 2^32 becomes 0), so valid values are refused or the limit is dropped", what, e.Kw, strings.TrimPrefix(t, "narrow-"), r.Cond)})
					break
				}
			}
		}
		// lossy transform on the bound
		if hit.hole != nil && !roundedOK && !w.decidedIntegral(hit.hole.A) {
			for _, t := range hit.hole.Tr {
				if t == "round" || t == "trunc" {
					issues = append(issues, Issue{Rule: "A-REJ:lossy", Construct: "bound passed through math." + t + " for " + e.Kw, Site: siteOf(hit.hole),
						Msg: fmt.Sprintf("%s: the limit of %s passes through %s before it is printed: no single operator is exact for every fractional limit", what, e.Kw, t)})
					break
				}
				if strings.HasPrefix(t, "trunc-") && hit.hole.A.Facts["integral"] != "yes" && e.Kind == "cmp" && strings.HasSuffix(e.Op, "=") {
					// toward zero is upward for a negative limit and downward for a positive one: an exclusive lower bound -2.5 becomes
					// "-2 >= value", which refuses the admitted -2 (and an exclusive upper bound 2.5 refuses 2)
					issues = append(issues, Issue{Rule: "A-OVERREJ", Construct: "exclusive bound truncated toward zero for " + e.Kw, Site: siteOf(hit.hole),
						Msg: fmt.Sprintf("%s: the exclusive fractional limit of %s is converted with %s and compared with %s (`%s`): on the side of zero the truncated limit itself is admitted by the schema but refused by the check", what, e.Kw, strings.TrimPrefix(t, "trunc-"), r.Op, r.Cond)})
				}
				if strings.HasPrefix(t, "trunc-") && hit.hole.A.Facts["integral"] != "yes" {
					issues = append(issues, Issue{Rule: "A-REJ:lossy", Construct: "bound truncated to integer for " + e.Kw, Site: siteOf(hit.hole),
						Msg: fmt.Sprintf("%s: the limit of %s is converted with %s before it is printed: a fractional limit on an integer is truncated (e.g. exclusiveMaximum 2.5 rejects 2; multipleOf 0.5 becomes %% 0)", what, e.Kw, strings.TrimPrefix(t, "trunc-"))})
				}
			}
		}
		if e.NeedNilGuard && !isPtr && !r.NilGuard {
			issues = append(issues, Issue{Rule: "A-NILG", Construct: "nil slice measured against a lower length limit (" + strings.SplitN(e.Kw, "@", 2)[0] + ")",
				Msg: fmt.Sprintf("%s: `%s` is not guarded by a != nil test: an absent or null array (a nil slice, length 0) is rejected by %s although only a present array is constrained", what, r.Cond, e.Kw)})
		}
		// nil discipline
		if e.Kind != "null" {
			if isPtr && !(r.Deref && r.NilGuard) {
				issues = append(issues, Issue{Rule: "A-NILG", Construct: "pointer field checked without nil guard (" + e.Kw + ")", Msg: fmt.Sprintf("%s: the field is a pointer but `%s` dereferences=%v nil-guarded=%v: an absent or null value panics or is checked", what, r.Cond, r.Deref, r.NilGuard)})
			}
			if !isPtr && r.Deref {
				issues = append(issues, Issue{Rule: "A-REJ", Construct: "dereference of a non-pointer (" + e.Kw + ")", Msg: fmt.Sprintf("%s: `%s` dereferences a field that is not a pointer", what, r.Cond)})
			}
		}
	}
	for _, a := range acts {
		if !a.used {
			name := "a literal"
			if a.atom != nil {
				name = a.atom.Name
			}
			where := ""
			if field == "" && len(a.r.Loops) > 0 {
				// (the unmarshaler of a DECLARED array type measuring its inner arrays: the listed nested-array finding is about
				// struct fields, whose text the goldens pin; a declared type has no inner checks on the pinned tree)
				where = " in the unmarshaler of a declared array type"
			}
			issues = append(issues, Issue{Rule: "A-NOEXTRA", Construct: fmt.Sprintf("reject branch without a stated constraint (%s %s against %s, loop depth %d)%s", a.r.Kind, a.r.Op, name, len(a.r.Loops), where),
				Msg: fmt.Sprintf("%s: %s.%s rejects on `%s` (against %s) although the schema states no such constraint there: valid documents are refused", what, m.Recv, m.Name, a.r.Cond, name)})
		}
	}
	return issues
}

// rejectsMore: a check that rejects when "value got limit" refuses values that "value want limit" admits.
func rejectsMore(got, want string) bool {
	if got == want || got == "" || want == "" {
		return false
	}
	if got[:1] != want[:1] {
		return true // other direction
	}
	return strings.HasSuffix(got, "=") && !strings.HasSuffix(want, "=")
}

// decidedIntegral: this world decided that the symbolic number is an integer (every rounding is then the identity).
func (w *World) decidedIntegral(a *absint.Atom) bool {
	if a == nil || w == nil {
		return false
	}
	if a.Kind == "PosInt" || a.Facts["integral"] == "yes" {
		return true
	}
	ch, ok := w.Facts[fmt.Sprintf("integral:%d", a.ID)]
	return ok && ch == 0
}

// roundingOf: the direction ("ceil"/"floor") in which a fractional limit was rounded before it was printed, "" if it was not
// rounded, was rounded toward zero or to nearest (no fixed direction), or is an integer in this world. Only the first
// rounding step counts: every later one sees an integer.
func (w *World) roundingOf(h *absint.Hole) string {
	if h == nil || w.decidedIntegral(h.A) {
		return ""
	}
	for _, t := range h.Tr {
		switch {
		case t == "ceil" || t == "floor":
			return t
		case t == "round" || t == "trunc" || strings.HasPrefix(t, "trunc-"):
			return ""
		}
	}
	return ""
}

// sameAtom: the same symbolic value, or two numbers this world decided to be equal.
func (w *World) sameAtom(a, b *absint.Atom) bool {
	if a == b {
		return true
	}
	if a == nil || b == nil || w == nil {
		return false
	}
	x, y := a.ID, b.ID
	if x > y {
		x, y = y, x
	}
	v, ok := w.Facts[fmt.Sprintf("ord:%d:%d", x, y)]
	return ok && v == 1
}

func siteOf(h *absint.Hole) string {
	if h == nil {
		return ""
	}
	return h.Site
}

// SortIssues orders issues deterministically.
func SortIssues(is []Issue) {
	sort.SliceStable(is, func(i, j int) bool {
		if is[i].Rule != is[j].Rule {
			return is[i].Rule < is[j].Rule
		}
		return is[i].Construct < is[j].Construct
	})
}

// ---- --min-sized-ints: a bound check may be dropped only where the type's range implies it ---------------------------

type sizedType struct {
	name     string
	min, max float64
}

var sizedTypes = []sizedType{
	{"int8", -128, 127}, {"int16", -32768, 32767}, {"int32", -2147483648, 2147483647}, {"int64", -9223372036854775808, 9223372036854775807}, {"int", -9223372036854775808, 9223372036854775807},
	{"uint8", 0, 255}, {"uint16", 0, 65535}, {"uint32", 0, 4294967295}, {"uint64", 0, 18446744073709551615},
}

const two63 = 9223372036854775808.0

// intCell is the closed integer interval of an integral atom's cell; ok=false when it is unbounded or beyond 64 bits.
func (w *World) intCell(a *absint.Atom) (lo, hi float64, ok bool) {
	c, have := w.Cells[a.ID]
	if !have {
		return 0, 0, false
	}
	lo, hi = c.Lo, c.Hi
	if lo != math.Floor(lo) {
		lo = math.Ceil(lo)
	} else if c.LoOpen {
		lo++
	}
	if hi != math.Floor(hi) {
		hi = math.Floor(hi)
	} else if c.HiOpen {
		hi--
	}
	if lo <= -two63 || hi >= two63 || lo > hi {
		return lo, hi, false
	}
	return lo, hi, true
}

// admCell is the range, over the atom's cell, of the least (lower=true) or greatest integer a bound with that limit admits.
// An integral limit b admits b itself (inclusive) or its neighbour (exclusive); a fractional limit admits ceil(b) upwards /
// floor(b) downwards whatever the exclusivity. ok=false: unbounded, beyond 64 bits, or no value of the stated kind in the cell.
func (w *World) admCell(a *absint.Atom, lower, excl bool) (lo, hi float64, ok bool) {
	if a.Facts["integral"] != "no" {
		lo, hi, ok = w.intCell(a)
		if ok && excl {
			if lower {
				lo, hi = lo+1, hi+1
			} else {
				lo, hi = lo-1, hi-1
			}
		}
		return lo, hi, ok
	}
	c, have := w.Cells[a.ID]
	if !have || math.IsInf(c.Lo, 0) || math.IsInf(c.Hi, 0) {
		return 0, 0, false
	}
	isInt := func(x float64) bool { return x == math.Floor(x) }
	if c.Lo == c.Hi && isInt(c.Lo) {
		return 0, 0, false
	}
	if lower {
		lo, hi = math.Ceil(c.Lo), math.Ceil(c.Hi)
		if isInt(c.Lo) {
			lo = c.Lo + 1
		}
	} else {
		lo, hi = math.Floor(c.Lo), math.Floor(c.Hi)
		if isInt(c.Hi) {
			hi = c.Hi - 1
		}
	}
	if lo <= -two63 || hi >= two63 || lo > hi {
		return lo, hi, false
	}
	return lo, hi, true
}

// SizedOracle decides, for an integer value under --min-sized-ints, which expected bound checks the chosen Go type makes
// redundant (marked Optional) and whether the type holds every admitted integer. skip=true: the world is outside the
// claim (bounds beyond 64 bits, non-integral bounds, contradictory order facts, empty admitted set).
func (w *World) SizedOracle(s *Spec, goType string, exp []Exp, what string) (out []Exp, issues []Issue, skip bool) {
	var T *sizedType
	for i := range sizedTypes {
		if sizedTypes[i].name == goType {
			T = &sizedTypes[i]
		}
	}
	if T == nil {
		return exp, []Issue{{Rule: "A-SIZED", Construct: "integer property without an integer Go type", Msg: fmt.Sprintf("%s: the Go type is %s", what, goType)}}, false
	}
	if T.name == "int" && len(exp) > 0 && s.Has("minimum") && s.Has("maximum") {
		// with the flag an integer bounded on both sides gets the narrowest intN/uintN that holds its range; the platform-sized int
		// is what the generator picks WITHOUT the flag, so the flag was not in effect when this integer was generated
		return exp, []Issue{{Rule: "A-SIZED", Construct: "bounded integer left as plain int under --min-sized-ints",
			Msg: fmt.Sprintf("%s: the flag is set and the integer is bounded on both sides, yet its Go type is the unsized int: the option was not in effect when this integer was generated (not the narrowest type)", what)}}, false
	}
	// order facts between an exclusive and an inclusive bound must agree with the cells
	for _, pr := range [][2]string{{"exclusiveMinimum", "minimum"}, {"exclusiveMaximum", "maximum"}} {
		a, b := s.Atoms[pr[0]], s.Atoms[pr[1]]
		if a == nil || b == nil {
			continue
		}
		al, ah, ok1 := w.intCell(a)
		bl, bh, ok2 := w.intCell(b)
		if !ok1 || !ok2 || a.Facts["integral"] != "yes" || b.Facts["integral"] != "yes" {
			return exp, nil, true
		}
		switch w.rel(a, b) {
		case -1:
			if al >= bh {
				return exp, nil, true
			}
		case 0:
			if ah < bl || bh < al {
				return exp, nil, true
			}
		case 1:
			if ah <= bl {
				return exp, nil, true
			}
		}
	}
	for _, a := range s.Atoms {
		if a != nil && a.Kind == "Float" && a.Facts["integral"] != "yes" && a.Facts["integral"] != "no" && a.Name != "multipleOf" && a.Name != "default" {
			return exp, nil, true
		}
	}
	var effLo, effHi = -two63, two63 - 1 // admitted integers (within 64 bits)
	hasLo, hasHi := false, false
	for i := range exp {
		e := &exp[i]
		if e.Kind != "cmp" || e.Atom == nil {
			continue
		}
		switch e.Kw {
		case "lower bound":
			hasLo = true
			excl := e.Op == "<="
			cl, ch, ok := w.admCell(e.Atom, true, excl)
			if !ok {
				return exp, nil, true
			}
			e.Optional = ch <= T.min
			effLo = cl
			if cl < T.min {
				issues = append(issues, Issue{Rule: "A-SIZED", Construct: "chosen type cannot hold the smallest admitted value",
					Msg: fmt.Sprintf("%s: the smallest admitted integer may be %v (exclusive=%v, fractional=%v) but %s starts at %v: admitted values cannot be decoded", what, cl, excl, e.Atom.Facts["integral"] == "no", T.name, T.min)})
			}
		case "upper bound":
			hasHi = true
			excl := e.Op == ">="
			cl, ch, ok := w.admCell(e.Atom, false, excl)
			if !ok {
				return exp, nil, true
			}
			e.Optional = cl >= T.max
			effHi = ch
			if ch > T.max {
				issues = append(issues, Issue{Rule: "A-SIZED", Construct: "chosen type cannot hold the largest admitted value",
					Msg: fmt.Sprintf("%s: the largest admitted integer may be %v (exclusive=%v, fractional=%v) but %s ends at %v: admitted values cannot be decoded", what, ch, excl, e.Atom.Facts["integral"] == "no", T.name, T.max)})
			}
		}
	}
	if !hasLo && T.min > -two63 {
		issues = append(issues, Issue{Rule: "A-SIZED", Construct: "no lower bound but the type is not int64", Msg: fmt.Sprintf("%s: every negative integer is admitted, the type is %s", what, T.name)})
	}
	if !hasHi && T.max < two63-1 {
		issues = append(issues, Issue{Rule: "A-SIZED", Construct: "no upper bound but the type is narrower than 64 bits", Msg: fmt.Sprintf("%s: arbitrarily large integers are admitted, the type is %s", what, T.name)})
	}
	if effLo > effHi {
		return exp, nil, true // nothing is admitted: both builds reject everything a check can see
	}
	return exp, issues, false
}
