package fam

import (
	"fmt"
	"go/ast"
	"go/token"
	"sort"
	"strings"

	"verif/checker/internal/skel"
)

// enumInfo is what the emitted code says about one enum type.
type enumInfo struct {
	Name     string
	Carrier  string   // declared type text
	VarType  string   // type of `var v` in UnmarshalJSON
	Wrapped  bool     // comparand is v.Value
	Elems    []string // literal kinds of the value table: string,int,float64,bool,nil
	ElemText []string
	Consts   map[string]string // constant name -> value text
	HasLoop  bool
	Marshal  bool
}

func litKind(e ast.Expr) string {
	switch x := e.(type) {
	case *ast.BasicLit:
		switch x.Kind {
		case token.INT:
			return "int"
		case token.FLOAT:
			return "float64"
		case token.STRING:
			return "string"
		}
	case *ast.Ident:
		switch x.Name {
		case "true", "false":
			return "bool"
		case "nil":
			return "nil"
		}
	case *ast.UnaryExpr:
		return litKind(x.X)
	}
	return "?"
}

func (fm *FileModel) enums() map[string]*enumInfo {
	out := map[string]*enumInfo{}
	fset := fm.F.Fset
	for _, d := range fm.F.AST.Decls {
		gd, ok := d.(*ast.GenDecl)
		if !ok || gd.Tok != token.VAR {
			continue
		}
		for _, sp := range gd.Specs {
			vs := sp.(*ast.ValueSpec)
			for i, n := range vs.Names {
				if !strings.HasPrefix(n.Name, "enumValues_") || i >= len(vs.Values) {
					continue
				}
				ei := &enumInfo{Name: strings.TrimPrefix(n.Name, "enumValues_"), Consts: map[string]string{}}
				if cl, ok := vs.Values[i].(*ast.CompositeLit); ok {
					for _, el := range cl.Elts {
						ei.Elems = append(ei.Elems, litKind(el))
						ei.ElemText = append(ei.ElemText, skel.ExprString(fset, el))
					}
				}
				out[ei.Name] = ei
			}
		}
	}
	for name, ei := range out {
		if td := fm.Types[name]; td != nil {
			ei.Carrier = strings.Join(strings.Fields(td.Type), " ")
		}
		if m := fm.Methods[name+".UnmarshalJSON"]; m != nil {
			ast.Inspect(m.Decl.Body, func(n ast.Node) bool {
				switch x := n.(type) {
				case *ast.DeclStmt:
					if gd, ok := x.Decl.(*ast.GenDecl); ok && gd.Tok == token.VAR {
						for _, sp := range gd.Specs {
							vs := sp.(*ast.ValueSpec)
							if len(vs.Names) == 1 && vs.Names[0].Name == "v" && vs.Type != nil {
								ei.VarType = strings.Join(strings.Fields(skel.ExprString(fset, vs.Type)), " ")
							}
						}
					}
				case *ast.CallExpr:
					if skel.ExprString(fset, x.Fun) == "reflect.DeepEqual" && len(x.Args) == 2 {
						ei.HasLoop = true
						ei.Wrapped = skel.ExprString(fset, x.Args[0]) == "v.Value"
					}
				}
				return true
			})
		}
		ei.Marshal = fm.Methods[name+".MarshalJSON"] != nil
		for cn, cv := range fm.Consts {
			if strings.TrimSpace(cv[0]) == name {
				ei.Consts[cn] = cv[1]
			}
		}
	}
	return out
}

// expectedCarrier is the oracle for the Go carrier of an enum spec.
func (w *World) expectedCarrier(s *Spec) (carrier string, wrapped bool) {
	if s.Enum == "strings+null" {
		// null is a listed value: the carrier must be able to hold it next to the strings
		return "struct { Value interface{} }", true
	}
	switch s.Kind {
	case "string":
		return "string", false
	case "integer":
		if w.Cfg.MinSizedInts {
			return "INT", false
		}
		return "int", false
	case "number":
		return "float64", false
	case "boolean":
		return "bool", false
	case "null":
		return "struct { Value interface{} }", true
	}
	switch s.Enum {
	case "strings":
		return "string", false
	case "numbers", "ints":
		return "float64", false
	case "bools":
		return "bool", false
	}
	return "struct { Value interface{} }", true
}

// EnumIssues checks every enum-typed property of the root object.
func (w *World) EnumIssues(fm *FileModel) []Issue {
	var out []Issue
	enums := fm.enums()
	var visit func(s *Spec, S *Struct, path string)
	check := func(s *Spec, typ, path string) {
		ft, _ := stripPtr(typ)
		for strings.HasPrefix(ft, "[]") {
			ft = ft[2:]
		}
		ei := enums[ft]
		what := path + " (" + specShape(s) + ")"
		if w.Cfg.OnlyModels {
			return
		}
		if ei == nil {
			which := specShape(s)
			if s.Ref != "" && s.Kind == "any" {
				which = "untyped enum behind a definition reference"
			}
			out = append(out, Issue{Rule: "A-ENUM", Construct: "enum without a value table: " + which, Msg: what + ": no enumValues_ table / unmarshaler exists for type " + ft})
			return
		}
		wantCarrier, wantWrapped := w.expectedCarrier(s)
		if !typeMatches(wantCarrier, ei.Carrier) {
			out = append(out, Issue{Rule: "A-ENUM", Construct: "carrier type of enum:" + s.Enum + " " + s.Kind, Msg: fmt.Sprintf("%s: enum type %s is declared as %s, expected %s", what, ft, ei.Carrier, wantCarrier)})
		}
		if ei.Wrapped != wantWrapped {
			out = append(out, Issue{Rule: "A-ENUM", Construct: "struct wrapping of enum:" + s.Enum, Msg: fmt.Sprintf("%s: wrapped=%v, expected %v", what, ei.Wrapped, wantWrapped)})
		}
		if !ei.HasLoop {
			out = append(out, Issue{Rule: "A-ENUM", Construct: "enum without membership loop", Msg: what + ": UnmarshalJSON of " + ft + " has no reflect.DeepEqual membership test"})
		}
		// number of listed values
		wantN := map[string]int{"strings": 2, "ints": 2, "numbers": 2, "bools": 2, "mixed": 4, "null": 1, "lookalike": 6, "collide": 3, "collide4": 4, "strings+null": 3}[s.Enum]
		if len(ei.Elems) != wantN {
			out = append(out, Issue{Rule: "A-ENUM", Construct: "value table does not list every enum value", Msg: fmt.Sprintf("%s: the schema lists %d values, the table %v has %d: a listed value is rejected (or an unlisted one accepted)", what, wantN, ei.ElemText, len(ei.Elems))})
		}
		// a listed value reaches the table through exact conversions only: a detour through a NARROWER integer type wraps values
		// beyond its range (the listed value is then refused and another one accepted)
		for i, txt := range ei.ElemText {
			if h := fm.HoleOf(txt); h != nil {
				for _, t := range h.Tr {
					for _, nt := range []string{"int8", "int16", "int32", "uint8", "uint16", "uint32"} {
						if t == "trunc-"+nt || t == "narrow-"+nt {
							out = append(out, Issue{Rule: "A-ENUM", Construct: "enum value converted through a narrower integer type (" + nt + ")", Msg: fmt.Sprintf("%s: element %d of the value table (%s) is the listed value converted through %s: a listed value beyond that type's range is stored as another number, so it is refused and an unlisted value accepted", what, i, txt, nt)})
						}
					}
				}
			}
		}
		// A-DYN: dynamic type of each table element vs the static type of the comparand
		for i, k := range ei.Elems {
			if ei.Wrapped {
				switch k {
				case "string", "float64", "bool", "nil":
				default:
					out = append(out, Issue{Rule: "A-DYN", Construct: "wrapped enum table element of a type the JSON decoder never produces (" + k + ")", Msg: fmt.Sprintf("%s: element %s of the table has dynamic type %s, but a value decoded into interface{} is string, float64, bool or nil: reflect.DeepEqual can never match it", what, ei.ElemText[i], k)})
				}
				continue
			}
			if k != ei.VarType {
				out = append(out, Issue{Rule: "A-DYN", Construct: fmt.Sprintf("table element type %s vs comparand type %s", k, normIntType(ei.VarType)), Msg: fmt.Sprintf("%s: the table element %s has dynamic type %s but the decoded comparand `v` has static type %s: reflect.DeepEqual is false for every value, so every document is rejected", what, ei.ElemText[i], k, ei.VarType)})
			}
		}
		// constants of string enums
		if wantCarrier == "string" && !wantWrapped {
			vals := map[string]bool{}
			for _, cv := range ei.Consts {
				vals[cv] = true
			}
			for i, k := range ei.Elems {
				if k == "string" && !vals[ei.ElemText[i]] {
					out = append(out, Issue{Rule: "A-ENUM", Construct: "string enum value without its typed constant", Msg: fmt.Sprintf("%s: no constant of type %s has the value %s", what, ft, ei.ElemText[i])})
				}
			}
			if len(ei.Consts) != len(ei.Elems) {
				out = append(out, Issue{Rule: "A-ENUM", Construct: "number of string enum constants", Msg: fmt.Sprintf("%s: %d constants for %d values", what, len(ei.Consts), len(ei.Elems))})
			}
		}
		if wantWrapped && !ei.Marshal {
			out = append(out, Issue{Rule: "A-ENUM", Construct: "wrapped enum without MarshalJSON", Msg: what + ": the value is wrapped in a struct but no MarshalJSON returns the bare value"})
		}
	}
	visit = func(s *Spec, S *Struct, path string) {
		for _, p := range s.Props {
			F := S.FieldByTag(p.Text(), w.tagKey())
			if F == nil {
				continue
			}
			e := p.Spec
			for e.Kind == "array" && e.Items != nil {
				e = e.Items
			}
			if e.Enum != "" {
				t := F.Type
				if ft, _ := stripPtr(t); fm.enumsHas(ft) {
					// the named enum type itself
				} else {
					t = fm.Underlying(ft)
				}
				check(e, t, path+"."+p.Label)
			}
		}
	}
	var names []string
	for n := range fm.Structs {
		names = append(names, n)
	}
	sort.Strings(names)
	for _, n := range names {
		if len(w.Spec.Props) > 0 && fm.Structs[n].FieldByTag(AtomText(w.Spec.Props[0].Name), w.tagKey()) != nil {
			visit(w.Spec, fm.Structs[n], "root")
		}
	}
	return out
}

func normIntType(t string) string {
	switch t {
	case "int8", "int16", "int32", "int64", "uint8", "uint16", "uint32", "uint64":
		return "a sized int"
	}
	return t
}

func (fm *FileModel) enumsHas(name string) bool {
	_, ok := fm.Vars["enumValues_"+name]
	return ok
}
