package fam

import (
	"fmt"
	"reflect"
	"regexp"
	"sort"
	"strings"

	"verif/checker/internal/skel"
)

// NormFile is an emitted file with placeholders replaced by atom names, so that
// two abstract runs (whose atom ids differ) can be compared.
type NormFile struct {
	Types   map[string]string // name -> type text (tags included)
	NoTags  map[string]string // name -> type text with struct tags removed
	Consts  map[string]string
	Vars    map[string]string
	Methods map[string]string // Recv.Name -> body text
	Funcs   []string
	Imports []string
}

func (m *FileModel) norm(s string) string {
	// longest placeholders first
	var keys []string
	for k := range m.holeBy {
		keys = append(keys, k)
	}
	sort.Slice(keys, func(i, j int) bool { return len(keys[i]) > len(keys[j]) })
	for _, k := range keys {
		if k == "" {
			continue
		}
		h := m.holeBy[k]
		s = strings.ReplaceAll(s, k, "<"+h.A.Name+strings.Join(relevantTr(h.Tr), "")+">")
	}
	return s
}

func relevantTr(tr []string) []string {
	var out []string
	for _, t := range tr {
		switch {
		case strings.HasPrefix(t, "fmt:"), strings.HasPrefix(t, "kind:"), t == "golit", t == "quoted":
		default:
			out = append(out, "|"+t)
		}
	}
	return out
}

// Normalize builds the comparable view of a file model.
func (m *FileModel) Normalize() *NormFile {
	n := &NormFile{Types: map[string]string{}, NoTags: map[string]string{}, Consts: map[string]string{}, Vars: map[string]string{}, Methods: map[string]string{}}
	for name, td := range m.Types {
		nn := m.norm(name)
		n.Types[nn] = m.norm(td.Type)
		if S := m.Structs[name]; S != nil {
			var b strings.Builder
			for _, f := range S.Fields {
				fmt.Fprintf(&b, "%s %s; ", m.norm(f.Name), m.norm(f.Type))
			}
			n.NoTags[nn] = "struct{ " + b.String() + "}"
		} else {
			n.NoTags[nn] = reBackquoted.ReplaceAllString(m.norm(td.Type), "")
		}
	}
	for name, c := range m.Consts {
		n.Consts[m.norm(name)] = m.norm(c[0] + " = " + c[1])
	}
	for name, v := range m.Vars {
		n.Vars[m.norm(name)] = m.norm(v)
	}
	for name, mm := range m.Methods {
		n.Methods[m.norm(name)] = m.norm(skel.ExprString(m.F.Fset, mm.Decl.Body))
	}
	for _, f := range m.Funcs {
		n.Funcs = append(n.Funcs, m.norm(f))
	}
	n.Imports = append(n.Imports, m.Imports...)
	return n
}

func diffMaps(what string, a, b map[string]string, la, lb string) []string {
	var out []string
	var keys []string
	seen := map[string]bool{}
	for k := range a {
		keys = append(keys, k)
		seen[k] = true
	}
	for k := range b {
		if !seen[k] {
			keys = append(keys, k)
		}
	}
	sort.Strings(keys)
	for _, k := range keys {
		va, oka := a[k]
		vb, okb := b[k]
		switch {
		case !oka:
			out = append(out, fmt.Sprintf("%s %s exists only %s", what, k, lb))
		case !okb:
			out = append(out, fmt.Sprintf("%s %s exists only %s", what, k, la))
		case va != vb:
			out = append(out, fmt.Sprintf("%s %s differs: %s `%s` / %s `%s`", what, k, la, oneLine(va), lb, oneLine(vb)))
		}
	}
	return out
}

func oneLine(s string) string {
	s = strings.Join(strings.Fields(s), " ")
	if len(s) > 220 {
		s = s[:220] + "…"
	}
	return s
}

var reBackquoted = regexp.MustCompile("`[^`]*`")

var validationImports = map[string]bool{"encoding/json": true, "fmt": true, "errors": true, "reflect": true, "regexp": true, "math": true, "strings": true,
	"github.com/go-viper/mapstructure/v2": true, "gopkg.in/yaml.v3 (yaml)": true}

// RelOnlyModels: --only-models emits exactly the type/const declarations of the full run and nothing else.
func RelOnlyModels(full, only *NormFile) []Issue {
	var out []Issue
	for _, d := range diffMaps("type", full.Types, only.Types, "in the full run", "with --only-models") {
		out = append(out, Issue{Rule: "A-REL", Construct: "only-models changes a type declaration", Msg: d})
	}
	for _, d := range diffMaps("constant", full.Consts, only.Consts, "in the full run", "with --only-models") {
		out = append(out, Issue{Rule: "A-REL", Construct: "only-models changes a constant", Msg: d})
	}
	if len(only.Methods) > 0 || len(only.Funcs) > 0 || len(only.Vars) > 0 {
		var names []string
		for k := range only.Methods {
			names = append(names, "method "+k)
		}
		for k := range only.Vars {
			names = append(names, "var "+k)
		}
		names = append(names, only.Funcs...)
		sort.Strings(names)
		out = append(out, Issue{Rule: "A-REL", Construct: "only-models emits functions, methods or variables", Msg: "--only-models output contains " + strings.Join(names, ", ")})
	}
	for _, im := range only.Imports {
		// a package the type declarations themselves name (json.RawMessage through goJSONSchema.type) is needed by the models
		short := im
		if i := strings.Index(short, " ("); i >= 0 {
			short = short[i+2 : len(short)-1]
		} else if i := strings.LastIndexByte(short, '/'); i >= 0 {
			short = short[i+1:]
		}
		usedByTypes := false
		for _, t := range only.Types {
			if strings.Contains(t, short+".") {
				usedByTypes = true
			}
		}
		if validationImports[im] && !usedByTypes {
			out = append(out, Issue{Rule: "A-REL", Construct: "only-models imports a validation-support package", Msg: "--only-models output imports " + im + ", which only unmarshal/validation code uses (unused import: the file does not build)"})
		}
	}
	return out
}

// RelTags: a different --tags list changes struct tags only.
func RelTags(a, b *NormFile, la, lb string) []Issue {
	var out []Issue
	for _, d := range diffMaps("type (tags ignored)", a.NoTags, b.NoTags, la, lb) {
		out = append(out, Issue{Rule: "A-REL", Construct: "tags option changes a type beyond its tags", Msg: d})
	}
	for _, d := range diffMaps("method", a.Methods, b.Methods, la, lb) {
		out = append(out, Issue{Rule: "A-REL", Construct: "tags option changes methods", Msg: d})
	}
	for _, d := range diffMaps("constant", a.Consts, b.Consts, la, lb) {
		out = append(out, Issue{Rule: "A-REL", Construct: "tags option changes constants", Msg: d})
	}
	if !reflect.DeepEqual(a.Imports, b.Imports) {
		out = append(out, Issue{Rule: "A-REL", Construct: "tags option changes imports", Msg: fmt.Sprintf("imports %v %s / %v %s", a.Imports, la, b.Imports, lb)})
	}
	return out
}

// RelExtraImports: without --extra-imports no YAML code or import appears and the JSON side is unchanged.
func RelExtraImports(with, without *NormFile) []Issue {
	var out []Issue
	for _, d := range diffMaps("type", with.Types, without.Types, "with --extra-imports", "without") {
		out = append(out, Issue{Rule: "A-REL", Construct: "extra-imports changes a type declaration", Msg: d})
	}
	jsonOnly := map[string]string{}
	for k, v := range with.Methods {
		if !strings.HasSuffix(k, "YAML") {
			jsonOnly[k] = v
		}
	}
	for k := range without.Methods {
		if strings.HasSuffix(k, "YAML") {
			out = append(out, Issue{Rule: "A-REL", Construct: "YAML method without extra-imports", Msg: "method " + k + " is emitted without --extra-imports"})
		}
	}
	for _, d := range diffMaps("method", jsonOnly, without.Methods, "with --extra-imports", "without") {
		out = append(out, Issue{Rule: "A-REL", Construct: "extra-imports changes the JSON methods", Msg: d})
	}
	for _, im := range without.Imports {
		if strings.Contains(im, "yaml") {
			out = append(out, Issue{Rule: "A-REL", Construct: "YAML import without extra-imports", Msg: "import " + im + " is emitted without --extra-imports"})
		}
	}
	for _, d := range diffMaps("var", with.Vars, without.Vars, "with --extra-imports", "without") {
		out = append(out, Issue{Rule: "A-REL", Construct: "extra-imports changes variables", Msg: d})
	}
	return out
}

// RelRename: two runs must be equal after renaming identifiers: compared by shape
// (number and kinds of declarations, field types and tags position-wise, method bodies with all identifiers of the file mapped).
func RelRename(a, b *FileModel, la, lb string) []Issue {
	var out []Issue
	sa, sb := shape(a), shape(b)
	if len(sa) != len(sb) {
		return []Issue{{Rule: "A-REL", Construct: "naming option changes the number of declarations", Msg: fmt.Sprintf("%d declarations %s, %d %s", len(sa), la, len(sb), lb)}}
	}
	for i := range sa {
		if sa[i] != sb[i] {
			out = append(out, Issue{Rule: "A-REL", Construct: "naming option changes more than identifiers", Msg: fmt.Sprintf("declaration %d: %s `%s` / %s `%s`", i, la, oneLine(sa[i]), lb, oneLine(sb[i]))})
		}
	}
	return out
}

// shape renders the declarations with every declared identifier (types, fields, constants) replaced by a positional name.
func shape(m *FileModel) []string {
	ren := map[string]string{}
	isType := map[string]bool{}
	var tnames []string
	for n := range m.Types {
		tnames = append(tnames, n)
	}
	// order types by their source line (stable w.r.t. naming as long as relative order is kept)
	sort.Slice(tnames, func(i, j int) bool { return m.Types[tnames[i]].Line < m.Types[tnames[j]].Line })
	for i, n := range tnames {
		ren[n] = fmt.Sprintf("T%d", i)
		isType[n] = true
		if S := m.Structs[n]; S != nil {
			for j, f := range S.Fields {
				if _, dup := ren[f.Name]; !dup {
					ren[f.Name] = fmt.Sprintf("T%dF%d", i, j)
				}
			}
		}
	}
	// longest first replacement on whole-word boundaries
	var keys []string
	for k := range ren {
		keys = append(keys, k)
	}
	sort.Slice(keys, func(i, j int) bool { return len(keys[i]) > len(keys[j]) })
	applyAll := func(s string) string { return s }
	apply := func(s string) string {
		// identifiers are renamed outside string literals only (tags and messages carry raw property names)
		var b strings.Builder
		for i := 0; i < len(s); {
			c := s[i]
			if c == '"' || c == '`' {
				j := i + 1
				for j < len(s) && s[j] != c {
					if c == '"' && s[j] == '\\' {
						j++
					}
					j++
				}
				if j < len(s) {
					j++
				}
				lit := s[i:j]
				if c == '"' {
					// messages name the declared type ("field x in T: required"): type names are renamed there too
					for _, k := range keys {
						if isType[k] {
							lit = replaceWord(lit, k, ren[k])
						}
					}
				}
				b.WriteString(lit)
				i = j
				continue
			}
			j := i
			for j < len(s) && s[j] != '"' && s[j] != '`' {
				j++
			}
			b.WriteString(applyAll(s[i:j]))
			i = j
		}
		return b.String()
	}
	applyAll = func(s string) string {
		for _, k := range keys {
			s = replaceWord(s, k, ren[k])
			// derived names: lowerFirst(type name) variables of the anyOf validator
			if len(k) > 0 && isType[k] {
				s = replaceWord(s, strings.ToLower(k[:1])+k[1:], "v"+ren[k])
			}
		}
		return s
	}
	var out []string
	for _, n := range tnames {
		td := m.Types[n]
		txt := td.Type
		if S := m.Structs[n]; S != nil {
			var b strings.Builder
			for _, f := range S.Fields {
				fmt.Fprintf(&b, "%s %s `%s`; ", f.Name, f.Type, f.RawTag)
			}
			txt = "struct{ " + b.String() + "}"
		}
		out = append(out, "type "+apply(n)+" "+apply(txt))
	}
	var mnames []string
	for n := range m.Methods {
		mnames = append(mnames, n)
	}
	sort.Slice(mnames, func(i, j int) bool { return apply(mnames[i]) < apply(mnames[j]) })
	for _, n := range mnames {
		out = append(out, "method "+apply(n)+" "+apply(m.norm(skel.ExprString(m.F.Fset, m.Methods[n].Decl.Body))))
	}
	return out
}

func replaceWord(s, old, new string) string {
	if old == "" {
		return s
	}
	var b strings.Builder
	for i := 0; i < len(s); {
		j := strings.Index(s[i:], old)
		if j < 0 {
			b.WriteString(s[i:])
			break
		}
		j += i
		before := j == 0 || !isWordByte(s[j-1])
		after := j+len(old) >= len(s) || !isWordByte(s[j+len(old)])
		b.WriteString(s[i:j])
		if before && after {
			b.WriteString(new)
		} else {
			b.WriteString(old)
		}
		i = j + len(old)
	}
	return b.String()
}

func isWordByte(c byte) bool {
	return c == '_' || c >= '0' && c <= '9' || c >= 'a' && c <= 'z' || c >= 'A' && c <= 'Z' || c >= 0x80
}
