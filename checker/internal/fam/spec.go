// Package fam defines the abstract schema families ("for all schemas" bounded
// by tree shape, with symbolic leaves), runs the generator on them under the
// abstract interpreter and compares the emitted skeletons with oracles derived
// from the same family description.
package fam

import (
	"fmt"
	"go/types"
	"sort"
	"strings"

	"verif/checker/internal/absint"
	"verif/checker/internal/gen"
)

// Spec describes one schema node of a family member. Leaves are symbolic: every
// present keyword gets a fresh atom when the abstract schema is built.
type Spec struct {
	Kind   string // string, integer, number, boolean, null, array, object, any
	Null   string // "", "after" (["T","null"]), "before" (["null","T"])
	Format string
	Kw     []string // minLength maxLength pattern minimum maximum multipleOf minItems maxItems
	EMin   string   // "", "true", "false", "num"
	EMax   string
	Items  *Spec
	Props  []*Prop
	// ReqNoProp: a name listed in required without a property of that name
	ReqNoProp      bool
	Default        string // "", "scalar", "slice", "emptyslice", "map"
	Enum           string // "", "strings", "ints", "numbers", "bools", "mixed", "null"
	Ref            string // "", "$defs", "definitions": this node lives in a definition and is referenced
	Desc           bool
	Title          bool
	AddProps       string // "", "true", "string", "integer", "number", "boolean", "array", "object", "false"
	AddPropsSpec   *Spec  // additionalProperties given as a schema of its own (a $ref to a definition, typically): the value type of the map
	AnyOf          []*Spec
	AllOf          []*Spec
	Twice          []string // keywords stated twice for one property by two allOf branches (filled by MergeAllOf)
	ReqAlso        []string // a branch WITH properties whose `required` also names (first, before its own) properties declared by sibling branches (by label)
	ReqOnly        []string // a constraint-only branch: `required` naming properties (by label) declared in sibling branches
	ConcreteTitle  string   // with Title: a concrete title
	DefsOuterFirst bool     // root only: definitions are visited outermost first (a referring definition before the one it refers to)
	DefsPreOrder   bool     // root only: definitions are visited in declaration (pre-)order: a referring definition before the ones it refers to, after earlier siblings
	Hostile        string   // a malformed piece injected at this node: null-property, null-items-in-allOf, null-anyOf, null-definition, empty-enum, array-without-items, unknown-type, missing-definition
	RefFile        string   // with Ref: the definition lives in this other file (a cross-file reference "<file>#/$defs/<name>")
	built          *builder
	refStr         *absint.Str
	ConcreteDef    string // with Ref: the definition has this concrete name
	NoType         bool   // the node states no "type" (an object with properties only)
	RefSibling     string // a keyword written NEXT TO the $ref on the referring node: "type" (the target's own type) or "description"
	IntBounds      bool   // the numeric bounds are integers (fact on their atoms)
	FracBounds     bool   // the numeric bounds are NOT integers (fact on their atoms)
	NotKw          bool   // the node also carries a "not" keyword ({"not": {"enum": [<text>]}}), which the generator does not translate: types and checks are those of the node without it
	RefVia         bool   // with Ref: the referrers point at an alias definition whose whole content is a $ref to this definition
	DefSameAs      string // with Ref: the definition has the same NAME as the (earlier built) definition with this label (possibly in another file)
	DefLabel       string // label under which this definition's name can be reused
	RefRootOf      string // a reference to the root of another file: {"$ref": "<file>"}
	// filled by Build
	Atoms   map[string]*absint.Atom
	DefName *absint.Atom
	node    gen.V
}

// Prop is a property of an object Spec.
type Prop struct {
	Label        string
	Spec         *Spec
	Required     bool
	Name         *absint.Atom // raw name atom (filled by Build)
	ExtType      string       // goJSONSchema.type: a concrete Go type expression that replaces the generated type
	ExtNillable  bool         // goJSONSchema.nillable
	ExtImports   []string     // goJSONSchema.imports
	ExtIdent     bool         // goJSONSchema.identifier override with a symbolic identifier
	ExtAtom      *absint.Atom
	Concrete     string // when set, the property name is this concrete text (the real identifier synthesiser runs)
	SameAs       string // reuse the name atom of the (earlier) property with this label
	ExtSame      string // with ExtIdent: reuse the override identifier atom of the (earlier) property with this label
	ExtIsIdentOf string // with ExtIdent: the override is the identifier the synthesiser gives to the (earlier) sibling with this label
}

func (s *Spec) Has(kw string) bool {
	for _, k := range s.Kw {
		if k == kw {
			return true
		}
	}
	return false
}

// defStr is the definition's name in the schema: concrete when ConcreteDef is set (the real identifier synthesiser then names the type).
func (s *Spec) defStr() absint.Str {
	if s.ConcreteDef != "" {
		return absint.Lit(s.ConcreteDef)
	}
	return absint.HoleStr(s.DefName)
}

// Text is the raw property name as it appears in the emitted text: the concrete name, or the placeholder of the name atom.
func (p *Prop) Text() string {
	if p.Concrete != "" {
		return p.Concrete
	}
	return AtomText(p.Name)
}

func (s *Spec) Clone() *Spec { return s.clone(map[*Spec]*Spec{}) }

// clone keeps sharing: a Spec that occurs twice in the tree (one definition, two referrers) stays one Spec.
func (s *Spec) clone(memo map[*Spec]*Spec) *Spec {
	if s == nil {
		return nil
	}
	if c, ok := memo[s]; ok {
		return c
	}
	c := *s
	memo[s] = &c
	c.Atoms = nil
	c.built = nil
	c.Kw = append([]string{}, s.Kw...)
	c.Items = s.Items.clone(memo)
	c.Props = nil
	for _, p := range s.Props {
		np := *p
		np.Spec = p.Spec.clone(memo)
		np.Name = nil
		c.Props = append(c.Props, &np)
	}
	if s.AddPropsSpec != nil {
		c.AddPropsSpec = s.AddPropsSpec.clone(memo)
	}
	c.AnyOf = nil
	for _, a := range s.AnyOf {
		c.AnyOf = append(c.AnyOf, a.clone(memo))
	}
	c.AllOf = nil
	for _, a := range s.AllOf {
		c.AllOf = append(c.AllOf, a.clone(memo))
	}
	c.ReqOnly = append([]string{}, s.ReqOnly...)
	c.ReqAlso = append([]string{}, s.ReqAlso...)
	return &c
}

// String is a compact, deterministic description used in obligation keys.
func (s *Spec) String() string {
	if s == nil {
		return "-"
	}
	var b strings.Builder
	b.WriteString(s.Kind)
	if s.Null != "" {
		b.WriteString("?" + s.Null)
	}
	if s.Format != "" {
		b.WriteString(":" + s.Format)
	}
	if len(s.Kw) > 0 {
		kw := append([]string{}, s.Kw...)
		sort.Strings(kw)
		b.WriteString("{" + strings.Join(kw, ",") + "}")
	}
	if s.FracBounds {
		b.WriteString(" fractional-bounds")
	}
	if s.NotKw {
		b.WriteString(" +not")
	}
	if s.EMin != "" {
		b.WriteString(" emin=" + s.EMin)
	}
	if s.EMax != "" {
		b.WriteString(" emax=" + s.EMax)
	}
	if s.Default != "" {
		b.WriteString(" default=" + s.Default)
	}
	if s.Enum != "" {
		b.WriteString(" enum=" + s.Enum)
	}
	if s.Ref != "" {
		b.WriteString(" ref=" + s.Ref)
	}
	if s.AddPropsSpec != nil {
		b.WriteString(" addProps=<" + s.AddPropsSpec.String() + ">")
	}
	if s.AddProps != "" {
		b.WriteString(" addProps=" + s.AddProps)
	}
	if s.ReqNoProp {
		b.WriteString(" +required-without-property")
	}
	if s.Items != nil {
		b.WriteString(" of[" + s.Items.String() + "]")
	}
	if len(s.Props) > 0 {
		b.WriteString(" props(")
		for i, p := range s.Props {
			if i > 0 {
				b.WriteString("; ")
			}
			r := "opt"
			if p.Required {
				r = "req"
			}
			x := ""
			if p.ExtIdent {
				x = " ext-ident"
			}
			b.WriteString(p.Label + " " + r + x + " " + p.Spec.String())
		}
		b.WriteString(")")
	}
	if len(s.ReqAlso) > 0 {
		b.WriteString(" also-requires(" + strings.Join(s.ReqAlso, ",") + ")")
	}
	if len(s.ReqOnly) > 0 {
		b.WriteString(" required-only(" + strings.Join(s.ReqOnly, ",") + ")")
	}
	if len(s.AllOf) > 0 {
		b.WriteString(" allOf(")
		for i, a := range s.AllOf {
			if i > 0 {
				b.WriteString(" & ")
			}
			b.WriteString(a.String())
		}
		b.WriteString(")")
	}
	if len(s.AnyOf) > 0 {
		b.WriteString(" anyOf(")
		for i, a := range s.AnyOf {
			if i > 0 {
				b.WriteString(" | ")
			}
			b.WriteString(a.String())
		}
		b.WriteString(")")
	}
	return b.String()
}

// builder accumulates definitions while building.
type builder struct {
	defNames map[string]*absint.Atom
	curFile  string
	inFile   string // set while a node is built that will live in ANOTHER file (a definition placed there through RefFile): its own fragment-only references are definitions of that file
	fileKeys map[string][]gen.V
	fileVals map[string][]gen.V
	preOrder bool
	exts     map[string]*absint.Atom
	names    map[string]*absint.Atom
	pre      map[string]bool // names introduced by a required-only branch before their property was built
	g        *gen.G
	defKeys  []gen.V
	defVals  []gen.V
	defStyle string
	n        int
}

func (b *builder) atom(s *Spec, kind, kw string, nonEmpty bool) *absint.Atom {
	if s.Atoms == nil {
		s.Atoms = map[string]*absint.Atom{}
	}
	b.n++
	a := b.g.M.NewAtom(kind, kw)
	a.NonEmpty = nonEmpty
	s.Atoms[kw] = a
	return a
}

func (b *builder) defName(s *Spec, label string) *absint.Atom {
	if b.defNames == nil {
		b.defNames = map[string]*absint.Atom{}
	}
	if s.DefSameAs != "" && b.defNames[s.DefSameAs] != nil {
		return b.defNames[s.DefSameAs]
	}
	a := b.g.M.NewAtom("RawStr", "name of definition for "+label)
	a.NonEmpty = true
	if s.DefLabel != "" {
		b.defNames[s.DefLabel] = a
	}
	return a
}

func (b *builder) typeList(s *Spec) gen.V {
	k := s.Kind
	if k == "any" || s.NoType {
		return nil
	}
	switch s.Null {
	case "after":
		return b.g.Types(k, "null")
	case "before":
		return b.g.Types("null", k)
	}
	return b.g.Types(k)
}

func (b *builder) build(s *Spec, label string) gen.V {
	g := b.g
	if s.Ref != "" && s.built == b && s.refStr != nil {
		// the same definition referenced again: only another referring node
		return g.Node(map[string]gen.V{"Ref": *s.refStr})
	}
	if s.Ref != "" && s.RefFile != "" {
		saved := b.inFile
		b.inFile = s.RefFile
		defer func() { b.inFile = saved }()
	}
	f := map[string]gen.V{}
	slot := -1
	if s.Ref != "" && b.preOrder {
		s.DefName = b.defName(s, label)
		b.defKeys = append(b.defKeys, s.defStr())
		b.defVals = append(b.defVals, nil)
		slot = len(b.defVals) - 1
	}
	if s.Enum == "" || s.Kind != "any" {
		if tl := b.typeList(s); tl != nil {
			f["Type"] = tl
		}
	}
	if s.Format != "" {
		f["Format"] = absint.Lit(s.Format)
	}
	if s.Desc {
		f["Description"] = absint.HoleStr(b.atom(s, "RawStr", "description", true))
	}
	if s.Title && s.ConcreteTitle == "" {
		f["Title"] = absint.HoleStr(b.atom(s, "RawStr", "title", true))
	}
	if s.Title && s.ConcreteTitle != "" {
		f["Title"] = absint.Lit(s.ConcreteTitle) // the title lives on the (root) type node
	}
	for _, kw := range s.Kw {
		switch kw {
		case "minLength":
			f["MinLength"] = absint.Num{A: b.atom(s, "PosInt", kw, true)}
		case "maxLength":
			f["MaxLength"] = absint.Num{A: b.atom(s, "PosInt", kw, true)}
		case "pattern":
			pa := b.atom(s, "RawStr", kw, true)
			pa.Facts["forkconst"] = "yes"
			f["Pattern"] = absint.HoleStr(pa)
		case "minimum":
			f["Minimum"] = g.M.NewPtr(absint.Num{A: b.atom(s, "Float", kw, true), IsFloat: true}, kw)
		case "maximum":
			f["Maximum"] = g.M.NewPtr(absint.Num{A: b.atom(s, "Float", kw, true), IsFloat: true}, kw)
		case "multipleOf":
			f["MultipleOf"] = g.M.NewPtr(absint.Num{A: b.atom(s, "Float", kw, true), IsFloat: true}, kw)
		case "minItems":
			f["MinItems"] = absint.Num{A: b.atom(s, "PosInt", kw, true)}
		case "maxItems":
			f["MaxItems"] = absint.Num{A: b.atom(s, "PosInt", kw, true)}
		default:
			panic("unknown keyword " + kw)
		}
	}
	ex := func(kind, kw string) gen.V {
		switch kind {
		case "true":
			return g.AnyPtr(gen.TBool(), true, kw)
		case "false":
			return g.AnyPtr(gen.TBool(), false, kw)
		case "num":
			return g.AnyPtr(gen.TFloat64(), absint.Num{A: b.atom(s, "Float", kw, true), IsFloat: true}, kw)
		}
		return nil
	}
	if s.IntBounds || s.FracBounds {
		for _, k := range []string{"minimum", "maximum"} {
			if a := s.Atoms[k]; a != nil {
				a.Facts["integral"] = map[bool]string{true: "yes", false: "no"}[s.IntBounds]
			}
		}
	}
	if v := ex(s.EMin, "exclusiveMinimum"); v != nil {
		f["ExclusiveMinimum"] = v
	}
	if v := ex(s.EMax, "exclusiveMaximum"); v != nil {
		f["ExclusiveMaximum"] = v
	}
	if s.IntBounds || s.FracBounds {
		for _, k := range []string{"exclusiveMinimum", "exclusiveMaximum"} {
			if a := s.Atoms[k]; a != nil {
				a.Facts["integral"] = map[bool]string{true: "yes", false: "no"}[s.IntBounds]
			}
		}
	}
	if s.Items != nil {
		f["Items"] = b.build(s.Items, label+"Elem")
	}
	if len(s.Props) > 0 || s.ReqNoProp {
		var keys, vals []gen.V
		var req []absint.Str
		for _, p := range s.Props {
			if p.SameAs != "" && b.names[p.SameAs] != nil {
				p.Name = b.names[p.SameAs]
			} else if b.pre[p.Label] {
				// the name was already introduced by a required-only branch that came first
				p.Name = b.names[p.Label]
				delete(b.pre, p.Label)
			} else {
				p.Name = g.M.NewAtom("RawStr", "name of property "+p.Label)
				p.Name.NonEmpty = true
			}
			if b.names == nil {
				b.names = map[string]*absint.Atom{}
			}
			b.names[p.Label] = p.Name
			name := absint.HoleStr(p.Name)
			if p.Concrete != "" {
				name = absint.Lit(p.Concrete)
			}
			keys = append(keys, name)
			node := b.build(p.Spec, label+p.Label)
			if p.ExtIdent {
				switch {
				case p.ExtSame != "" && b.exts[p.ExtSame] != nil:
					p.ExtAtom = b.exts[p.ExtSame]
				case p.ExtIsIdentOf != "" && b.names[p.ExtIsIdentOf] != nil:
					p.ExtAtom = gen.IdentFor(g.M, b.names[p.ExtIsIdentOf])
				default:
					p.ExtAtom = g.M.NewAtom("Ident", "goJSONSchema.identifier of "+p.Label)
					p.ExtAtom.NonEmpty = true
				}
				if b.exts == nil {
					b.exts = map[string]*absint.Atom{}
				}
				b.exts[p.Label] = p.ExtAtom
				id := g.M.NewPtr(absint.HoleStr(p.ExtAtom), "ext ident")
				ext := g.Obj("pkg/schemas", "GoJSONSchemaExtension", map[string]gen.V{"Identifier": id})
				// set on the property node
				np := node.(absint.Ptr)
				st := (*np.P).(absint.Struct)
				tt := g.Type("pkg/schemas", "Type").Underlying().(*types.Struct)
				for i := 0; i < tt.NumFields(); i++ {
					if tt.Field(i).Name() == "GoJSONSchemaExtension" {
						st.F[i] = ext
					}
				}
			}
			if p.ExtType != "" {
				// goJSONSchema.type (+ imports, nillable) on the property node
				tp := g.M.NewPtr(absint.Lit(p.ExtType), "ext type")
				fields := map[string]gen.V{"Type": tp, "Nillable": p.ExtNillable}
				if len(p.ExtImports) > 0 {
					var ims []absint.Str
					for _, im := range p.ExtImports {
						ims = append(ims, absint.Lit(im))
					}
					fields["Imports"] = g.Strs(ims...)
				}
				ext := g.Obj("pkg/schemas", "GoJSONSchemaExtension", fields)
				np := node.(absint.Ptr)
				st := (*np.P).(absint.Struct)
				tt := g.Type("pkg/schemas", "Type").Underlying().(*types.Struct)
				for i := 0; i < tt.NumFields(); i++ {
					if tt.Field(i).Name() == "GoJSONSchemaExtension" {
						st.F[i] = ext
					}
				}
			}
			vals = append(vals, node)
			if p.Required {
				req = append(req, name)
			}
		}
		if s.ReqNoProp {
			req = append(req, absint.HoleStr(b.atom(s, "RawStr", "required-without-property", true)))
		}
		if len(s.ReqAlso) > 0 {
			var first []absint.Str
			for _, l := range s.ReqAlso {
				if b.names[l] == nil {
					// the property is declared by a LATER branch: introduce its name now
					a := g.M.NewAtom("RawStr", "name of property "+l)
					a.NonEmpty = true
					b.names[l] = a
					if b.pre == nil {
						b.pre = map[string]bool{}
					}
					b.pre[l] = true
				}
				first = append(first, absint.HoleStr(b.names[l]))
			}
			req = append(first, req...)
		}
		if len(keys) > 0 {
			f["Properties"] = g.Map(keys, vals)
		}
		if len(req) > 0 {
			f["Required"] = g.Strs(req...)
		}
	}
	if s.AddPropsSpec != nil {
		f["AdditionalProperties"] = b.build(s.AddPropsSpec, label+"Value")
	}
	if s.NotKw {
		f["Not"] = g.Node(map[string]gen.V{"Enum": g.Anys(gen.Any(gen.TString(), absint.HoleStr(b.atom(s, "RawStr", "not.enum[0]", false))))})
	}
	switch s.AddProps {
	case "":
	case "true":
		f["AdditionalProperties"] = g.Node(map[string]gen.V{})
	case "false":
		f["AdditionalProperties"] = g.Node(map[string]gen.V{"Not": g.Node(map[string]gen.V{})})
	default:
		f["AdditionalProperties"] = g.Node(map[string]gen.V{"Type": g.Types(s.AddProps)})
	}
	switch s.Default {
	case "scalar":
		switch s.Kind {
		case "string":
			f["Default"] = gen.Any(gen.TString(), absint.HoleStr(b.atom(s, "RawStr", "default", false)))
		case "integer", "number":
			da := b.atom(s, "Float", "default", true)
			if s.Kind == "integer" {
				da.Facts["integral"] = "yes" // a default valid for an integer schema is an integer
			}
			f["Default"] = gen.Any(gen.TFloat64(), absint.Num{A: da, IsFloat: true})
		case "boolean":
			f["Default"] = gen.Any(gen.TBool(), true)
		default:
			f["Default"] = gen.Any(gen.TString(), absint.HoleStr(b.atom(s, "RawStr", "default", false)))
		}
	case "slice":
		f["Default"] = gen.Any(gen.TAnySlice(), g.Anys(gen.Any(gen.TString(), absint.HoleStr(b.atom(s, "RawStr", "default[0]", false)))))
	case "emptyslice":
		f["Default"] = gen.Any(gen.TAnySlice(), g.Anys())
	case "partial":
		// an object default that mentions only the FIRST TWO declared properties (by their concrete names), with integer values
		var ks, vs []gen.V
		for i, pp := range s.Props {
			if i >= 2 || pp.Concrete == "" {
				break
			}
			a := b.atom(s, "Float", "default."+pp.Concrete, true)
			a.Facts["integral"] = "yes"
			ks = append(ks, absint.Lit(pp.Concrete))
			vs = append(vs, gen.Any(gen.TFloat64(), absint.Num{A: a, IsFloat: true}))
		}
		f["Default"] = gen.Any(gen.TAnyMap(), g.Map(ks, vs))
	case "mapmap":
		// a map default whose value is itself an object: {"<key>": {"<inner key>": "<text>"}}
		k := absint.HoleStr(b.atom(s, "RawStr", "default key", false))
		ik := absint.HoleStr(b.atom(s, "RawStr", "default inner key", false))
		iv := gen.Any(gen.TString(), absint.HoleStr(b.atom(s, "RawStr", "default value", false)))
		f["Default"] = gen.Any(gen.TAnyMap(), g.Map([]gen.V{k}, []gen.V{gen.Any(gen.TAnyMap(), g.Map([]gen.V{ik}, []gen.V{iv}))}))
	case "map":
		k := absint.HoleStr(b.atom(s, "RawStr", "default key", false))
		v := gen.Any(gen.TString(), absint.HoleStr(b.atom(s, "RawStr", "default value", false)))
		f["Default"] = gen.Any(gen.TAnyMap(), g.Map([]gen.V{k}, []gen.V{v}))
	}
	switch s.Enum {
	case "strings":
		f["Enum"] = g.Anys(gen.Any(gen.TString(), absint.HoleStr(b.atom(s, "RawStr", "enum[0]", false))), gen.Any(gen.TString(), absint.HoleStr(b.atom(s, "RawStr", "enum[1]", false))))
	case "ints", "numbers":
		e0, e1 := b.atom(s, "Float", "enum[0]", true), b.atom(s, "Float", "enum[1]", true)
		if s.Enum == "ints" {
			e0.Facts["integral"], e1.Facts["integral"] = "yes", "yes"
		}
		f["Enum"] = g.Anys(gen.Any(gen.TFloat64(), absint.Num{A: e0, IsFloat: true}), gen.Any(gen.TFloat64(), absint.Num{A: e1, IsFloat: true}))
	case "bools":
		f["Enum"] = g.Anys(gen.Any(gen.TBool(), true), gen.Any(gen.TBool(), false))
	case "mixed":
		f["Enum"] = g.Anys(gen.Any(gen.TString(), absint.HoleStr(b.atom(s, "RawStr", "enum[0]", false))), gen.Any(gen.TFloat64(), absint.Num{A: b.atom(s, "Float", "enum[1]", true), IsFloat: true}), gen.Any(gen.TBool(), true), absint.Iface{})
	case "null":
		f["Enum"] = g.Anys(absint.Iface{})
	case "strings+null":
		// a nullable string enum that lists null itself
		f["Enum"] = g.Anys(gen.Any(gen.TString(), absint.HoleStr(b.atom(s, "RawStr", "enum[0]", false))), gen.Any(gen.TString(), absint.HoleStr(b.atom(s, "RawStr", "enum[1]", false))), absint.Iface{})
	case "collide":
		// concrete strings that normalise to the same identifier
		f["Enum"] = g.Anys(gen.Any(gen.TString(), absint.Lit("a-b")), gen.Any(gen.TString(), absint.Lit("a_b")), gen.Any(gen.TString(), absint.Lit("ab")))
	case "collide4":
		// FOUR concrete strings that normalise to one identifier: the suffix search for a free constant name must come to an end
		f["Enum"] = g.Anys(gen.Any(gen.TString(), absint.Lit("a-b")), gen.Any(gen.TString(), absint.Lit("a_b")), gen.Any(gen.TString(), absint.Lit("a b")), gen.Any(gen.TString(), absint.Lit("a.b")))
	case "lookalike":
		// concrete values of different JSON types that print alike
		f["Enum"] = g.Anys(gen.Any(gen.TFloat64(), float64(1)), gen.Any(gen.TString(), absint.Lit("1")), gen.Any(gen.TBool(), true), gen.Any(gen.TString(), absint.Lit("true")), absint.Iface{}, gen.Any(gen.TString(), absint.Lit("<nil>")))
	}
	if len(s.AllOf) > 0 {
		var ns []gen.V
		for i, a := range s.AllOf {
			ns = append(ns, b.build(a, fmt.Sprintf("%sAll%d", label, i)))
		}
		f["AllOf"] = g.Nodes(ns...)
	}
	if len(s.ReqOnly) > 0 {
		var req []absint.Str
		for _, l := range s.ReqOnly {
			if b.names == nil {
				b.names = map[string]*absint.Atom{}
			}
			if b.names[l] == nil {
				// the property is declared by a LATER branch: introduce its name now
				a := g.M.NewAtom("RawStr", "name of property "+l)
				a.NonEmpty = true
				b.names[l] = a
				if b.pre == nil {
					b.pre = map[string]bool{}
				}
				b.pre[l] = true
			}
			req = append(req, absint.HoleStr(b.names[l]))
		}
		f["Required"] = g.Strs(req...)
	}
	if len(s.AnyOf) > 0 {
		var ns []gen.V
		for i, a := range s.AnyOf {
			ns = append(ns, b.build(a, fmt.Sprintf("%s_%d", label, i)))
		}
		f["AnyOf"] = g.Nodes(ns...)
	}
	switch s.Hostile {
	case "null-property":
		// "properties": {"x": null}
		nm := absint.HoleStr(b.atom(s, "RawStr", "name of the null property", true))
		if pm, ok := f["Properties"].(*absint.Map); ok {
			g.M.MapUpdate(pm, nm, absint.Ptr{})
		} else {
			f["Properties"] = g.Map([]gen.V{nm}, []gen.V{absint.Ptr{}})
		}
	case "null-allOf":
		f["AllOf"] = g.Nodes(g.Node(map[string]gen.V{"Type": g.Types("object")}), absint.Ptr{})
	case "null-anyOf":
		f["AnyOf"] = g.Nodes(absint.Ptr{}, g.Node(map[string]gen.V{"Type": g.Types("object")}))
	case "null-anyOf-untyped":
		delete(f, "Type")
		delete(f, "Properties")
		f["AnyOf"] = g.Nodes(absint.Ptr{}, g.Node(map[string]gen.V{"Type": g.Types("object")}))
	case "null-allOf-untyped":
		delete(f, "Type")
		delete(f, "Properties")
		f["AllOf"] = g.Nodes(g.Node(map[string]gen.V{"Type": g.Types("object")}), absint.Ptr{})
	case "null-nested-anyOf", "null-nested-allOf":
		// the null sits one composition further down: anyOf: [{anyOf: [null, {string}]}, {anyOf: [{string}]}]
		delete(f, "Type")
		delete(f, "Properties")
		kw := map[string]string{"null-nested-anyOf": "AnyOf", "null-nested-allOf": "AllOf"}[s.Hostile]
		strNode := func() gen.V { return g.Node(map[string]gen.V{"Type": g.Types("string")}) }
		f["AnyOf"] = g.Nodes(g.Node(map[string]gen.V{kw: g.Nodes(absint.Ptr{}, strNode())}), g.Node(map[string]gen.V{kw: g.Nodes(strNode())}))
	case "empty-enum":
		f["Enum"] = g.Anys()
	case "nonprimitive-enum":
		f["Enum"] = g.Anys(gen.Any(gen.TAnyMap(), g.Map(nil, nil)))
	case "unknown-type", "unknown-type-enum":
		// (with -enum: the node also lists valid primitive enum values — the type name is still not a JSON Schema type)
		f["Type"] = g.Types("strnig")
	case "unknown-type-int-enum":
		f["Type"] = g.Types("int")
	case "missing-definition":
		f = map[string]gen.V{"Ref": absint.Cat(absint.Lit("#/$defs/"), absint.HoleStr(b.atom(s, "RawStr", "name of a definition that does not exist", true)))}
	case "bad-pointer":
		f = map[string]gen.V{"Ref": absint.Lit("#/properties/x")}
	case "allof-self-definition", "anyof-self-definition":
		// a definition whose own allOf / anyOf lists the definition itself (needs ConcreteDef)
		self := g.Node(map[string]gen.V{"Ref": absint.Lit("#/$defs/" + s.ConcreteDef)})
		kn := absint.HoleStr(b.atom(s, "RawStr", "name of property k", true))
		other := g.Node(map[string]gen.V{"Type": g.Types("object"), "Properties": g.Map([]gen.V{kn}, []gen.V{g.Node(map[string]gen.V{"Type": g.Types("string")})})})
		if s.Hostile == "allof-self-definition" {
			f["AllOf"] = g.Nodes(self, other)
		} else {
			f["AnyOf"] = g.Nodes(self, other)
		}
	case "empty-definition-name":
		// the JSON pointer names the member "" of $defs, which does not exist
		f = map[string]gen.V{"Ref": absint.Lit("#/$defs/")}
	case "null-definition":
		b.defKeys = append(b.defKeys, absint.HoleStr(b.atom(s, "RawStr", "name of the null definition", true)))
		b.defVals = append(b.defVals, absint.Ptr{})
	}
	if s.RefRootOf != "" {
		rf := map[string]gen.V{"Ref": absint.Lit(s.RefRootOf)}
		if s.Default == "refname" {
			// the referring node carries an object default {"name": <text>} for the referenced object type
			rf["Default"] = gen.Any(gen.TAnyMap(), g.Map([]gen.V{absint.Lit("name")}, []gen.V{gen.Any(gen.TString(), absint.HoleStr(b.atom(s, "RawStr", "default.name", false)))}))
		}
		return g.Node(rf)
	}
	node := g.Node(f)
	s.node = node
	if s.Ref != "" {
		// move the node into a definition and return a referring node
		if s.RefFile != "" {
			s.DefName = b.defName(s, label)
			if b.fileKeys == nil {
				b.fileKeys, b.fileVals = map[string][]gen.V{}, map[string][]gen.V{}
			}
			b.fileKeys[s.RefFile] = append(b.fileKeys[s.RefFile], s.defStr())
			b.fileVals[s.RefFile] = append(b.fileVals[s.RefFile], node)
			rs := absint.Cat(absint.Lit(s.RefFile+"#/$defs/"), s.defStr())
			s.built, s.refStr = b, &rs
			return g.Node(map[string]gen.V{"Ref": rs})
		}
		if b.inFile != "" && slot < 0 {
			// a fragment-only reference written inside a definition that lives in another file: the target is a definition of THAT file
			s.DefName = b.defName(s, label)
			b.fileKeys[b.inFile] = append(b.fileKeys[b.inFile], s.defStr())
			b.fileVals[b.inFile] = append(b.fileVals[b.inFile], node)
			rs := absint.Cat(absint.Lit("#/$defs/"), s.defStr())
			s.built, s.refStr = b, &rs
			return g.Node(map[string]gen.V{"Ref": rs})
		}
		if slot >= 0 {
			b.defVals[slot] = node
		} else {
			s.DefName = b.defName(s, label)
			b.defKeys = append(b.defKeys, s.defStr())
			b.defVals = append(b.defVals, node)
		}
		prefix := "#/$defs/"
		if s.Ref == "definitions" {
			prefix = "#/definitions/"
		}
		rs := absint.Cat(absint.Lit(prefix), s.defStr())
		if s.RefVia {
			// the referrers name a definition that is itself nothing but a reference to this one: {"$ref": "#/$defs/<alias>"},
			// "$defs": {"<alias>": {"$ref": "#/$defs/<this>"}} — a reference is transparent, so is a chain of two
			alias := g.M.NewAtom("RawStr", "name of the alias definition for "+label)
			alias.NonEmpty = true
			b.defKeys = append(b.defKeys, absint.HoleStr(alias))
			b.defVals = append(b.defVals, g.Node(map[string]gen.V{"Ref": rs}))
			rs = absint.Cat(absint.Lit(prefix), absint.HoleStr(alias))
		}
		s.built, s.refStr = b, &rs
		rf := map[string]gen.V{"Ref": rs}
		switch s.RefSibling {
		case "type":
			if tl := b.typeList(s); tl != nil {
				rf["Type"] = tl
			}
		case "description":
			rf["Description"] = absint.Lit("a referring node with a description of its own")
		}
		return g.Node(rf)
	}
	return node
}

// Build turns a root Spec into an abstract *schemas.Schema.
func Build(g *gen.G, root *Spec) gen.V {
	b := &builder{g: g, preOrder: root.DefsPreOrder}
	rootNode := b.build(root, "Root")
	var defs gen.V
	if root.DefsOuterFirst {
		for i, j := 0, len(b.defKeys)-1; i < j; i, j = i+1, j-1 {
			b.defKeys[i], b.defKeys[j] = b.defKeys[j], b.defKeys[i]
			b.defVals[i], b.defVals[j] = b.defVals[j], b.defVals[i]
		}
	}
	if len(b.defKeys) > 0 {
		defs = g.Map(b.defKeys, b.defVals)
	}
	title := absint.Str{}
	if root.Title && root.ConcreteTitle != "" {
		title = absint.Lit(root.ConcreteTitle)
	}
	return g.Schema(rootNode, absint.Str{}, title, defs)
}

// FileSpec is one schema file of a multi-file family member.
type FileSpec struct {
	Name string // file name given to DoFile / used in $ref
	ID   string // $id
	Root *Spec
	// NoRoot: the document has nothing at its root (only definitions placed there by other files' references)
	NoRoot bool
}

// BuildFiles turns a set of file specs (with cross-file references) into abstract schemas by file name.
func BuildFiles(g *gen.G, files []*FileSpec) map[string]gen.V {
	b := &builder{g: g, fileKeys: map[string][]gen.V{}, fileVals: map[string][]gen.V{}}
	roots := map[string]gen.V{}
	own := map[string][2][]gen.V{}
	for _, f := range files {
		b.curFile = f.Name
		b.defKeys, b.defVals = nil, nil
		b.preOrder = f.Root.DefsPreOrder
		roots[f.Name] = b.build(f.Root, "Root")
		own[f.Name] = [2][]gen.V{b.defKeys, b.defVals}
	}
	out := map[string]gen.V{}
	for _, f := range files {
		keys := append(append([]gen.V{}, own[f.Name][0]...), b.fileKeys[f.Name]...)
		vals := append(append([]gen.V{}, own[f.Name][1]...), b.fileVals[f.Name]...)
		var defs gen.V
		if len(keys) > 0 {
			defs = g.Map(keys, vals)
		}
		if f.NoRoot {
			out[f.Name] = g.Schema(nil, absint.Lit(f.ID), absint.Str{}, defs)
			continue
		}
		out[f.Name] = g.Schema(roots[f.Name], absint.Lit(f.ID), absint.Str{}, defs)
	}
	return out
}
