// Package skel holds the second stage of Engine A: static checks of emitted-code
// skeletons (abstract strings with holes). Nothing is executed: holes are
// replaced by unique, kind-correct placeholders and the text is scanned,
// parsed and type-checked with go/scanner, go/parser and go/types.
package skel

import (
	"fmt"
	"go/scanner"
	"go/token"
	"strings"

	"verif/checker/internal/absint"
)

// Span is the extent of one hole in rendered text.
type Span struct {
	Start, End int
	Hole       *absint.Hole
	Text       string
}

// Rendered is a skeleton turned into text.
type Rendered struct {
	Text  string
	Spans []Span
}

// Placeholder returns the representative text of a hole: a kind-correct,
// unique stand-in to which the hole's transforms are applied.
func Placeholder(h *absint.Hole) string {
	var base string
	id := h.A.ID
	isFloat := false
	for _, t := range h.Tr {
		if t == "kind:float" {
			isFloat = true
		}
	}
	switch h.A.Kind {
	case "Ident":
		base = fmt.Sprintf("Zq%dq", id)
	case "RawStr":
		base = fmt.Sprintf("rw%dw", id)
	case "PosInt":
		base = fmt.Sprintf("%d", 7000000+id)
	case "Float":
		base = fmt.Sprintf("%d", 7000000+id)
		if isFloat {
			if h.A.Facts["integral"] == "yes" {
				base += ".0"
			} else {
				base += ".5"
			}
		}
	case "GoLit":
		base = fmt.Sprintf("%d", 7000000+id)
	case "Rune":
		base = fmt.Sprintf("«%s%d»", h.A.Facts["class"], id)
	default:
		base = fmt.Sprintf("hole%d", id)
	}
	for _, t := range h.Tr {
		switch {
		case t == "upper":
			base = strings.ToUpper(base)
		case t == "lower":
			base = strings.ToLower(base)
		case t == "[0:1]":
			if len(base) > 0 {
				base = base[:1]
			}
		case t == "[1:]":
			if len(base) > 0 {
				base = base[1:]
			}
		case t == "[-1:]":
			if len(base) > 0 {
				base = base[len(base)-1:]
			}
		case strings.HasPrefix(t, "trunc-"), t == "trunc", t == "floor":
			if i := strings.IndexByte(base, '.'); i >= 0 {
				base = base[:i]
			}
		case t == "ceil", t == "round":
			if i := strings.IndexByte(base, '.'); i >= 0 {
				var n int
				fmt.Sscanf(base[:i], "%d", &n)
				base = fmt.Sprintf("%d", n+1000000) // a distinct integer stand-in for the rounded-up value
			}
		case t == "fmt:%f":
			if !strings.Contains(base, ".") {
				base += ".000000"
			} else {
				base += "00000"
			}
		case t == "golit" && isFloat && !strings.Contains(base, "."):
			base += ".0"
		}
	}
	return base
}

// Render turns an abstract string into text and records where each hole went.
func Render(s absint.Str) *Rendered { return RenderAlias(s, nil) }

// RenderAlias renders with atoms that a world decided to be equal strings
// sharing one placeholder (alias: atom id -> representative atom id).
func RenderAlias(s absint.Str, alias map[int]int) *Rendered {
	var sb strings.Builder
	r := &Rendered{}
	for _, p := range s.P {
		if p.Hole == nil {
			sb.WriteString(p.Lit)
			continue
		}
		h := p.Hole
		if rep, ok := alias[h.A.ID]; ok && rep != h.A.ID {
			a2 := *h.A
			a2.ID = rep
			h2 := *h
			h2.A = &a2
			h = &h2
		}
		t := Placeholder(h)
		r.Spans = append(r.Spans, Span{Start: sb.Len(), End: sb.Len() + len(t), Hole: p.Hole, Text: t})
		sb.WriteString(t)
	}
	r.Text = sb.String()
	return r
}

// Context is the lexical context of a hole in Go source text.
type Context struct {
	Span  Span
	Kind  string // interp-string, raw-string, comment, ident, number, char, code
	Token string // the token text containing the hole (trimmed)
	Whole bool   // the hole is the entire token (identifier / number)
	Line  int
}

// Contexts classifies every hole of Go source text by the token that contains it.
func Contexts(r *Rendered) []Context {
	fset := token.NewFileSet()
	file := fset.AddFile("skeleton.go", -1, len(r.Text))
	var sc scanner.Scanner
	sc.Init(file, []byte(r.Text), func(token.Position, string) {}, scanner.ScanComments)
	type tok struct {
		start, end int
		tok        token.Token
		lit        string
	}
	var toks []tok
	for {
		pos, t, lit := sc.Scan()
		if t == token.EOF {
			break
		}
		start := file.Offset(pos)
		l := lit
		if l == "" {
			l = t.String()
		}
		toks = append(toks, tok{start, start + len(l), t, l})
	}
	var out []Context
	for _, sp := range r.Spans {
		c := Context{Span: sp, Kind: "code", Line: 1 + strings.Count(r.Text[:sp.Start], "\n")}
		for _, t := range toks {
			if sp.Start >= t.start && sp.End <= t.end {
				c.Token = t.lit
				if len(c.Token) > 160 {
					c.Token = c.Token[:160] + "…"
				}
				switch t.tok {
				case token.STRING:
					if strings.HasPrefix(t.lit, "`") {
						c.Kind = "raw-string"
					} else {
						c.Kind = "interp-string"
					}
				case token.COMMENT:
					c.Kind = "comment"
				case token.IDENT:
					c.Kind = "ident"
					c.Whole = sp.Start == t.start && sp.End == t.end
				case token.INT, token.FLOAT:
					c.Kind = "number"
					c.Whole = sp.Start == t.start && sp.End == t.end
				case token.CHAR:
					c.Kind = "char"
				}
				break
			}
		}
		out = append(out, c)
	}
	return out
}

// HoleKey is a position-free identity of a hole's formatting site.
func HoleKey(h *absint.Hole) string {
	if h.Site != "" {
		return h.Site
	}
	return "(unformatted) " + h.A.Name
}

// CtxProblem decides whether a hole's sanitisation is compatible with the
// lexical context it lands in. Returns "" when compatible.
func CtxProblem(c Context) string {
	h := c.Span.Hole
	has := func(tr string) bool {
		for _, t := range h.Tr {
			if t == tr || strings.HasPrefix(t, tr) {
				return true
			}
		}
		return false
	}
	kind := h.A.Kind
	switch c.Kind {
	case "interp-string":
		if kind == "RawStr" && !has("quoted") {
			return "arbitrary schema text is placed inside an interpreted string literal without quoting: a double quote, backslash or newline in it breaks the literal (or changes its value)"
		}
	case "raw-string":
		if kind == "RawStr" {
			return "arbitrary schema text is placed inside a back-quoted literal (or struct tag): a back-quote — and inside a tag a double quote — in it breaks the literal"
		}
	case "comment":
		if kind == "RawStr" && !has("no:\n") {
			return "arbitrary schema text is placed in a // comment without being split into lines: a newline in it ends the comment and the rest becomes code"
		}
	case "ident":
		if kind != "Ident" {
			return "a value that is not a synthesised identifier is used as (part of) an identifier"
		}
	case "number":
		if kind != "PosInt" && kind != "Float" && kind != "GoLit" {
			return "a non-numeric value is used as (part of) a numeric literal"
		}
	case "char":
		return "schema-derived text inside a character literal"
	case "code":
		if kind == "RawStr" {
			return "arbitrary schema text is emitted as code"
		}
	}
	return ""
}
