package skel

import (
	"bytes"
	"go/ast"
	"go/printer"
	"go/token"
	"strconv"
	"strings"
)

// Loop is an enclosing `for i := range X`.
type Loop struct {
	Var  string
	Over string
}

// Reject is one branch of an unmarshal method that returns an error, in a
// normalised form that does not depend on template wording.
type Reject struct {
	Kind     string // required, cmp, pattern, null, multipleOf, anyOf, decode, enum, other
	Subject  string // e.g. "plain.F", "plain.F[i1]" ("plain" for a primitive decl)
	Field    string // F ("" for plain itself)
	Deref    bool
	Len      string // "", "len" (bytes / elements), "runes"
	Op       string // normalised as: subject Op Bound  is the REJECT condition
	Bound    string
	NilGuard bool
	Loops    []Loop
	Cond     string
	Init     string
	Top      int // index of the top-level statement it belongs to
	Line     int
	RawKey   string // required: the key looked up in raw
	DropsErr bool   // pattern: the error of the matcher is discarded
	Call     string // decode: the call whose error is returned
}

// Method is one emitted Unmarshal method, analysed.
type Method struct {
	Name, Recv string
	Decl       *ast.FuncDecl
	Rejects    []Reject
	Problems   []string // A-AON / A-NILG problems
	Assigns    []Assign // assignments to plain.<field> (defaults)
	PlainDecl  int      // top-level index of the typed decode
	RawDecl    int      // top-level index of the raw-map decode (-1 if none)
	FinalIdx   int
	UsesRaw    bool
	NTop       int
	fset       *token.FileSet
}

// Assign is `plain.F = <expr>` (a default), with its guard.
type Assign struct {
	Field string
	Expr  string
	Guard string
	Init  string
	Top   int
	Line  int
}

func exprStr(fset *token.FileSet, e ast.Node) string {
	if e == nil {
		return ""
	}
	var b bytes.Buffer
	_ = printer.Fprint(&b, fset, e)
	return b.String()
}

// ExprString prints an AST node.
func ExprString(fset *token.FileSet, n ast.Node) string { return exprStr(fset, n) }

func flattenAnd(e ast.Expr) []ast.Expr {
	if p, ok := e.(*ast.ParenExpr); ok {
		return flattenAnd(p.X)
	}
	if b, ok := e.(*ast.BinaryExpr); ok && b.Op == token.LAND {
		return append(flattenAnd(b.X), flattenAnd(b.Y)...)
	}
	return []ast.Expr{e}
}

func unparen(e ast.Expr) ast.Expr {
	for {
		p, ok := e.(*ast.ParenExpr)
		if !ok {
			return e
		}
		e = p.X
	}
}

func isNilIdent(e ast.Expr) bool {
	id, ok := unparen(e).(*ast.Ident)
	return ok && id.Name == "nil"
}

func mentionsPlain(e ast.Expr) bool {
	found := false
	ast.Inspect(e, func(n ast.Node) bool {
		if id, ok := n.(*ast.Ident); ok && id.Name == "plain" {
			found = true
		}
		return true
	})
	return found
}

// subjectOf strips measures from an expression over plain: len(), *, string(), float64()...
// and reports them.
func subjectOf(fset *token.FileSet, e ast.Expr) (base ast.Expr, deref bool, ln string) {
	e = unparen(e)
	for {
		switch x := e.(type) {
		case *ast.StarExpr:
			deref = true
			e = unparen(x.X)
			continue
		case *ast.CallExpr:
			fn := exprStr(fset, x.Fun)
			if len(x.Args) == 1 {
				switch fn {
				case "len":
					ln = "len"
					// len([]rune(x)) counts characters
					if inner, ok := unparen(x.Args[0]).(*ast.CallExpr); ok && exprStr(fset, inner.Fun) == "[]rune" && len(inner.Args) == 1 {
						ln = "runes"
						e = unparen(inner.Args[0])
						continue
					}
					e = unparen(x.Args[0])
					continue
				case "utf8.RuneCountInString":
					ln = "runes"
					e = unparen(x.Args[0])
					continue
				case "string", "float64", "int64", "int", "math.Abs":
					e = unparen(x.Args[0])
					continue
				}
			}
		}
		break
	}
	return e, deref, ln
}

func fieldOfSubject(fset *token.FileSet, e ast.Expr) (field string, text string) {
	text = exprStr(fset, e)
	// strip indexes
	x := e
	for {
		if ix, ok := x.(*ast.IndexExpr); ok {
			x = ix.X
			continue
		}
		break
	}
	if sel, ok := x.(*ast.SelectorExpr); ok {
		if id, ok := sel.X.(*ast.Ident); ok && id.Name == "plain" {
			return sel.Sel.Name, text
		}
		// plain.F.Value etc.
		return exprStr(fset, sel), text
	}
	return "", text
}

func flipOp(op token.Token) token.Token {
	switch op {
	case token.LSS:
		return token.GTR
	case token.GTR:
		return token.LSS
	case token.LEQ:
		return token.GEQ
	case token.GEQ:
		return token.LEQ
	}
	return op
}

// AnalyseMethod extracts the normalised facts of one emitted unmarshal method.
func AnalyseMethod(fset *token.FileSet, fd *ast.FuncDecl) *Method {
	m := &Method{Name: fd.Name.Name, Decl: fd, fset: fset, PlainDecl: -1, RawDecl: -1, FinalIdx: -1}
	if fd.Recv != nil && len(fd.Recv.List) == 1 {
		t := fd.Recv.List[0].Type
		if st, ok := t.(*ast.StarExpr); ok {
			t = st.X
		}
		m.Recv = exprStr(fset, t)
	}
	if fd.Body == nil {
		return m
	}
	m.NTop = len(fd.Body.List)
	recvName := ""
	if fd.Recv != nil && len(fd.Recv.List) == 1 && len(fd.Recv.List[0].Names) == 1 {
		recvName = fd.Recv.List[0].Names[0].Name
	}
	type ctx struct {
		guards []string // expressions known non-nil
		loops  []Loop
		conds  []string
	}
	line := func(n ast.Node) int { return fset.Position(n.Pos()).Line }

	// deref guard check (A-NILG) inside an expression given known guards
	checkDerefs := func(e ast.Node, guards []string, loops []Loop) {
		if e == nil {
			return
		}
		ast.Inspect(e, func(n ast.Node) bool {
			switch x := n.(type) {
			case *ast.StarExpr:
				t := exprStr(fset, x.X)
				if t == recvName || !mentionsPlain(x.X) {
					return true
				}
				ok := false
				for _, g := range guards {
					if g == t {
						ok = true
					}
				}
				if !ok {
					m.Problems = append(m.Problems, "A-NILG: "+exprStr(fset, x)+" is dereferenced at line "+strconv.Itoa(line(x))+" without a dominating test that "+t+" != nil")
				}
			case *ast.IndexExpr:
				if !mentionsPlain(x.X) {
					return true
				}
				idx := exprStr(fset, x.Index)
				over := exprStr(fset, x.X)
				ok := false
				for _, l := range loops {
					if l.Var == idx && l.Over == over {
						ok = true
					}
				}
				if _, isLit := x.Index.(*ast.BasicLit); isLit {
					ok = false
				}
				if !ok {
					m.Problems = append(m.Problems, "A-NILG: "+exprStr(fset, x)+" at line "+strconv.Itoa(line(x))+" is indexed by "+idx+", which is not the variable of an enclosing `for "+idx+" := range "+over+"`")
				}
			case *ast.BinaryExpr:
				if x.Op == token.REM || x.Op == token.QUO {
					if bl, ok := unparen(x.Y).(*ast.BasicLit); ok && (bl.Value == "0" || bl.Value == "0.0") {
						m.Problems = append(m.Problems, "A-NILG: division or modulo by the constant zero at line "+strconv.Itoa(line(x))+": "+exprStr(fset, x))
					}
				}
			}
			return true
		})
	}

	var walk func(stmts []ast.Stmt, c ctx, top int, isTop bool)
	walk = func(stmts []ast.Stmt, c ctx, top int, isTop bool) {
		for i, s := range stmts {
			t := top
			if isTop {
				t = i
			}
			switch x := s.(type) {
			case *ast.IfStmt:
				initStr := exprStr(fset, x.Init)
				conj := flattenAnd(x.Cond)
				var newGuards []string
				// evaluate conjuncts left to right with growing guards
				g := append([]string{}, c.guards...)
				if x.Init != nil {
					checkDerefs(x.Init, g, c.loops)
				}
				for _, cj := range conj {
					checkDerefs(cj, g, c.loops)
					if b, ok := unparen(cj).(*ast.BinaryExpr); ok && b.Op == token.NEQ && isNilIdent(b.Y) {
						g = append(g, exprStr(fset, b.X))
						newGuards = append(newGuards, exprStr(fset, b.X))
					}
				}
				returnsErr := false
				for _, bs := range x.Body.List {
					if r, ok := bs.(*ast.ReturnStmt); ok && len(r.Results) > 0 && !isNilIdent(r.Results[len(r.Results)-1]) {
						returnsErr = true
					}
				}
				if returnsErr {
					m.Rejects = append(m.Rejects, m.normalise(x, conj, initStr, c.guards, c.loops, t))
				}
				nc := ctx{guards: append(append([]string{}, c.guards...), newGuards...), loops: c.loops, conds: append(append([]string{}, c.conds...), exprStr(fset, x.Cond))}
				// assignments to plain.F directly inside (defaults)
				locals := map[string]string{} // v := <expr> earlier in this block
				for _, bs := range x.Body.List {
					if as, ok := bs.(*ast.AssignStmt); ok && len(as.Lhs) == 1 {
						if id, isID := as.Lhs[0].(*ast.Ident); isID && as.Tok == token.DEFINE {
							locals[id.Name] = exprStr(fset, as.Rhs[0])
							continue
						}
						if f, _ := fieldOfSubject(fset, as.Lhs[0]); f != "" && strings.HasPrefix(exprStr(fset, as.Lhs[0]), "plain.") {
							rhs := exprStr(fset, as.Rhs[0])
							// a pointer field takes the address of a local that holds the literal: report the literal
							if u, isU := as.Rhs[0].(*ast.UnaryExpr); isU && u.Op == token.AND {
								if id, isID := u.X.(*ast.Ident); isID && locals[id.Name] != "" {
									rhs = "&(" + locals[id.Name] + ")"
								}
							}
							m.Assigns = append(m.Assigns, Assign{Field: f, Expr: rhs, Guard: exprStr(fset, x.Cond), Init: initStr, Top: t, Line: line(as)})
						}
					}
				}
				walk(x.Body.List, nc, t, false)
				if x.Else != nil {
					if eb, ok := x.Else.(*ast.BlockStmt); ok {
						walk(eb.List, c, t, false)
					}
				}
			case *ast.RangeStmt:
				checkDerefs(x.X, c.guards, c.loops)
				nc := c
				if x.Key != nil {
					nc.loops = append(append([]Loop{}, c.loops...), Loop{Var: exprStr(fset, x.Key), Over: exprStr(fset, x.X)})
				}
				walk(x.Body.List, nc, t, false)
			case *ast.ForStmt:
				walk(x.Body.List, c, t, false)
			case *ast.BlockStmt:
				walk(x.List, c, t, false)
			case *ast.AssignStmt:
				for _, r := range x.Rhs {
					checkDerefs(r, c.guards, c.loops)
				}
				for _, l := range x.Lhs {
					if se, ok := l.(*ast.StarExpr); ok && exprStr(fset, se.X) == recvName {
						if !isTop {
							m.Problems = append(m.Problems, "A-AON: the receiver is written at line "+strconv.Itoa(line(x))+" inside a nested block")
						} else if m.FinalIdx >= 0 {
							m.Problems = append(m.Problems, "A-AON: the receiver is written more than once (line "+strconv.Itoa(line(x))+")")
						} else {
							m.FinalIdx = i
						}
						continue
					}
					// writes through the receiver other than *j = ...
					if recvName != "" && strings.HasPrefix(exprStr(fset, l), recvName+".") {
						m.Problems = append(m.Problems, "A-AON: a field of the receiver is written directly at line "+strconv.Itoa(line(x))+": "+exprStr(fset, l))
					}
					checkDerefs(l, c.guards, c.loops)
				}
				if isTop && len(x.Lhs) == 1 {
					if f, _ := fieldOfSubject(fset, x.Lhs[0]); f != "" && strings.HasPrefix(exprStr(fset, x.Lhs[0]), "plain.") {
						m.Assigns = append(m.Assigns, Assign{Field: f, Expr: exprStr(fset, x.Rhs[0]), Top: t, Line: line(x)})
					}
				}
			case *ast.ReturnStmt:
				if isTop {
					if i != len(stmts)-1 {
						m.Problems = append(m.Problems, "A-AON: unconditional return at line "+strconv.Itoa(line(x))+" before the end of the method")
					}
				} else if len(x.Results) > 0 && isNilIdent(x.Results[len(x.Results)-1]) {
					m.Problems = append(m.Problems, "A-AON: a nested `return nil` at line "+strconv.Itoa(line(x))+" leaves the method before the receiver is assigned")
				}
			case *ast.ExprStmt:
				checkDerefs(x.X, c.guards, c.loops)
			case *ast.DeclStmt:
			}
		}
	}
	walk(fd.Body.List, ctx{}, 0, true)

	// locate the decodes
	for i, s := range fd.Body.List {
		txt := exprStr(fset, s)
		if ifs, ok := s.(*ast.IfStmt); ok && ifs.Init != nil {
			in := exprStr(fset, ifs.Init)
			if strings.Contains(in, "&raw") {
				m.RawDecl = i
			}
			if strings.Contains(in, "&plain)") {
				m.PlainDecl = i
			}
		}
		if strings.Contains(txt, "raw") {
			m.UsesRaw = true
		}
	}
	// the typed decode must go into a LOCAL shadow type (declared in this method, hence without methods): a value of a
	// package-level type that has this very method would re-enter it without bound
	local := map[string]bool{}
	for _, s := range fd.Body.List {
		ds, ok := s.(*ast.DeclStmt)
		if !ok {
			continue
		}
		gd, ok := ds.Decl.(*ast.GenDecl)
		if !ok {
			continue
		}
		for _, sp := range gd.Specs {
			switch x := sp.(type) {
			case *ast.TypeSpec:
				local[x.Name.Name] = true
			case *ast.ValueSpec:
				if len(x.Names) == 1 && x.Names[0].Name == "plain" && x.Type != nil {
					if id, ok := x.Type.(*ast.Ident); ok && !local[id.Name] {
						m.Problems = append(m.Problems, "A-AON: the typed decode goes into a value of the package-level type "+id.Name+" instead of a local shadow type: if that type has this method the decode re-enters it without bound")
					}
				}
			}
		}
	}
	// A-AON: the value that is decoded into must be fresh. A local that is initialised from the receiver (`plain := Plain(*j)`) shares
	// the storage of maps, slices and pointers with the destination, so a decode that fails half-way has already modified it
	if recvName != "" {
		ast.Inspect(fd.Body, func(n ast.Node) bool {
			check := func(names []string, rhs []ast.Expr, at ast.Node) {
				for i, nm := range names {
					if nm == recvName || nm == "_" || i >= len(rhs) {
						continue
					}
					mentions := false
					ast.Inspect(rhs[i], func(x ast.Node) bool {
						if id, ok := x.(*ast.Ident); ok && id.Name == recvName {
							mentions = true
						}
						return true
					})
					if mentions {
						m.Problems = append(m.Problems, "A-AON: the local "+nm+" is initialised from the receiver at line "+strconv.Itoa(line(at))+" ("+exprStr(fset, rhs[i])+"): it shares maps, slices and pointers with the destination, which a failing decode then leaves modified")
					}
				}
			}
			switch x := n.(type) {
			case *ast.AssignStmt:
				if x.Tok == token.DEFINE {
					var names []string
					for _, l := range x.Lhs {
						names = append(names, exprStr(fset, l))
					}
					check(names, x.Rhs, x)
				}
			case *ast.ValueSpec:
				var names []string
				for _, l := range x.Names {
					names = append(names, l.Name)
				}
				check(names, x.Values, x)
			}
			return true
		})
	}
	// A-SHADOW: the keys that are NOT additional are enumerated by reflection over a struct type; that type must be the shadow type
	// of the value that was decoded (`plain`), not whatever package-level type happens to carry the name
	plainType := ""
	for _, s := range fd.Body.List {
		if ds, ok := s.(*ast.DeclStmt); ok {
			if gd, ok := ds.Decl.(*ast.GenDecl); ok {
				for _, sp := range gd.Specs {
					if vs, ok := sp.(*ast.ValueSpec); ok && len(vs.Names) == 1 && vs.Names[0].Name == "plain" && vs.Type != nil {
						plainType = exprStr(fset, vs.Type)
					}
				}
			}
		}
	}
	ast.Inspect(fd.Body, func(n ast.Node) bool {
		call, ok := n.(*ast.CallExpr)
		if !ok || exprStr(fset, call.Fun) != "reflect.TypeOf" || len(call.Args) != 1 {
			return true
		}
		if cl, ok := unparen(call.Args[0]).(*ast.CompositeLit); ok && cl.Type != nil {
			if t := exprStr(fset, cl.Type); plainType != "" && t != plainType {
				m.Problems = append(m.Problems, "A-SHADOW: the declared keys are enumerated from reflect.TypeOf("+t+"{}) at line "+strconv.Itoa(line(call))+", but the decoded value `plain` has the shadow type "+plainType+": another type's fields decide which keys count as additional")
			}
		}
		return true
	})
	// A-AON: final assignment then return nil
	n := len(fd.Body.List)
	if m.FinalIdx < 0 {
		m.Problems = append(m.Problems, "A-AON: the method never assigns the decoded value to the receiver")
	} else if m.FinalIdx != n-2 {
		m.Problems = append(m.Problems, "A-AON: the assignment to the receiver is not the last statement before `return nil`")
	}
	if n == 0 {
		m.Problems = append(m.Problems, "A-AON: empty method")
	} else if r, ok := fd.Body.List[n-1].(*ast.ReturnStmt); !ok || len(r.Results) != 1 || !isNilIdent(r.Results[0]) {
		m.Problems = append(m.Problems, "A-AON: the method does not end in `return nil`")
	}
	return m
}

func (m *Method) normalise(x *ast.IfStmt, conj []ast.Expr, initStr string, outerGuards []string, loops []Loop, top int) Reject {
	fset := m.fset
	r := Reject{Kind: "other", Cond: exprStr(fset, x.Cond), Init: initStr, Loops: loops, Top: top, Line: fset.Position(x.Pos()).Line}
	guards := append([]string{}, outerGuards...)
	var main ast.Expr
	for _, cj := range conj {
		cj = unparen(cj)
		if b, ok := cj.(*ast.BinaryExpr); ok && b.Op == token.NEQ && isNilIdent(b.Y) && len(conj) > 1 {
			guards = append(guards, exprStr(fset, b.X))
			continue
		}
		main = cj
	}
	if main == nil && len(conj) > 0 {
		main = unparen(conj[len(conj)-1])
	}
	setSubject := func(e ast.Expr) {
		base, deref, ln := subjectOf(fset, e)
		r.Deref, r.Len = deref, ln
		r.Field, r.Subject = fieldOfSubject(fset, base)
		// nil guard: a guard on the subject or on its un-indexed base
		for _, g := range guards {
			if g == r.Subject || strings.HasPrefix(r.Subject, g+"[") || g == strings.TrimSuffix(r.Subject, ".Value") {
				r.NilGuard = true
			}
		}
	}
	switch e := main.(type) {
	case *ast.UnaryExpr:
		if e.Op == token.NOT {
			name := exprStr(fset, e.X)
			switch {
			case name == "ok" && strings.Contains(initStr, ":= raw["):
				r.Kind = "required"
				if as, ok := x.Init.(*ast.AssignStmt); ok && len(as.Rhs) == 1 {
					if ix, ok := as.Rhs[0].(*ast.IndexExpr); ok {
						r.RawKey = exprStr(fset, ix.Index)
					}
				}
				for _, cj := range conj {
					if exprStr(fset, cj) == "raw != nil" {
						r.NilGuard = true
					}
				}
			case name == "matched":
				r.Kind = "pattern"
				if as, ok := x.Init.(*ast.AssignStmt); ok && len(as.Rhs) == 1 {
					if call, ok := as.Rhs[0].(*ast.CallExpr); ok && len(call.Args) == 2 {
						r.Bound = exprStr(fset, call.Args[0])
						setSubject(call.Args[1])
						r.Call = exprStr(fset, call.Fun)
					}
					if len(as.Lhs) == 2 && exprStr(fset, as.Lhs[1]) == "_" {
						r.DropsErr = true
					}
				}
			case name == "ok":
				r.Kind = "enum"
			}
		}
	case *ast.BinaryExpr:
		switch {
		case e.Op == token.NEQ && isNilIdent(e.Y) && exprStr(fset, e.X) == "err":
			r.Kind = "decode"
			if as, ok := x.Init.(*ast.AssignStmt); ok && len(as.Rhs) == 1 {
				r.Call = exprStr(fset, as.Rhs[0])
			}
		case e.Op == token.NEQ && isNilIdent(e.Y) && mentionsPlain(e.X):
			r.Kind = "null"
			r.Op = "!="
			r.Bound = "nil"
			setSubject(e.X)
		case e.Op == token.EQL && strings.HasPrefix(exprStr(fset, e.X), "len(errs)"):
			r.Kind = "anyOf"
			r.Bound = exprStr(fset, e.Y)
		default:
			// comparison between something over plain and a literal
			l, rr, op := e.X, e.Y, e.Op
			if !mentionsPlain(l) && mentionsPlain(rr) {
				l, rr, op = rr, l, flipOp(op)
			}
			if mentionsPlain(l) {
				// multipleOf shapes
				if be, ok := unparen(l).(*ast.BinaryExpr); ok && be.Op == token.REM {
					r.Kind = "multipleOf"
					r.Op = "%"
					r.Bound = exprStr(fset, be.Y)
					setSubject(be.X)
					break
				}
				if ce, ok := unparen(l).(*ast.CallExpr); ok && exprStr(fset, ce.Fun) == "math.Abs" && len(ce.Args) == 1 {
					if me, ok := unparen(ce.Args[0]).(*ast.CallExpr); ok && exprStr(fset, me.Fun) == "math.Mod" && len(me.Args) == 2 {
						r.Kind = "multipleOf"
						r.Op = "mod"
						r.Bound = exprStr(fset, me.Args[1])
						setSubject(me.Args[0])
						break
					}
				}
				r.Kind = "cmp"
				r.Op = op.String()
				r.Bound = exprStr(fset, rr)
				setSubject(l)
			}
		}
	}
	return r
}
