package skel

import (
	"fmt"
	"go/ast"
	"go/parser"
	"go/token"
	"go/types"
	"sort"
	"strings"
	"sync"

	"golang.org/x/tools/go/packages"

	"verif/checker/internal/core"
)

// File is a parsed emitted file.
type File struct {
	R    *Rendered
	Fset *token.FileSet
	AST  *ast.File
	Err  error
}

// Parse parses rendered text as a Go file.
func Parse(r *Rendered) *File {
	f := &File{R: r, Fset: token.NewFileSet()}
	f.AST, f.Err = parser.ParseFile(f.Fset, "emitted.go", r.Text, parser.ParseComments|parser.SkipObjectResolution)
	return f
}

// ParseInto parses rendered text into a shared file set (for files that are type-checked as one package).
func ParseInto(fset *token.FileSet, name string, r *Rendered) *File {
	f := &File{R: r, Fset: fset}
	f.AST, f.Err = parser.ParseFile(fset, name, r.Text, parser.ParseComments|parser.SkipObjectResolution)
	return f
}

// ParseStmts parses rendered text as a statement list (wrapped in a function returning error).
func ParseStmts(r *Rendered) (*File, *ast.BlockStmt) {
	wrapped := &Rendered{Text: "package p\nfunc _() error {\n" + r.Text + "\nreturn nil\n}\n"}
	f := Parse(wrapped)
	if f.Err != nil || f.AST == nil {
		return f, nil
	}
	for _, d := range f.AST.Decls {
		if fd, ok := d.(*ast.FuncDecl); ok {
			return f, fd.Body
		}
	}
	return f, nil
}

// ---- type checking against the real libraries ------------------------------------------

var (
	impOnce sync.Once
	impPkgs map[string]*types.Package
	impErr  error
)

// emittedImports are the packages emitted code may import (plus their deps).
var emittedImports = []string{
	"encoding/json", "fmt", "errors", "reflect", "regexp", "math", "strings", "time", "net/netip",
	"gopkg.in/yaml.v3", "github.com/go-viper/mapstructure/v2", core.ModPath + "/pkg/types",
}

// DepsDir is the checker-side module from which the third-party packages emitted code may import are loaded.
var DepsDir = ""

func loadImports(repo string) (map[string]*types.Package, error) {
	impOnce.Do(func() {
		impPkgs = map[string]*types.Package{}
		load := func(dir string, patterns []string) {
			cfg := &packages.Config{
				Mode: packages.NeedName | packages.NeedTypes | packages.NeedImports | packages.NeedDeps,
				Dir:  dir,
				Env:  core.LoadEnv(),
			}
			pkgs, err := packages.Load(cfg, patterns...)
			if err != nil {
				if impErr == nil {
					impErr = err
				}
				return
			}
			packages.Visit(pkgs, nil, func(p *packages.Package) {
				if p.Types != nil && impPkgs[p.PkgPath] == nil {
					impPkgs[p.PkgPath] = p.Types
				}
				for _, e := range p.Errors {
					if impErr == nil {
						impErr = fmt.Errorf("%s: %s", p.PkgPath, e.Msg)
					}
				}
			})
		}
		var std, third []string
		for _, p := range emittedImports {
			switch {
			case strings.HasPrefix(p, core.ModPath):
				std = append(std, p)
			case strings.Contains(p, "."):
				third = append(third, p)
			default:
				std = append(std, p)
			}
		}
		// the standard library and the module's own pkg/types from /repo (read-only, GOWORK=off) ...
		load(repo, std)
		// ... yaml.v3 and mapstructure from the checker-side module (same versions as /repo/tests/go.mod)
		if DepsDir != "" {
			load(DepsDir, third)
		}
		for _, want := range emittedImports {
			if impPkgs[want] == nil && impErr == nil {
				impErr = fmt.Errorf("package %s could not be loaded for type-checking emitted code", want)
			}
		}
	})
	return impPkgs, impErr
}

type mapImporter struct {
	pkgs    map[string]*types.Package
	fakes   map[string]*types.Package
	missing []string
}

func (m *mapImporter) Import(path string) (*types.Package, error) {
	if p, ok := m.pkgs[path]; ok {
		return p, nil
	}
	if p, ok := m.fakes[path]; ok {
		return p, nil
	}
	m.missing = append(m.missing, path)
	return nil, fmt.Errorf("package %q is not available to emitted code", path)
}

// TypeError is one go/types diagnostic on an emitted file.
type TypeError struct {
	Msg  string
	Line int
	Text string // the source line
}

// TypeCheck type-checks a parsed emitted file against exactly the imports it
// declares (real export data for the libraries emitted code uses). Unused and
// missing imports, undeclared / duplicate identifiers and ill-typed literals
// all surface as errors. extra lets a caller supply packages of the same
// abstract run (cross-package references).
func TypeCheck(repo string, f *File, extra map[string]*types.Package) ([]TypeError, *types.Package, *types.Info, error) {
	return TypeCheckFiles(repo, []*File{f}, extra)
}

// TypeCheckFiles type-checks several emitted files as ONE package (they must share a file set: see ParseInto).
func TypeCheckFiles(repo string, fs []*File, extra map[string]*types.Package) ([]TypeError, *types.Package, *types.Info, error) {
	pkgs, err := loadImports(repo)
	if err != nil {
		return nil, nil, nil, err
	}
	f := fs[0]
	imp := &mapImporter{pkgs: pkgs, fakes: extra}
	var errs []TypeError
	lines := strings.Split(f.R.Text, "\n")
	conf := types.Config{
		Importer: imp,
		Error: func(e error) {
			te, ok := e.(types.Error)
			if !ok {
				errs = append(errs, TypeError{Msg: e.Error()})
				return
			}
			pos := te.Fset.Position(te.Pos)
			txt := ""
			if pos.Line >= 1 && pos.Line <= len(lines) {
				txt = strings.TrimSpace(lines[pos.Line-1])
			}
			errs = append(errs, TypeError{Msg: te.Msg, Line: pos.Line, Text: txt})
		},
	}
	info := &types.Info{Types: map[ast.Expr]types.TypeAndValue{}, Defs: map[*ast.Ident]types.Object{}, Uses: map[*ast.Ident]types.Object{}}
	var asts []*ast.File
	for _, x := range fs {
		asts = append(asts, x.AST)
	}
	pkg, _ := conf.Check(f.AST.Name.Name, f.Fset, asts, info)
	sort.SliceStable(errs, func(i, j int) bool { return errs[i].Line < errs[j].Line })
	return errs, pkg, info, nil
}

// NormalizeTypeError makes a go/types message position- and placeholder-free
// enough to serve as a finding key (placeholders are replaced by their atom names).
func NormalizeTypeError(msg string, r *Rendered) string {
	for _, sp := range r.Spans {
		if strings.Contains(msg, sp.Text) {
			msg = strings.ReplaceAll(msg, sp.Text, "<"+sp.Hole.A.Name+">")
		}
	}
	return msg
}
