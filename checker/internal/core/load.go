// Package core holds what every rule shares: loading /repo into a type-checked,
// SSA-lowered program, naming functions, positions, and the obligation /
// finding / evidence plumbing.
package core

import (
	"fmt"
	"go/ast"
	"go/token"
	"go/types"
	"os"
	"path/filepath"
	"sort"
	"strings"

	"golang.org/x/tools/go/packages"
	"golang.org/x/tools/go/ssa"
	"golang.org/x/tools/go/ssa/ssautil"
)

const ModPath = "github.com/atombender/go-jsonschema"

// Program is /repo's current working tree, parsed, type-checked and lowered.
type Program struct {
	Mod     string // module path prefix that counts as "the module under analysis"
	Repo    string
	Fset    *token.FileSet
	ModPkgs []*packages.Package          // packages of the module under analysis
	ByPath  map[string]*packages.Package // every loaded package
	SSA     *ssa.Program
	Funcs   []*ssa.Function // non-synthetic functions (and closures) of the module, sorted by name
	byName  map[string]*ssa.Function
}

// LoadEnv is the environment every go/packages call against /repo uses. It
// never lets the go command write into /repo (workspace mode appends to
// go.work.sum) and never reaches the network.
func LoadEnv() []string {
	env := []string{}
	for _, kv := range os.Environ() {
		if strings.HasPrefix(kv, "GOFLAGS=") || strings.HasPrefix(kv, "GOWORK=") ||
			strings.HasPrefix(kv, "GOPROXY=") || strings.HasPrefix(kv, "GOTOOLCHAIN=") ||
			strings.HasPrefix(kv, "GOSUMDB=") {
			continue
		}
		env = append(env, kv)
	}
	return append(env, "GOWORK=off", "GOFLAGS=-mod=readonly", "GOPROXY=off", "GOTOOLCHAIN=local", "GOSUMDB=off")
}

// Load parses and type-checks every package of the module in repo (with all
// dependencies, from source) and builds SSA with generics instantiated.
// Any load or type error is fatal for the caller: nothing can be certified on
// code the analysis cannot read.
func Load(repo string) (*Program, error) { return LoadAt(repo, ModPath, 9) }

// LoadAt loads the module mod rooted at dir, requiring at least minPkgs packages.
func LoadAt(repo, mod string, minPkgs int) (*Program, error) {
	cfg := &packages.Config{
		Mode:  packages.LoadAllSyntax,
		Dir:   repo,
		Env:   LoadEnv(),
		Tests: false,
	}
	pkgs, err := packages.Load(cfg, "./...")
	if err != nil {
		return nil, fmt.Errorf("load %s: %w", repo, err)
	}
	if len(pkgs) == 0 {
		return nil, fmt.Errorf("load %s: no packages", repo)
	}
	p := &Program{Mod: mod, Repo: repo, ByPath: map[string]*packages.Package{}, byName: map[string]*ssa.Function{}}
	var errs []string
	packages.Visit(pkgs, nil, func(pk *packages.Package) {
		p.ByPath[pk.PkgPath] = pk
		if strings.HasPrefix(pk.PkgPath, mod) {
			for _, e := range pk.Errors {
				errs = append(errs, e.Error())
			}
		}
	})
	if len(errs) > 0 {
		return nil, fmt.Errorf("type/load errors in module: %s", strings.Join(errs, "; "))
	}
	for _, pk := range pkgs {
		if strings.HasPrefix(pk.PkgPath, mod) {
			p.ModPkgs = append(p.ModPkgs, pk)
		}
	}
	sort.Slice(p.ModPkgs, func(i, j int) bool { return p.ModPkgs[i].PkgPath < p.ModPkgs[j].PkgPath })
	if len(p.ModPkgs) < minPkgs {
		return nil, fmt.Errorf("expected at least %d module packages, loaded %d", minPkgs, len(p.ModPkgs))
	}
	p.Fset = pkgs[0].Fset
	prog, _ := ssautil.AllPackages(pkgs, ssa.InstantiateGenerics)
	prog.Build()
	p.SSA = prog
	for fn := range ssautil.AllFunctions(prog) {
		if !p.InModule(fn) || fn.Blocks == nil {
			continue
		}
		if fn.Synthetic != "" || fn.Origin() != nil {
			continue // wrappers, thunks and generic instances: the origin is analysed instead
		}
		p.Funcs = append(p.Funcs, fn)
		p.byName[p.FuncName(fn)] = fn
	}
	sort.Slice(p.Funcs, func(i, j int) bool { return p.FuncName(p.Funcs[i]) < p.FuncName(p.Funcs[j]) })
	return p, nil
}

// InModule reports whether fn (or the function lexically enclosing it) is
// declared in the module under analysis.
func (p *Program) InModule(fn *ssa.Function) bool {
	for f := fn; f != nil; f = f.Parent() {
		if f.Pkg != nil {
			return strings.HasPrefix(f.Pkg.Pkg.Path(), p.Mod)
		}
		if o := f.Origin(); o != nil && o.Pkg != nil {
			return strings.HasPrefix(o.Pkg.Pkg.Path(), p.Mod)
		}
		if f.Object() != nil && f.Object().Pkg() != nil {
			return strings.HasPrefix(f.Object().Pkg().Path(), p.Mod)
		}
	}
	return false
}

// InModulePkg reports whether a package path belongs to the module under analysis.
func (p *Program) InModulePkg(path string) bool { return strings.HasPrefix(path, p.Mod) }

// FuncName is a stable, readable name: the package path relative to the module
// plus the receiver and name, e.g. "pkg/generator.(*schemaGenerator).addStructField"
// or "main.init$1" for closures.
func (p *Program) FuncName(fn *ssa.Function) string {
	s := fn.String()
	s = strings.ReplaceAll(s, p.Mod+"/", "")
	s = strings.ReplaceAll(s, p.Mod, "main")
	return s
}

// Func returns the module function with the given FuncName, or nil.
func (p *Program) Func(name string) *ssa.Function { return p.byName[name] }

// MustFunc is Func, but a missing anchor is reported through the returned error
// so the caller can fail closed.
func (p *Program) MustFunc(name string) (*ssa.Function, error) {
	if f := p.byName[name]; f != nil {
		return f, nil
	}
	return nil, fmt.Errorf("anchor function %q not found in the current tree", name)
}

// Pos renders a position as path-relative-to-repo:line.
func (p *Program) Pos(pos token.Pos) string {
	if !pos.IsValid() {
		return "?"
	}
	ps := p.Fset.Position(pos)
	rel, err := filepath.Rel(p.Repo, ps.Filename)
	if err != nil || strings.HasPrefix(rel, "..") {
		rel = ps.Filename
	}
	return fmt.Sprintf("%s:%d", rel, ps.Line)
}

// InstrPos finds the best position for an instruction (falls back to the
// nearest earlier instruction with a position, then to the function).
func (p *Program) InstrPos(in ssa.Instruction) string {
	if in.Pos().IsValid() {
		return p.Pos(in.Pos())
	}
	b := in.Block()
	if b != nil {
		idx := -1
		for i, x := range b.Instrs {
			if x == in {
				idx = i
			}
		}
		for i := idx; i >= 0; i-- {
			if b.Instrs[i].Pos().IsValid() {
				return p.Pos(b.Instrs[i].Pos())
			}
		}
		for i := idx + 1; i < len(b.Instrs) && i >= 0; i++ {
			if b.Instrs[i].Pos().IsValid() {
				return p.Pos(b.Instrs[i].Pos())
			}
		}
		return p.Pos(b.Parent().Pos())
	}
	return "?"
}

// Pkg returns the loaded module package with the given path relative to the
// module root ("" or "main" is the root package).
func (p *Program) Pkg(rel string) *packages.Package {
	if rel == "" || rel == "main" {
		return p.ByPath[p.Mod]
	}
	return p.ByPath[p.Mod+"/"+rel]
}

// FuncDecl finds the syntax of a top-level function or method in a module package.
func (p *Program) FuncDecl(pkgRel, recv, name string) (*ast.FuncDecl, *packages.Package) {
	pk := p.Pkg(pkgRel)
	if pk == nil {
		return nil, nil
	}
	for _, f := range pk.Syntax {
		for _, d := range f.Decls {
			fd, ok := d.(*ast.FuncDecl)
			if !ok || fd.Name.Name != name {
				continue
			}
			r := ""
			if fd.Recv != nil && len(fd.Recv.List) == 1 {
				t := fd.Recv.List[0].Type
				if st, ok := t.(*ast.StarExpr); ok {
					t = st.X
				}
				if id, ok := t.(*ast.Ident); ok {
					r = id.Name
				}
			}
			if r == recv {
				return fd, pk
			}
		}
	}
	return nil, pk
}

// StaticCallee resolves a call instruction to a concrete function when there
// is exactly one (static call, or method call on a concrete receiver).
func StaticCallee(c ssa.CallInstruction) *ssa.Function {
	return c.Common().StaticCallee()
}

// CalleeName renders the callee of a call as "pkgpath.Func" or
// "(pkgpath.T).Method" / "(*pkgpath.T).Method"; for interface invokes it is
// "invoke pkgpath.I.Method"; for dynamic calls "dynamic".
func CalleeName(c ssa.CallInstruction) string {
	cc := c.Common()
	if cc.IsInvoke() {
		return "invoke " + types.TypeString(cc.Value.Type(), nil) + "." + cc.Method.Name()
	}
	if f := cc.StaticCallee(); f != nil {
		if o := f.Origin(); o != nil {
			return o.String()
		}
		return f.String()
	}
	if b, ok := cc.Value.(*ssa.Builtin); ok {
		return "builtin " + b.Name()
	}
	return "dynamic"
}

// IsErrorType reports whether t is the predeclared error interface.
func IsErrorType(t types.Type) bool {
	return types.Identical(t, types.Universe.Lookup("error").Type())
}
