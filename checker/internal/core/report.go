package core

import (
	"encoding/json"
	"fmt"
	"os"
	"path/filepath"
	"sort"
	"strings"
	"time"
)

// Finding is one reported construct. Its identity is (Property, Rule, Func,
// Construct) — never a line number — so that known findings stay matched across
// unrelated edits and a *different* violation of the same property is still new.
type Finding struct {
	Property  string `json:"property"`
	Rule      string `json:"rule"`
	Func      string `json:"func"`      // function (or emit site's function) the construct lives in
	Construct string `json:"construct"` // normalised expression / call / abstract configuration
	Kind      string `json:"kind"`      // "violation" or "undecided"
	Pos       string `json:"pos,omitempty"`
	Msg       string `json:"msg"`
	Detail    any    `json:"detail,omitempty"`
}

func (f Finding) Key() string {
	return f.Property + "|" + f.Rule + "|" + f.Func + "|" + f.Construct
}

// KnownEntry is a line of /verif/known_findings.json.
type KnownEntry struct {
	Property  string `json:"property"`
	Rule      string `json:"rule"`
	Func      string `json:"func"`
	Construct string `json:"construct"`
	What      string `json:"what"`
	Witness   string `json:"witness,omitempty"`
	Status    string `json:"status"` // "known" or "fixed"
	Commit    string `json:"commit,omitempty"`
}

func (k KnownEntry) Key() string {
	return k.Property + "|" + k.Rule + "|" + k.Func + "|" + k.Construct
}

type Obligation struct {
	Rule   string `json:"rule"`
	Key    string `json:"key"`
	OK     bool   `json:"ok"`
	Detail string `json:"detail,omitempty"`
}

// Ctx collects what one property check did.
type Ctx struct {
	Property string
	Tier     string
	Seed     int64
	VerifDir string
	Prog     *Program
	Start    time.Time
	// NoDefaultModeTwin: the driver already runs its members without --extra-imports itself (C01, C16)
	NoDefaultModeTwin bool

	obligations []Obligation
	oblSeen     map[string]bool
	findings    []Finding
	findSeen    map[string]bool
	Counts      map[string]int
	Samples     []any
	Trusted     []string
	Assumptions []string
	Explanation string
	Exhaustive  bool
	Notes       []string
	maxSamples  int
	knownSet    map[string]bool
}

func NewCtx(prop, tier string, seed int64, verifDir string, prog *Program) *Ctx {
	return &Ctx{
		Property: prop, Tier: tier, Seed: seed, VerifDir: verifDir, Prog: prog, Start: time.Now(), Trusted: []string{}, Assumptions: []string{}, Notes: []string{},
		oblSeen: map[string]bool{}, findSeen: map[string]bool{}, Counts: map[string]int{}, maxSamples: 12,
	}
}

// Obl records an obligation (a rule instance on a construct) and whether it was
// discharged. Duplicate keys are merged (a failure wins).
func (c *Ctx) Obl(rule, key string, ok bool, detail string) {
	k := rule + "|" + key
	if c.oblSeen[k] {
		if !ok {
			for i := range c.obligations {
				if c.obligations[i].Rule == rule && c.obligations[i].Key == key {
					c.obligations[i].OK = false
					c.obligations[i].Detail = detail
				}
			}
		}
		return
	}
	c.oblSeen[k] = true
	c.obligations = append(c.obligations, Obligation{rule, key, ok, detail})
	c.Counts["rule:"+rule]++
}

// Report adds a finding (deduplicated by key).
func (c *Ctx) Report(f Finding) {
	f.Property = c.Property
	if f.Kind == "" {
		f.Kind = "violation"
	}
	if c.findSeen[f.Key()] {
		return
	}
	c.findSeen[f.Key()] = true
	c.findings = append(c.findings, f)
}

// Fail records an obligation as failed and reports it.
func (c *Ctx) Fail(rule, fn, construct, pos, msg string, detail any) {
	c.Obl(rule, fn+" :: "+construct, false, msg)
	c.Report(Finding{Rule: rule, Func: fn, Construct: construct, Pos: pos, Msg: msg, Detail: detail})
}

// Undecided is a fail-closed report: the analysis could not read the construct.
func (c *Ctx) Undecided(rule, fn, construct, pos, msg string) {
	c.Obl(rule, fn+" :: "+construct, false, "undecided: "+msg)
	c.Report(Finding{Rule: rule, Func: fn, Construct: construct, Pos: pos, Msg: msg, Kind: "undecided"})
}

// Pass records a discharged obligation.
func (c *Ctx) Pass(rule, fn, construct, detail string) {
	c.Obl(rule, fn+" :: "+construct, true, detail)
}

// Floor fails closed when a rule matched fewer instances than were confirmed by
// hand on the pinned tree: a rule that matches nothing passes forever.
func (c *Ctx) Floor(rule string, got, min int, what string) {
	c.Counts["floor:"+rule+":got"] = got
	c.Counts["floor:"+rule+":min"] = min
	if got < min {
		c.Undecided(rule, "(floor)", what, "", fmt.Sprintf("rule %s matched %d %s, fewer than the %d confirmed on the pinned tree; the rule no longer sees the code it is meant to check", rule, got, what, min))
	}
}

func (c *Ctx) Sample(s any) {
	if len(c.Samples) < c.maxSamples {
		c.Samples = append(c.Samples, s)
	}
}

func (c *Ctx) Trust(s ...string) {
	for _, x := range s {
		dup := false
		for _, y := range c.Trusted {
			if x == y {
				dup = true
			}
		}
		if !dup {
			c.Trusted = append(c.Trusted, x)
		}
	}
}

func (c *Ctx) Assume(s ...string) { c.Assumptions = append(c.Assumptions, s...) }

func (c *Ctx) Findings() []Finding { return c.findings }

func loadKnown(verifDir string) ([]KnownEntry, error) {
	b, err := os.ReadFile(filepath.Join(verifDir, "known_findings.json"))
	if err != nil {
		if os.IsNotExist(err) {
			return nil, nil
		}
		return nil, err
	}
	var out struct {
		Findings []KnownEntry `json:"findings"`
	}
	if err := json.Unmarshal(b, &out); err != nil {
		return nil, fmt.Errorf("known_findings.json: %w", err)
	}
	return out.Findings, nil
}

// IsKnown reports whether a finding key is listed as a known (unrepaired) finding for this property.
func (c *Ctx) IsKnown(rule, fn, construct string) bool {
	if c.knownSet == nil {
		c.knownSet = map[string]bool{}
		ks, _ := loadKnown(c.VerifDir)
		for _, k := range ks {
			if k.Status == "known" {
				c.knownSet[k.Key()] = true
			}
		}
	}
	return c.knownSet[c.Property+"|"+rule+"|"+fn+"|"+construct]
}

// Finish matches findings against the committed known-findings file, prints
// KNOWN-FINDING / VIOLATION lines, writes the replay file (if needed) and the
// evidence file, and returns the process exit code.
func (c *Ctx) Finish() int {
	known, kerr := loadKnown(c.VerifDir)
	knownBy := map[string]KnownEntry{}
	for _, k := range known {
		if k.Status == "known" {
			knownBy[k.Key()] = k
		}
	}
	sort.SliceStable(c.findings, func(i, j int) bool { return c.findings[i].Key() < c.findings[j].Key() })
	var fresh []Finding
	nKnown := 0
	for _, f := range c.findings {
		if k, ok := knownBy[f.Key()]; ok && f.Kind == "violation" {
			nKnown++
			fmt.Printf("KNOWN-FINDING: property=%s rule=%s at %s [%s :: %s] %s\n", c.Property, f.Rule, f.Pos, f.Func, f.Construct, k.What)
			continue
		}
		fresh = append(fresh, f)
	}
	if kerr != nil {
		fresh = append(fresh, Finding{Property: c.Property, Rule: "known-findings", Kind: "undecided", Msg: kerr.Error()})
	}
	exit := 0
	if len(fresh) > 0 {
		exit = 1
		dir := filepath.Join(c.VerifDir, "replay")
		_ = os.MkdirAll(dir, 0o755)
		path := filepath.Join(dir, fmt.Sprintf("%s-%s.json", c.Property, c.Tier))
		b, _ := json.MarshalIndent(map[string]any{"property": c.Property, "tier": c.Tier, "findings": fresh}, "", " ")
		_ = os.WriteFile(path, b, 0o644)
		for _, f := range fresh {
			fmt.Printf("  %s: [%s] %s: %s :: %s — %s\n", f.Kind, f.Rule, f.Pos, f.Func, f.Construct, f.Msg)
		}
		fmt.Printf("VIOLATION property=%s replay=%s\n", c.Property, path)
	}
	c.writeEvidence(len(fresh), nKnown)
	nOK := 0
	for _, o := range c.obligations {
		if o.OK {
			nOK++
		}
	}
	if os.Getenv("VCHECK_VERBOSE") != "" {
		for _, o := range c.obligations {
			fmt.Printf("  obl %v [%s] %s — %s\n", o.OK, o.Rule, o.Key, o.Detail)
		}
	}
	fmt.Printf("%s %s: %d obligations, %d discharged, %d known findings, %d new findings, %.1fs\n",
		c.Property, c.Tier, len(c.obligations), nOK, nKnown, len(fresh), time.Since(c.Start).Seconds())
	return exit
}

func (c *Ctx) writeEvidence(nFresh, nKnown int) {
	nOK := 0
	rules := map[string][2]int{}
	for _, o := range c.obligations {
		r := rules[o.Rule]
		r[0]++
		if o.OK {
			nOK++
			r[1]++
		}
		rules[o.Rule] = r
	}
	perRule := map[string]any{}
	for k, v := range rules {
		perRule[k] = map[string]int{"obligations": v[0], "discharged": v[1]}
	}
	var failed []Obligation
	for _, o := range c.obligations {
		if !o.OK {
			failed = append(failed, o)
		}
	}
	samples := c.Samples
	if len(samples) == 0 {
		for i, o := range c.obligations {
			if i >= 8 {
				break
			}
			samples = append(samples, o)
		}
	}
	if len(samples) == 0 {
		samples = []any{"(no obligation was generated: see violations)"}
	}
	counts := map[string]int{}
	for k, v := range c.Counts {
		counts[k] = v
	}
	cov := map[string]any{
		"explanation":            c.Explanation,
		"obligations":            len(c.obligations),
		"discharged":             nOK,
		"per_rule":               perRule,
		"counts":                 counts,
		"samples":                samples,
		"trusted_base":           c.Trusted,
		"exhaustive":             c.Exhaustive,
		"checker_cmd":            strings.Join(os.Args, " "),
		"known_findings_matched": nKnown,
		"undischarged":           failed,
		"notes":                  c.Notes,
		"analysed_functions":     len(c.Prog.Funcs),
		"analysed_packages":      len(c.Prog.ModPkgs),
		"repo":                   c.Prog.Repo,
	}
	ev := map[string]any{
		"property_id": c.Property,
		"tier":        c.Tier,
		"seed":        c.Seed,
		"level":       "other",
		"coverage":    cov,
		"assumptions": c.Assumptions,
		"wall_s":      time.Since(c.Start).Seconds(),
		"violations":  nFresh,
	}
	dir := filepath.Join(c.VerifDir, "evidence")
	_ = os.MkdirAll(dir, 0o755)
	b, _ := json.MarshalIndent(ev, "", " ")
	_ = os.WriteFile(filepath.Join(dir, c.Property+".json"), append(b, '\n'), 0o644)
}
