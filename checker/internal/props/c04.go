package props

import (
	"strings"
	"verif/checker/internal/core"
	"verif/checker/internal/engb"
	"verif/checker/internal/fam"
	"verif/checker/internal/gen"
)

func init() {
	Registry["C04"] = C04
	Registry["C07"] = C07
	Registry["C03"] = C03
}

func checkRoot(w *fam.World, fm *fam.FileModel) []fam.Issue {
	return w.CheckObject(fm, w.Spec, "", "root")
}

// C04 — a document missing a required property is rejected, at every depth.
func C04(c *core.Ctx) {
	c.Explanation = engineAText +
		"C04 (A-REQ): objects with three properties (string, integer, nested object with its own required property) × all 16 required subsets × default/no default × nullable, required " +
		"properties of every non-pointer kind (formats, typed additionalProperties maps, arrays, booleans), objects inside arrays (depth 1 and 2), behind a definition reference, anyOf branch types, " +
		"objects with additionalProperties, and a name listed in `required` that has no property. For every struct the emitted Unmarshal methods must contain, before the typed decode and guarded by " +
		"raw != nil, a presence test on the raw map for exactly the raw name of each required, non-defaulted property — and for no other key (A-NOEXTRA). " +
		"allOf families (2..4 branches, overlapping properties, a constraint-only branch adding `required`, a referenced branch, a base that also requires a sibling's property) are included on the modelled mergo merge. " +
		"A-TYPEFORM: the decoder hands the generator the type list exactly as written (two-element lists in both orders), so the nullable members of the families stand for the documents that spell them."
	rules := ruleSet("A-REQ", "A-NOEXTRA", "A-TAG", "A-MAP")
	cfg := gen.DefaultConfig()
	var ms []member
	ms = append(ms, requiredMembers(c.Tier, cfg)...)
	ms = append(ms, anyOfMembers(c.Tier, cfg)...)
	ms = append(ms, addPropsMembers(c.Tier, cfg)...)
	ms = append(ms, allOfMembers(cfg)...)
	ms = append(ms, mapRefMembers(cfg)...)
	for _, mb := range ms {
		mb := mb
		runMember(c, mb, rules, 256, func(w *fam.World, fm *fam.FileModel) []fam.Issue {
			var keep []fam.Issue
			for _, is := range checkRoot(w, fm) {
				if is.Rule == "A-NOEXTRA" && !strings.Contains(is.Construct, "presence") {
					continue // value-level branches belong to the keyword's own property
				}
				// the type mapping is C02/C03's business, except where it decides whether a presence check is REACHED at all: a map
				// whose values are objects must have the value object's own type as its element type
				if is.Rule == "A-MAP" && !strings.HasPrefix(mb.name, "map with values given by reference") {
					continue
				}
				keep = append(keep, is)
			}
			return keep
		})
	}
	ruleMultiSel(c, ruleSet("A-REQ", "A-NOEXTRA", "A-MAP"), 3, "differing only in required", "pure allOf composition", "recursive through #")
	// the families start from the schema MODEL; a document reaches that model through the decoders: a type list arrives as written
	// (nullable objects in both orders keep their struct and so their presence checks), and both spellings of a one-element list agree
	ruleTypeForm(c)
	// the presence checks of a schema are those of ITS declaration: a same-named schema is bound to the equal one (A-DEDUP)
	ruleDedup(c)
	c.Floor("families", c.Counts["members"], 100, "family members")
}

// C07 — array length limits are enforced at every nesting level.
func C07(c *core.Ctx) {
	c.Explanation = engineAText +
		"C07 (A-REJ items): arrays of depth 1..3 (thorough: the full product of per-depth {none,minItems,maxItems,both}; quick: the full product to depth 2 plus depth-3 members with limits at all levels, " +
		"only at the innermost and only at the middle level) of string and integer elements in required, optional and nullable positions, with a DISTINCT atom for every limit at every depth: the check " +
		"for the depth-d array must compare len of the d-times-indexed value with the depth-d atom, inside exactly d-1 range loops whose variables index the operand, and exist whenever depth d states a " +
		"limit even if outer depths do not. Not decided: validation of element values by inline primitive item schemas."
	rules := ruleSet("A-REJ", "A-NOEXTRA", "A-NILG")
	for _, mb := range arrayMembers(c.Tier, gen.DefaultConfig()) {
		runMember(c, mb, rules, 16, checkRoot)
	}
	// arrays whose items are of type null keep their own length limits (the null check of the items and the limits of the array are
	// two constraints of one level)
	for _, mb := range nullMembers(c.Tier, gen.DefaultConfig()) {
		if strings.Contains(mb.name, "{min") {
			runMember(c, mb, rules, 16, checkRoot)
		}
	}
	runCompositions(c, rules, "Items")
	ruleMultiSel(c, ruleSet("A-REJ", "A-NOEXTRA"), 2, "differing only in minItems", "differing only in maxItems")
	ruleFidelity(c, "minItems", "maxItems")
	// a length check only runs on a field the decoder fills: the field's identifier must be exported for every property name and
	// every user capitalization (A-IDENT, shared with C14)
	ruleIdent(c)
	ruleDedup(c)
	c.Floor("families", c.Counts["members"], 80, "family members")
}

// C03 — a value of the wrong JSON type is rejected; null is accepted where allowed.
func C03(c *core.Ctx) {
	c.Explanation = engineAText +
		"C03 (A-MAP, A-REJ null): every schema type/format (string, integer, number, boolean, the five formats, arrays of primitives, objects, arrays of objects, arrays of nullable items) in six " +
		"positions (required, optional, nullable in both type-list orders, behind both kinds of definition reference), with and without --min-sized-ints: the Go field type must be the one in the " +
		"oracle table (so that encoding/json's own type check is the schema's), a pointer exactly where null or absence must be representable; `type: null` positions, alone and as array items to " +
		"depth 3 also next to minItems/maxItems, must get a `!= nil` reject branch indexed by the matching loop variables. " +
		"Not decided: what encoding/json, yaml.v3 and mapstructure do with a mismatched value (trusted base); integer-vs-non-integral-number is encoding/json's behaviour for Go int types."
	rules := ruleSet("A-MAP", "A-REJ", "A-NOEXTRA", "A-TAG")
	cfg := gen.DefaultConfig()
	sized := cfg
	sized.MinSizedInts = true
	var ms []member
	ms = append(ms, typeMembers(c.Tier, cfg)...)
	ms = append(ms, nullMembers(c.Tier, cfg)...)
	for _, m := range typeMembers(c.Tier, sized) {
		ms = append(ms, m)
	}
	// compositions: the merged struct (not interface{}) carries every branch's typed fields
	ms = append(ms, allOfMembers(cfg)...)
	ms = append(ms, anyOfMembers(c.Tier, cfg)...)
	// bounded integers under --min-sized-ints in nullable positions
	for _, pos := range []string{"nullable-required", "nullable-optional", "required", "optional"} {
		sp := &fam.Spec{Kind: "integer", Kw: []string{"minimum", "maximum"}}
		ms = append(ms, member{name: "sized bounded integer " + pos, cfg: sized, root: place(sp, pos)})
	}
	for _, mb := range ms {
		budget := 64
		if mb.cfg.MinSizedInts {
			budget = 4096
		}
		// width hints (format int32/int64/double): a narrower Go number type would still reject every wrong JSON type, so the
		// exact-width demand of the oracle table belongs to C02 (no valid value lost) and C08 (enum carrier), not here
		if strings.Contains(mb.name, "integer:int32") || strings.Contains(mb.name, "integer:int64") || strings.Contains(mb.name, "number:double") {
			continue
		}
		runMember(c, mb, rules, budget, func(w *fam.World, fm *fam.FileModel) []fam.Issue {
			var keep []fam.Issue
			keep = append(keep, unionTypeIssues(mb.name, fm)...)
			for _, is := range checkRoot(w, fm) {
				// length limits are C07's business; here only the type mapping and the null-type branches count
				if is.Rule == "A-MAP" || is.Rule == "A-TAG" || strings.Contains(is.Construct, "null") || strings.Contains(is.Msg, "type null") {
					keep = append(keep, is)
				}
			}
			return keep
		})
	}
	ruleMultiSel(c, ruleSet("A-MAP", "A-REJ", "A-NOEXTRA", "A-REQ"), 2, "allOf branch in two files", "differing only in the target of a nested reference")
	// the composition members rest on the mergo model; its assumption about module code (the TypeList transformer is a no-op) is checked
	emit(c, engb.New(c.Prog).MergoModelAssumptions())
	// which declaration a same-named schema is bound to decides which constraints validate it (A-DEDUP)
	ruleDedup(c)
	c.Floor("families", c.Counts["members"], 150, "family members")
}
