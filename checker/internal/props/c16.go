package props

import (
	"fmt"
	"verif/checker/internal/engb"

	"verif/checker/internal/absint"
	"verif/checker/internal/core"
	"verif/checker/internal/fam"
	"verif/checker/internal/gen"
)

func init() { Registry["C16"] = C16 }

// runPair runs one family member under two configurations and relates the (single-world) outputs.
func runPair(c *core.Ctx, name string, root *fam.Spec, a, b gen.Config, rel func(fa, fb *fam.FileModel) []fam.Issue) {
	wa, ca := fam.Run(c.Prog, a, root, 512, nil)
	wb, cb := fam.Run(c.Prog, b, root, 512, nil)
	key := name + " " + fam.CfgString(a) + " ~ " + fam.CfgString(b)
	c.Counts["pairs"]++
	if !ca || !cb {
		c.Undecided("A-UNDECIDED", "(families)", "relational run of "+name, "", "fork budget exceeded")
		return
	}
	// relate each world of the finer run to the world of the coarser run whose decided facts it refines
	if len(wa) < len(wb) {
		wa, wb = wb, wa
		swapped := rel
		rel = func(fa, fb *fam.FileModel) []fam.Issue { return swapped(fb, fa) }
	}
	for i := range wa {
		x := wa[i]
		var y *fam.World
		for _, cand := range wb {
			ok := true
			for k, v := range cand.Facts {
				if xv, has := x.Facts[k]; has && xv != v {
					ok = false
				}
			}
			if ok {
				y = cand
				break
			}
		}
		if y == nil {
			c.Undecided("A-UNDECIDED", "(families)", "relational run of "+name, "", "no world of the second configuration matches the facts of a world of the first")
			continue
		}
		var issues []fam.Issue
		for _, w := range []*fam.World{x, y} {
			issues = append(issues, w.RunIssues()...)
			issues = append(issues, w.SynIssues()...)
			if w.Err == nil && w.GenErr != "" {
				issues = append(issues, fam.Issue{Rule: "A-GENERR", Construct: "generator rejects a valid schema", Msg: w.GenErr})
			}
		}
		fa, fb := x.Models["out.go"], y.Models["out.go"]
		if fa != nil && fb != nil && len(issues) == 0 {
			issues = append(issues, rel(fa, fb)...)
		}
		bad := 0
		for _, is := range issues {
			if is.Rule == "A-EVENT:symbolic-format" {
				continue
			}
			fn := "(emitted code)"
			if c.IsKnown(is.Rule, fn, is.Construct) {
				c.Report(core.Finding{Rule: is.Rule, Func: fn, Construct: is.Construct, Msg: is.Msg})
				continue
			}
			bad++
			kind := "violation"
			if is.Rule == "A-UNDECIDED" {
				kind = "undecided"
			}
			c.Report(core.Finding{Rule: is.Rule, Func: fn, Construct: is.Construct, Kind: kind, Msg: is.Msg + "  [first seen on: " + key + "]"})
		}
		c.Obl("pair", fmt.Sprintf("%s world%v", key, x.Script), bad == 0, fmt.Sprintf("%d issue(s)", bad))
		c.Counts["worlds"]++
	}
}

// C16 — output-shaping options change only what they name.
func C16(c *core.Ctx) {
	c.NoDefaultModeTwin = true // the option sets of this driver include the run without --extra-imports
	c.Explanation = engineAText +
		"C16 (A-REL) is relational: each member of the broad union of families is generated twice, under two option sets that differ in exactly one option, and the two skeleton files are compared after " +
		"replacing placeholders by atom names: --only-models on/off => identical type and constant declarations, and with it on no function, method or variable and no validation-support import; " +
		"--tags json vs the default list => identical types up to tag text, identical methods, constants and imports; --extra-imports off => no YAML method or import, identical types, variables and JSON methods; " +
		"--struct-name-from-title and --capitalization (on families with concrete names, so that the real identifier synthesiser runs) => identical up to a positional renaming of declared identifiers. " +
		"B-FLAG: every option flag's variable is the one the Config field implementing that option is loaded from (flag name -> field table frozen in the rule; main.go is executed by no test). " +
		"Multi-file: titled roots referring to each other as whole files under -t, and --schema-root-type for one of two files, keep each root under its own name (A-ROUTE/A-TYP)."
	d := gen.DefaultConfig()
	only := d
	only.OnlyModels = true
	jsonTags := d
	jsonTags.Tags = []string{"json"}
	otherTags := d
	otherTags.Tags = []string{"json", "mapstructure"}
	noExtra := d
	noExtra.ExtraImports = false
	members := broadMembers(c.Tier, d)
	for i, mb := range members {
		if c.Tier != "thorough" && i%2 == 1 {
			continue
		}
		if mb.mayFail {
			continue // the generator may refuse this member: nothing to compare
		}
		runPair(c, mb.name, mb.root, d, only, func(fa, fb *fam.FileModel) []fam.Issue {
			return fam.RelOnlyModels(fa.Normalize(), fb.Normalize())
		})
		runPair(c, mb.name, mb.root, d, jsonTags, func(fa, fb *fam.FileModel) []fam.Issue {
			return fam.RelTags(fa.Normalize(), fb.Normalize(), "with the default tags", "with --tags json")
		})
		if i%4 == 0 {
			runPair(c, mb.name, mb.root, d, otherTags, func(fa, fb *fam.FileModel) []fam.Issue {
				return fam.RelTags(fa.Normalize(), fb.Normalize(), "with the default tags", "with --tags json,mapstructure")
			})
		}
		runPair(c, mb.name, mb.root, d, noExtra, func(fa, fb *fam.FileModel) []fam.Issue {
			return fam.RelExtraImports(fa.Normalize(), fb.Normalize())
		})
	}
	// naming options on concrete names
	title := d
	title.StructNameFromTitle = true
	caps := d
	caps.Capitalizations = []string{"ID", "URL"}
	for _, mb := range concreteNameMembers() {
		runPair(c, mb.name, mb.root, d, title, func(fa, fb *fam.FileModel) []fam.Issue {
			return fam.RelRename(fa, fb, "by file name", "with --struct-name-from-title")
		})
		runPair(c, mb.name, mb.root, d, caps, func(fa, fb *fam.FileModel) []fam.Issue {
			return fam.RelRename(fa, fb, "without", "with --capitalization ID,URL")
		})
	}
	// --capitalization changes identifiers ONLY: whatever the user's capitalizations (also ones that start lower-case: iOS, gRPC), every
	// name still becomes a valid EXPORTED identifier — an unexported field is skipped by the decoders, i.e. the option would change
	// which documents are accepted (A-IDENT, shared with C14)
	ruleIdent(c)
	c.Floor("pairs", c.Counts["pairs"], 800, "option pairs related")
	// naming options with several files: every root keeps the name ITS OWN title / mapping gives it
	ruleMultiSel(c, ruleSet("A-ROUTE", "A-TYP", "A-MAP", "A-REL"), 5, "names from titles", "--schema-root-type")
	emit(c, engb.New(c.Prog).FlagWiring("main.main", "main.init$1", "generator.Config"))
}

// concreteNameMembers: families whose names are concrete so that the real caser runs.
func concreteNameMembers() []member {
	var out []member
	mk := func(names []string, title bool) *fam.Spec {
		var props []*fam.Prop
		for i, n := range names {
			sp := &fam.Spec{Kind: []string{"string", "integer", "number"}[i%3]}
			if i%2 == 0 {
				sp.Kw = map[string][]string{"string": {"minLength"}, "integer": {"minimum"}, "number": {"maximum"}}[sp.Kind]
			}
			props = append(props, &fam.Prop{Label: n, Spec: sp, Required: i%2 == 1, Concrete: n})
		}
		return &fam.Spec{Kind: "object", Props: props, Title: title, ConcreteTitle: "my root type"}
	}
	out = append(out, member{name: "concrete names id,url,user_id", root: mk([]string{"id", "url", "user_id"}, true)})
	out = append(out, member{name: "concrete names Id,URL,name", root: mk([]string{"Id", "URL", "name"}, true)})
	out = append(out, member{name: "concrete names id_url,x,y", root: mk([]string{"id_url", "x", "y"}, true)})
	nested := mk([]string{"id", "home_url"}, true)
	nested.Props = append(nested.Props, &fam.Prop{Label: "owner", Concrete: "owner", Spec: &fam.Spec{Kind: "object", Props: []*fam.Prop{{Label: "id", Concrete: "id", Spec: &fam.Spec{Kind: "string"}, Required: true}}}})
	out = append(out, member{name: "concrete names nested", root: nested})
	return out
}

var _ = absint.Lit
