package props

import (
	"fmt"
	"go/types"
	"strings"

	"verif/checker/internal/absint"
	"verif/checker/internal/core"
	"verif/checker/internal/gen"
)

// ruleFixMapKeys (A-FIXKEYS): yamlutils.FixMapKeys sits between the YAML decoder and encoding/json. It may only turn map KEYS into
// strings; every VALUE must come out as it went in, or the YAML spelling of a schema means something else than its JSON spelling.
// The function is interpreted on a generic map {k1: "S1", k2: ["S2"], k3: {k4: "S3"}} (k3's value keyed by interface{}, as the
// decoder hands nested mappings back) whose strings are symbolic; equality tests between such a text (also case-mapped) and a
// constant are real forks, so "the text happens to be yes / on / 1e3" is a world of its own.
func ruleFixMapKeys(c *core.Ctx) {
	fn, err := c.Prog.MustFunc("pkg/yamlutils.FixMapKeys")
	if err != nil {
		c.Undecided("A-FIXKEYS", "pkg/yamlutils.FixMapKeys", "anchor", "", err.Error())
		return
	}
	anyT := types.NewInterfaceType(nil, nil)
	anyMap := types.NewMap(anyT, anyT)
	type outT struct{ before, after string }
	runs, complete := absint.Explore(c.Prog, 256, func(m *absint.Machine) { gen.InstallStubs(m) }, func(m *absint.Machine) any {
		g := gen.New(m)
		str := func(name string) absint.Value {
			a := m.NewAtom("RawStr", name)
			a.Facts["forkconst"] = "yes"
			return gen.Any(gen.TString(), absint.HoleStr(a))
		}
		inner := g.Map([]gen.V{gen.Any(gen.TString(), g.Raw("k4", true))}, []gen.V{str("S3")})
		doc := g.Map(
			[]gen.V{g.Raw("k1", true), g.Raw("k2", true), g.Raw("k3", true)},
			[]gen.V{str("S1"), gen.Any(gen.TAnySlice(), g.Anys(str("S2"))), gen.Any(anyMap, inner)})
		o := &outT{before: absint.DebugValue(doc)}
		m.CallFunction(fn, []absint.Value{doc}, nil)
		o.after = absint.DebugValue(doc)
		return o
	})
	noteRuns(c, runs)
	if !complete {
		c.Undecided("A-FIXKEYS", "pkg/yamlutils.FixMapKeys", "values pass through unchanged", "", "fork budget")
		return
	}
	for _, r := range runs {
		key := fmt.Sprintf("values pass through unchanged world%v", r.Script)
		if r.Err != nil {
			c.Undecided("A-FIXKEYS", "pkg/yamlutils.FixMapKeys", "values pass through unchanged", r.Err.Pos, r.Err.Error())
			continue
		}
		o := r.Out.(*outT)
		// the only permitted difference: the nested mapping's dynamic type (keys stringified) — DebugValue prints keys and values
		norm := func(x string) string {
			x = strings.ReplaceAll(x, "(map[interface{}]interface{})", "(map[string]interface{})")
			return strings.ReplaceAll(x, "(string)", "")
		}
		if norm(o.before) == norm(o.after) {
			c.Pass("A-FIXKEYS", "pkg/yamlutils.FixMapKeys", key, "the document's values are unchanged: "+o.after)
		} else {
			c.Fail("A-FIXKEYS", "pkg/yamlutils.FixMapKeys", "values pass through unchanged", c.Prog.Pos(fn.Pos()),
				fmt.Sprintf("a value of the YAML document is changed on its way to the JSON decoder: before %s, after %s (world %v: the decisions say which text the value was taken to be) — the YAML spelling of a schema is read differently from its JSON spelling", o.before, o.after, r.Forks), nil)
		}
	}
}
