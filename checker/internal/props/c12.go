package props

import (
	"fmt"
	"go/token"
	"strings"

	"golang.org/x/tools/go/ssa"

	"verif/checker/internal/core"
	"verif/checker/internal/engb"
)

func init() { Registry["C12"] = C12 }

// C12 — output is a deterministic function of schema content and options.
func C12(c *core.Ctx) {
	c.Explanation = "B-DET1: every `range` over a map in the module is classified from its SSA body: S1 keys collected by append and handed to a " +
		"total-order sort (sort.Strings, or a comparator that compares the elements themselves with </>) before any other use; S2 only effects keyed by the " +
		"iteration (writes into maps under the range key or under a field of the value that is proven unique; calls whose arguments are all " +
		"iteration-local; diagnostics; aborts); S3 a search that returns on equality with a field proven unique among the map's values (uniqueness is " +
		"itself derived: every insertion into the map is dominated by the no-match exit of such a search, checked by enumerating truth assignments of " +
		"the body's conditions); S4 a reasoned table entry whose side condition is re-checked. Anything else is a violation. " +
		"The unsorted key list of main.allKeys is accepted only while it flows solely into Config.SchemaMappings and every loop over SchemaMappings is a " +
		"side-effect-free first-match search on equality of SchemaID (ids are distinct map keys, so the order cannot matter). " +
		"B-DET2: no call to clock, randomness, environment, cwd, hostname, pid, filepath.Abs and no %p format anywhere in the module. " +
		"B-DET3: string-level taint from the schema file path (DoFile argument, QualifiedFileName results) reaches no Emitter print, no identifier " +
		"synthesis and no code-model field except through filepath.Base. " +
		"B-PARENT: every schema handed to addFile/newSchemaGenerator as the parent of further references carries the qualified file name (first result of QualifiedFileName), so nested relative references do not depend on the working directory. " +
		"Decided: the module's own sources of order/ambient dependence. Not decided: iteration order inside third-party libraries (mergo, litter, goccy), byte equality itself."
	c.Trust("sort.Strings/sort.Slice sort; third-party libraries (mergo, litter, goccy/go-yaml, cobra) are deterministic",
		"goccy/go-yaml rejects mappings whose keys coincide after stringification (reproduced during triage)")
	a := engb.New(c.Prog)
	ranges, facts := a.MapRanges()
	for _, f := range facts {
		c.Pass("B-DET1:unique", "field "+f.MapField, "value."+f.Path+" unique", f.Proof)
		c.Sample(map[string]any{"rule": "B-DET1:unique", "map_field": f.MapField, "unique_path": f.Path, "proof": f.Proof})
	}
	occ := map[string]int{}
	for _, r := range ranges {
		fn := c.Prog.FuncName(r.Fn)
		key := fmt.Sprintf("range %s#%d", r.MapExpr, occ[fn+r.MapExpr])
		occ[fn+r.MapExpr]++
		if r.Class == "" && fn == "main.allKeys" {
			// S4 with a checked side condition
			if ok, why := allKeysSideCondition(c, a); ok {
				r.Class, r.Why = "S4", why
			} else {
				r.Problems = append(r.Problems, "side condition of the unsorted-keys exception failed: "+why)
			}
		}
		if r.Class != "" {
			c.Pass("B-DET1", fn, key, r.Class+": "+r.Why)
			c.Sample(map[string]any{"rule": "B-DET1", "func": fn, "at": r.Pos, "map": r.MapExpr, "class": r.Class, "why": r.Why})
		} else {
			c.Fail("B-DET1", fn, key, r.Pos, "map iteration order can reach the output: "+strings.Join(r.Problems, "; "), r.Problems)
		}
	}
	c.Floor("B-DET1", len(ranges), 9, "range-over-map loops")

	uses, seen := a.NondetUses()
	c.Counts["B-DET2:calls_scanned"] = seen
	c.Obl("B-DET2", "module :: no ambient input (clock, random, env, cwd, host, pid, %p)", len(uses) == 0, fmt.Sprintf("%d calls scanned", seen))
	for _, u := range uses {
		c.Fail("B-DET2", c.Prog.FuncName(u.Fn), u.Callee, u.Pos, "the module reads "+u.What+" through "+u.Callee+"; the output may depend on it", nil)
	}

	t := a.FileNameTaint()
	c.Counts["B-DET3:tainted_values"] = t.Tainted
	c.Counts["B-DET3:sanitiser_calls"] = t.Sanitise
	c.Obl("B-DET3", "module :: schema file path reaches output text only through filepath.Base", len(t.Sinks) == 0, t.String())
	c.Sample(map[string]any{"rule": "B-DET3", "sources": t.Sources, "tainted_fields": t.Fields, "summary": t.String()})
	for _, s := range t.Sinks {
		c.Fail("B-DET3", c.Prog.FuncName(s.Fn), s.What, s.Pos, "the schema file path (directory included) is "+s.What+": moving the schema directory changes the output", nil)
	}
	// a referenced file is registered under its QUALIFIED name, so the references inside it resolve against the file that contains
	// them and not against the directory the process happens to run in
	emit(c, a.ParentPath())
	// an output file's bytes do not depend on what an earlier run left there
	emit(c, a.OutputFilesTruncated())
	// "moving the schema directory elsewhere": which file a name resolves to depends on the name as written and the referring file's
	// directory only (B-QUALIFIED, shared with C10)
	emit(c, a.QualifiedResolution())
	c.Floor("B-DET3:sources", len(t.Sources), 2, "file-path taint sources")
	c.Floor("B-DET3:sanitiser", t.Sanitise, 1, "filepath.Base applications on the tainted path")
	controls(c, "C12")
}

// allKeysSideCondition: the unsorted result of main.allKeys only feeds
// Config.SchemaMappings, and every loop over SchemaMappings is a pure
// first-match search on SchemaID equality.
func allKeysSideCondition(c *core.Ctx, a *engb.Analyzer) (bool, string) {
	f := c.Prog.Func("main.allKeys")
	if f == nil {
		return false, "main.allKeys not found"
	}
	callers := 0
	for _, g := range c.Prog.Funcs {
		for _, call := range engb.Calls(g) {
			if call.Common().StaticCallee() != f {
				continue
			}
			callers++
			cv, ok := call.(*ssa.Call)
			if !ok {
				return false, "allKeys called in a defer/go"
			}
			// uses: len, index (range). The loop body must only append to SchemaMappings.
			for _, r := range *cv.Referrers() {
				switch x := r.(type) {
				case *ssa.DebugRef:
				case *ssa.Call:
					if b, ok := x.Call.Value.(*ssa.Builtin); !ok || b.Name() != "len" {
						return false, "result of allKeys passed to " + core.CalleeName(x)
					}
				case *ssa.IndexAddr:
					body := x.Block()
					if hdr := body.Idom(); hdr != nil {
						for _, in := range hdr.Instrs {
							if ph, ok := in.(*ssa.Phi); ok && ph.Comment != "rangeindex" {
								return false, "the loop over allKeys() carries " + ph.Name() + " (" + ph.Comment + ") from one id to the next, and the ids come in map order"
							}
						}
					}
					for _, bb := range g.Blocks {
						if !body.Dominates(bb) {
							continue
						}
						for _, in := range bb.Instrs {
							if st, ok := in.(*ssa.Store); ok {
								if fa, ok := st.Addr.(*ssa.FieldAddr); ok {
									n := fieldName(fa)
									if al, isAlloc := fa.X.(*ssa.Alloc); isAlloc && n != "SchemaMappings" {
										if !body.Dominates(al.Block()) {
											return false, "the value filled in the loop over allKeys() (field " + n + ", " + c.Prog.InstrPos(in) + ") is declared outside the loop: what one id sets is still there for the next id, and the ids come in map order"
										}
										continue // filling the iteration's own mapping value
									}
									if n != "SchemaMappings" {
										return false, "loop over allKeys() stores into " + n + " at " + c.Prog.InstrPos(in)
									}
								}
							}
							if _, ok := in.(*ssa.MapUpdate); ok {
								return false, "loop over allKeys() writes a map at " + c.Prog.InstrPos(in)
							}
						}
					}
				default:
					return false, "result of allKeys used by " + r.String()
				}
			}
		}
	}
	if callers == 0 {
		return false, "no caller of allKeys found"
	}
	n, problems := a.SearchLoops("SchemaMappings", "SchemaID")
	if n < 2 {
		return false, fmt.Sprintf("expected at least 2 loops over SchemaMappings, found %d", n)
	}
	if len(problems) > 0 {
		return false, strings.Join(problems, "; ")
	}
	return true, fmt.Sprintf("unsorted keys flow only into Config.SchemaMappings; all %d loops over SchemaMappings are effect-free first-match searches on SchemaID equality, and the ids are distinct map keys", n)
}

func fieldName(fa *ssa.FieldAddr) string {
	return engb.FieldAddrName(fa)
}

var _ = token.ADD
