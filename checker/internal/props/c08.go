package props

import (
	"path/filepath"
	"strings"

	"verif/checker/internal/core"
	"verif/checker/internal/fam"
	"verif/checker/internal/gen"
	"verif/checker/internal/skel"
)

func init() { Registry["C08"] = C08 }

// C08 — enum values are exactly the accepted set.
func C08(c *core.Ctx) {
	c.Explanation = engineAText +
		"C08: enum lists of every kind (typed string/integer/number/boolean/null; untyped strings, numbers, booleans, mixed, null; a concrete list of values of different JSON types that print alike) used " +
		"inline (required, optional), behind a definition reference and as array items, with and without --min-sized-ints. On the emitted file: the carrier type is the one the oracle demands (struct-wrapped " +
		"exactly for mixed/null); the value table lists every enum value; A-DYN — the dynamic Go type of every table element (read off the literal: 1 is int, 1.0 is float64) equals the static type of the " +
		"decoded comparand handed to reflect.DeepEqual (for wrapped enums: one of the types encoding/json produces for interface{}); string enums expose one typed constant per value with that value; " +
		"wrapped enums have MarshalJSON; the file type-checks (duplicate constant names). Not decided: reflect.DeepEqual on float representations."
	skel.DepsDir = filepath.Join(c.VerifDir, "checker", "testdata", "emitdeps")
	rules := ruleSet("A-ENUM", "A-DYN", "A-TYP", "A-MAP", "A-EVENT", "A-SIB")
	d := gen.DefaultConfig()
	sized := d
	sized.MinSizedInts = true
	for _, cfg := range []gen.Config{d, sized} {
		ms := enumMembers(c.Tier, cfg)
		// an integer enum that ALSO states bounds: the carrier and the value table still agree (also under --min-sized-ints)
		for _, pos := range []string{"required", "optional"} {
			ms = append(ms, member{name: "bounded integer enum " + pos, cfg: cfg, root: place(&fam.Spec{Kind: "integer", Enum: "ints", Kw: []string{"minimum", "maximum"}, IntBounds: true}, pos)})
		}
		ms = append(ms, member{name: "enum lookalike values", cfg: cfg, root: place(&fam.Spec{Kind: "any", Enum: "lookalike"}, "required")})
		ms = append(ms, member{name: "four enum values that normalise to one identifier", cfg: cfg, root: place(&fam.Spec{Kind: "string", Enum: "collide4"}, "required")})
		ms = append(ms, member{name: "enum values that normalise to one identifier", cfg: cfg, root: place(&fam.Spec{Kind: "string", Enum: "collide"}, "required")})
		for _, mb := range ms {
			runMember(c, mb, rules, 64, func(w *fam.World, fm *fam.FileModel) []fam.Issue {
				var out []fam.Issue
				out = append(out, w.EnumIssues(fm)...)
				out = append(out, w.TypIssues(c.Prog.Repo)...)
				if w.Cfg.ExtraImports {
					// (sibling equality needs both methods: not in the default-mode twin, where only UnmarshalJSON is emitted)
					out = append(out, fam.SibIssues(fm)...)
				}
				return out
			})
		}
	}
	// an enum that lists nothing (or a value no typed field can equal) admits no value: the generator cannot express that and must
	// refuse it — reporting success with a plain type in its place accepts everything (hostile members, shared with C18)
	runHostile(c, func(name string) bool {
		return strings.HasPrefix(name, "empty-enum ") || strings.HasPrefix(name, "nonprimitive-enum ")
	})
	// which declaration a same-named schema is bound to decides which constraints validate it (A-DEDUP, and end to end: three files
	// with a same-named definition each)
	ruleDedup(c)
	ruleMultiSel(c, ruleSet("A-REJ", "A-NOEXTRA"), 1, "three files with their own minLength")
	// the list the generator sees is the list the document states: no value dropped, merged or re-typed by the decoder
	ruleFidelity(c, "enum")
	// an enum field that is not exported is never decoded, i.e. never checked (A-IDENT)
	ruleIdent(c)
	c.Floor("families", c.Counts["members"], 70, "family members")
}
