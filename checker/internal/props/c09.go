package props

import (
	"path/filepath"
	"strings"

	"verif/checker/internal/core"
	"verif/checker/internal/fam"
	"verif/checker/internal/gen"
	"verif/checker/internal/skel"
)

func init() { Registry["C09"] = C09 }

// C09 — absent properties take their schema default; present values win.
func C09(c *core.Ctx) {
	c.Explanation = engineAText +
		"C09 (A-DEF): properties with a default of every kind (string, integer, number, boolean scalars; string/number scalars next to length/pattern/bound keywords; non-empty and empty slices; slices next to " +
		"minItems; object defaults on a struct and on a typed additionalProperties map; an enum-typed default) in optional, required and nullable positions: each emitted Unmarshal method must contain, after " +
		"the typed decode, exactly one assignment of the rendered literal to the field, guarded by 'raw key absent or null' for the exact raw name; no constraint on that field may be evaluated before the " +
		"default is in place; the field is exempt from the presence check; fields without default get no assignment; and the whole file must type-check (A-TYP: the literal has the Go type of the field; " +
		"selectors inside a struct literal exist). Not decided: litter's rendering of exotic values (modelled as 'Go literal of the dynamic type')."
	skel.DepsDir = filepath.Join(c.VerifDir, "checker", "testdata", "emitdeps")
	rules := ruleSet("A-DEF", "A-TYP", "A-REQ", "A-NOEXTRA", "A-EVENT")
	for _, cfg := range []gen.Config{gen.DefaultConfig(), func() gen.Config { x := gen.DefaultConfig(); x.MinSizedInts = true; return x }()} {
		for _, mb := range defaultMembers(c.Tier, cfg) {
			if cfg.MinSizedInts && !strings.Contains(mb.name, "integer") {
				continue
			}
			runMember(c, mb, rules, 256, func(w *fam.World, fm *fam.FileModel) []fam.Issue {
				var out []fam.Issue
				for _, is := range checkRoot(w, fm) {
					if is.Rule == "A-DEF" || is.Rule == "A-REQ" || (is.Rule == "A-NOEXTRA" && strings.Contains(is.Construct, "presence")) {
						out = append(out, is)
					}
				}
				out = append(out, w.TypIssues(c.Prog.Repo)...)
				return out
			})
		}
	}
	ruleFidelity(c, "default")
	// defaults belong to the declaration a schema is bound to (A-DEDUP); a default lands in an exported field (A-IDENT)
	ruleDedup(c)
	ruleIdent(c)
	c.Floor("families", c.Counts["members"], 35, "family members")
	// defaults belong to the declaration: two same-named definitions (in two files of one run) that differ only in a default must each keep their own
	ruleMulti(c, ruleSet("A-DEF"))
}
