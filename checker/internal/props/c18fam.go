package props

import (
	"fmt"
	"strings"

	"verif/checker/internal/core"
	"verif/checker/internal/fam"
	"verif/checker/internal/gen"
)

// hostileMembers: valid schemas with exactly one ungeneratable or malformed element injected at a
// property / array item / definition / allOf-anyOf branch position, at depth 1..2.
func hostileMembers(cfg gen.Config) []member {
	var out []member
	kinds := []string{"null-property", "null-allOf", "null-anyOf", "null-anyOf-untyped", "null-allOf-untyped", "null-nested-anyOf", "null-nested-allOf", "null-definition", "empty-enum", "nonprimitive-enum", "unknown-type", "missing-definition", "bad-pointer", "empty-definition-name",
		"unknown-type-enum", "unknown-type-int-enum"}
	for _, k := range kinds {
		bad := func() *fam.Spec {
			switch k {
			case "null-property", "null-allOf", "null-anyOf", "null-anyOf-untyped", "null-allOf-untyped", "null-nested-anyOf", "null-nested-allOf", "null-definition":
				return &fam.Spec{Kind: "object", Hostile: k, Props: []*fam.Prop{{Label: "ok", Spec: &fam.Spec{Kind: "string"}}}}
			case "empty-enum", "nonprimitive-enum":
				return &fam.Spec{Kind: "string", Hostile: k}
			case "unknown-type-enum":
				return &fam.Spec{Kind: "string", Enum: "strings", Hostile: k}
			case "unknown-type-int-enum":
				return &fam.Spec{Kind: "integer", Enum: "ints", Hostile: k}
			default:
				return &fam.Spec{Kind: "string", Hostile: k}
			}
		}
		// as a property of the root, as an array item, inside a nested object, inside a definition, inside an anyOf / allOf branch
		out = append(out, member{name: k + " as property", cfg: cfg, root: &fam.Spec{Kind: "object", Props: []*fam.Prop{{Label: "good", Spec: &fam.Spec{Kind: "integer"}}, {Label: "p", Spec: bad(), Required: true}}}})
		out = append(out, member{name: k + " as array item", cfg: cfg, root: &fam.Spec{Kind: "object", Props: []*fam.Prop{{Label: "xs", Spec: &fam.Spec{Kind: "array", Items: bad()}}}}})
		out = append(out, member{name: k + " in nested object", cfg: cfg, root: &fam.Spec{Kind: "object", Props: []*fam.Prop{{Label: "o", Spec: &fam.Spec{Kind: "object", Props: []*fam.Prop{{Label: "p", Spec: bad()}}}}}}})
		d := &fam.Spec{Kind: "object", Ref: "$defs", Props: []*fam.Prop{{Label: "p", Spec: bad()}}}
		out = append(out, member{name: k + " in a definition", cfg: cfg, root: &fam.Spec{Kind: "object", Props: []*fam.Prop{{Label: "r", Spec: d}}}})
		if k != "missing-definition" && k != "bad-pointer" && k != "empty-definition-name" {
			self := bad()
			self.Ref = "definitions"
			out = append(out, member{name: k + " as a definition itself", cfg: cfg, root: &fam.Spec{Kind: "object", Props: []*fam.Prop{{Label: "r", Spec: self}}}})
		}
		out = append(out, member{name: k + " in anyOf branch", cfg: cfg, root: &fam.Spec{Kind: "object", Props: []*fam.Prop{{Label: "u", Spec: &fam.Spec{Kind: "object", AnyOf: []*fam.Spec{
			{Kind: "object", Props: []*fam.Prop{{Label: "a", Spec: &fam.Spec{Kind: "string"}}}}, {Kind: "object", Props: []*fam.Prop{{Label: "p", Spec: bad()}}}}}}}}})
		out = append(out, member{name: k + " in allOf branch", cfg: cfg, root: &fam.Spec{Kind: "object", AllOf: []*fam.Spec{
			{Kind: "object", Props: []*fam.Prop{{Label: "a", Spec: &fam.Spec{Kind: "string"}}}}, {Kind: "object", Props: []*fam.Prop{{Label: "p", Spec: bad()}}}}}})
		// ... as a property of a node that ALSO carries allOf / anyOf (the struct built from the properties is superseded by the
		// composition, the properties are still part of the schema)
		objA := func() *fam.Spec {
			return &fam.Spec{Kind: "object", Props: []*fam.Prop{{Label: "a", Spec: &fam.Spec{Kind: "string"}}}}
		}
		objB := func() *fam.Spec {
			return &fam.Spec{Kind: "object", Props: []*fam.Prop{{Label: "b", Spec: &fam.Spec{Kind: "integer"}}}}
		}
		out = append(out, member{name: k + " as a property next to allOf", cfg: cfg, root: &fam.Spec{Kind: "object", Props: []*fam.Prop{{Label: "p", Spec: bad()}}, AllOf: []*fam.Spec{objA(), objB()}}})
		dn := &fam.Spec{Kind: "object", Ref: "$defs", Props: []*fam.Prop{{Label: "p", Spec: bad()}}, AnyOf: []*fam.Spec{objA(), objB()}}
		out = append(out, member{name: k + " as a property next to anyOf in a definition", cfg: cfg, root: &fam.Spec{Kind: "object", Props: []*fam.Prop{{Label: "r", Spec: dn}}}})
		// ... as a branch ITSELF (not inside a branch's properties), next to a primitive branch
		switch k {
		case "empty-enum", "nonprimitive-enum", "unknown-type", "missing-definition", "bad-pointer", "empty-definition-name", "unknown-type-enum", "unknown-type-int-enum":
			out = append(out, member{name: k + " as an anyOf branch itself", cfg: cfg, root: &fam.Spec{Kind: "object", Props: []*fam.Prop{{Label: "u", Spec: &fam.Spec{Kind: "any", AnyOf: []*fam.Spec{bad(), {Kind: "integer"}}}}}}})
			out = append(out, member{name: k + " as an allOf branch itself", cfg: cfg, root: &fam.Spec{Kind: "object", Props: []*fam.Prop{{Label: "u", Spec: &fam.Spec{Kind: "any", AllOf: []*fam.Spec{bad(), {Kind: "string", NoType: true, Kw: []string{"maxLength"}}}}}}}})
			dd := &fam.Spec{Kind: "object", Ref: "$defs", Props: []*fam.Prop{{Label: "xs", Spec: &fam.Spec{Kind: "array", Items: &fam.Spec{Kind: "any", AnyOf: []*fam.Spec{{Kind: "integer"}, bad()}}}}}}
			out = append(out, member{name: k + " as an anyOf branch of array items in a definition", cfg: cfg, root: &fam.Spec{Kind: "object", Props: []*fam.Prop{{Label: "r", Spec: dd}}}})
		}
	}
	// an allOf branch that refers to the document containing the allOf: merging brings the same allOf back, so generating the merged
	// type never consumes the schema — the run must end with an error, not hang
	out = append(out, member{name: "self-reference as an allOf branch itself", cfg: cfg, root: &fam.Spec{Kind: "object", Props: []*fam.Prop{{Label: "u", Spec: &fam.Spec{Kind: "any", AllOf: []*fam.Spec{
		{RefRootOf: "#", Kind: "object"}, {Kind: "object", Props: []*fam.Prop{{Label: "k", Spec: &fam.Spec{Kind: "string"}}}}}}}}}})
	// ... and a DEFINITION whose own allOf / anyOf lists the definition itself
	for _, k := range []string{"allof-self-definition", "anyof-self-definition"} {
		d := &fam.Spec{Kind: "object", Ref: "$defs", ConcreteDef: "Selfish", Hostile: k}
		out = append(out, member{name: k + " referenced by a property", cfg: cfg, root: &fam.Spec{Kind: "object", Props: []*fam.Prop{{Label: "r", Spec: d}}}})
	}
	return out
}

// ruleHostile: on every hostile member the generator must return an error (fail loudly): it must not
// panic and must not produce output.
func ruleHostile(c *core.Ctx) {
	runHostile(c, func(string) bool { return true })
	c.Floor("hostile", c.Counts["hostile_members"], 40, "hostile family members")
	ruleHostileRest(c)
}

// runHostile runs the hostile members selected by sel: the generator must return an error on each.
func runHostile(c *core.Ctx, sel func(name string) bool) {
	for _, mb := range hostileMembers(gen.DefaultConfig()) {
		if !sel(mb.name) {
			continue
		}
		worlds, complete := fam.Run(c.Prog, mb.cfg, mb.root, 64, nil)
		c.Counts["hostile_members"]++
		if !complete {
			c.Undecided("A-UNDECIDED", "(families)", "fork budget for "+mb.name, "", "budget")
		}
		for _, w := range worlds {
			key := fmt.Sprintf("hostile: %s world%v", mb.name, w.Script)
			switch {
			case w.Err != nil && w.Err.Kind == "panic":
				c.Fail("A-PANIC", "(generator)", normPanic(w.Err.Msg)+" on "+hostileKind(mb.name), w.Err.Pos,
					fmt.Sprintf("the generator panics (%s at %s; stack %v) on a schema with %s", w.Err.Msg, w.Err.Pos, w.Err.Stack, mb.name), nil)
			case w.Err != nil && w.Err.Kind == "budget" && strings.Contains(w.Err.Msg, "call depth exceeded"):
				// these members have fewer than ten schema nodes and every legitimate descent consumes one: more than 400 nested
				// calls of the interpreted generator is recursion that does not consume the schema
				c.Fail("A-HANG", "(generator)", "unbounded recursion on "+hostileKind(mb.name)+" "+hostilePos(mb.name), w.Err.Pos,
					fmt.Sprintf("the interpreted generator exceeds 400 nested calls on the %d-node schema with %s (innermost frames %v): it recurses without consuming the schema — the tool hangs until memory or the stack is exhausted", 8, mb.name, tailStack(w.Err.Stack, 6)), nil)
			case w.Err != nil:
				c.Undecided("A-UNDECIDED", "(generator)", w.Err.Msg, w.Err.Pos, fmt.Sprintf("%s on %s (stack %v)", w.Err.Error(), mb.name, w.Err.Stack))
			case w.GenErr == "":
				c.Fail("A-SILENT", "(generator)", "no error for "+hostileKind(mb.name)+" "+hostilePos(mb.name), "",
					fmt.Sprintf("the generator reports success on a schema with %s: the ungeneratable element is silently dropped or turned into something else", mb.name), nil)
			default:
				c.Pass("A-LOUD", "(generator)", key, "returns: "+w.GenErr)
			}
		}
	}
}

func ruleHostileRest(c *core.Ctx) {
	// ... and never panics on VALID input either: every member of the broad union of families (all keyword families, defaults of every
	// kind, enums, compositions) is generated; a panic of the interpreted generator or an error on a valid schema is reported
	for _, mb := range broadMembers(c.Tier, gen.DefaultConfig()) {
		runMember(c, mb, ruleSet("A-PANIC", "A-GENERR"), 256, func(w *fam.World, fm *fam.FileModel) []fam.Issue { return nil })
	}
	// ... and terminates: four enum values that normalise to one constant name (the suffix search must come to an end)
	runMember(c, member{name: "four enum values that normalise to one identifier", cfg: gen.DefaultConfig(), root: place(&fam.Spec{Kind: "string", Enum: "collide4"}, "required")},
		ruleSet("A-PANIC", "A-GENERR", "A-HANG"), 64, func(w *fam.World, fm *fam.FileModel) []fam.Issue { return nil })
	// `{"$ref": "#"}` — a reference to the document itself is valid JSON Schema (the usual way to write a recursive root)
	for _, pos := range []string{"property", "items"} {
		self := &fam.Spec{RefRootOf: "#", Kind: "object"}
		sp := self
		if pos == "items" {
			sp = &fam.Spec{Kind: "array", Items: self}
		}
		mb := member{name: "a reference to the document itself (#) as " + pos, cfg: gen.DefaultConfig(),
			root: &fam.Spec{Kind: "object", Props: []*fam.Prop{{Label: "n", Spec: &fam.Spec{Kind: "integer"}, Required: true}, {Label: "self", Spec: sp}}}}
		runMember(c, mb, ruleSet("A-PANIC", "A-GENERR"), 256, func(w *fam.World, fm *fam.FileModel) []fam.Issue { return nil })
	}
	// a referenced file is processed as a whole: an ungeneratable definition anywhere in it fails the run (also without $id)
	ruleMultiSel(c, ruleSet("A-SILENT", "A-ROUTE", "A-GENERR", "A-PANIC"), 3, "two files without $id", "document without a root")
	c.Floor("families", c.Counts["members"], 300, "valid family members generated without panic")
}

func tailStack(st []string, n int) []string {
	if len(st) > n {
		return st[len(st)-n:]
	}
	return st
}

func hostileKind(name string) string {
	for i := 0; i < len(name); i++ {
		if name[i] == ' ' {
			return name[:i]
		}
	}
	return name
}

func hostilePos(name string) string {
	for i := 0; i < len(name); i++ {
		if name[i] == ' ' {
			return name[i+1:]
		}
	}
	return ""
}

func normPanic(s string) string {
	if len(s) > 60 {
		s = s[:60]
	}
	return s
}
