package props

import (
	"fmt"
	"path/filepath"
	"sync"

	"verif/checker/internal/core"
	"verif/checker/internal/engb"
)

var (
	ctlOnce sync.Once
	ctlProg *core.Program
	ctlErr  error
)

func controlsProgram(c *core.Ctx) (*core.Program, error) {
	ctlOnce.Do(func() {
		dir := filepath.Join(c.VerifDir, "checker", "testdata", "controls")
		ctlProg, ctlErr = core.LoadAt(dir, "verifcontrols", 2)
	})
	return ctlProg, ctlErr
}

// controls runs the zero-expected rules of a property over the seeded control
// package and fails closed if one of them no longer fires there.
func controls(c *core.Ctx, prop string) {
	p, err := controlsProgram(c)
	if err != nil {
		c.Undecided("controls", "(controls)", "load", "", "positive-control package could not be loaded: "+err.Error())
		return
	}
	a := engb.New(p)
	need := func(rule string, fired bool, what string) {
		if fired {
			c.Pass("control:"+rule, "(controls)", what, "rule fires on the seeded control")
		} else {
			c.Undecided("control:"+rule, "(controls)", what, "", fmt.Sprintf("rule %s did not fire on its seeded positive control (%s): the rule is broken, its silence on /repo means nothing", rule, what))
		}
	}
	switch prop {
	case "C12":
		rs, _ := a.MapRanges()
		fired := false
		for _, r := range rs {
			if p.FuncName(r.Fn) == "(*gen.Generator).Names" && r.Class == "" {
				fired = true
			}
		}
		need("B-DET1", fired, "unsorted keys escaping a map range")
		uses, _ := a.NondetUses()
		got := map[string]bool{}
		for _, u := range uses {
			got[u.Callee] = true
		}
		need("B-DET2", got["time.Now"] && got["math/rand.Int63"], "clock and randomness")
		t := a.FileNameTaint()
		need("B-DET3", len(t.Sinks) > 0, "file path identifierized without Base")
	case "C18":
		drops := map[string]bool{}
		for _, s := range a.ErrSites() {
			if s.Verdict == "dropped" {
				drops[p.FuncName(s.Fn)+" "+s.Callee] = true
			}
		}
		need("B-ERR", drops["main.run (*verifcontrols/gen.Generator).DoFile"], "logged-not-propagated DoFile error")
		need("B-ERR", drops["main.run (*os.File).Close"], "discarded Close error of a written file")
		r := a.Abort()
		got := map[string]bool{}
		for _, pr := range r.Problems {
			got[pr.Rule+" "+pr.Func+" "+pr.Construct] = true
		}
		need("B-ABORT", got["B-ABORT main.run fmt.Println (stdout) before (*verifcontrols/gen.Generator).DoFile"], "effect before may-fail step")
		need("B-ABORT", got["B-ABORT main.abort os.Exit(non-zero) without diagnostic"], "failing exit without diagnostic")
		need("B-WRITE", got["B-WRITE (*gen.Generator).DoFile os.WriteFile"], "write outside the run function")
	}
}
