package props

import (
	"fmt"

	"verif/checker/internal/absint"
	"verif/checker/internal/core"
	"verif/checker/internal/gen"
)

// ruleFidelity (A-FIDELITY): the schema families start from the schema MODEL, the user writes a DOCUMENT. For the keywords
// that are not re-spelled by the decoder (everything but type, id/$id, definitions/$defs, dependencies/dependentSchemas, which
// have rules of their own) (*Type).UnmarshalJSON interpreted on the one-keyword document {"kw": v} must leave exactly what plain
// encoding/json makes of that document: the value is neither normalised (trimmed, folded, rounded) nor dropped (a zero is a
// stated value). v is a symbolic string, or the numbers 0, 5 and 2.5.
func ruleFidelity(c *core.Ctx, kws ...string) {
	fn := "(*pkg/schemas.Type).UnmarshalJSON"
	kind := map[string]string{"pattern": "str", "format": "str", "title": "str", "description": "str", "$ref": "str", "default": "str",
		"minimum": "num", "maximum": "num", "multipleOf": "num", "exclusiveMinimum": "num", "exclusiveMaximum": "num",
		"minLength": "int", "maxLength": "int", "minItems": "int", "maxItems": "int", "enum": "arr"}
	n := 0
	for _, kw := range kws {
		var vals []func(g *gen.G) absint.Value
		var names []string
		switch kind[kw] {
		case "str":
			kw := kw
			vals = append(vals, func(g *gen.G) absint.Value { return g.Raw("text of "+kw, true) })
			names = append(names, "a string")
		case "num":
			for _, v := range []float64{0, 5, 2.5} {
				v := v
				vals = append(vals, func(g *gen.G) absint.Value { return absint.JSONNum{V: v} })
				names = append(names, fmt.Sprint(v))
			}
		case "int":
			for _, v := range []float64{0, 5} {
				v := v
				vals = append(vals, func(g *gen.G) absint.Value { return absint.JSONNum{V: v} })
				names = append(names, fmt.Sprint(v))
			}
		case "arr":
			// values of different JSON types that print alike, a repeated value, and null: each is a listed value of its own
			vals = append(vals, func(g *gen.G) absint.Value {
				return absint.JSONArr{Vals: []absint.Value{absint.JSONNum{V: 1}, absint.Lit("1"), true, absint.Lit("true"), nil, absint.Lit("<nil>")}}
			})
			names = append(names, `[1, "1", true, "true", null, "<nil>"]`)
			vals = append(vals, func(g *gen.G) absint.Value {
				return absint.JSONArr{Vals: []absint.Value{g.Raw("enum[0]", false), g.Raw("enum[1]", false)}}
			})
			names = append(names, `["X", "Y"]`)
		default:
			c.Undecided("A-FIDELITY", fn, "keyword "+kw, "", "no value kind registered for this keyword")
			continue
		}
		for i, mk := range vals {
			n++
			key := fmt.Sprintf("{%q: %s} decodes to what is written", kw, names[i])
			type res struct {
				errNil         bool
				actual, expect string
			}
			runs, complete := absint.Explore(c.Prog, 64, func(m *absint.Machine) { gen.InstallStubs(m) }, func(m *absint.Machine) any {
				g := gen.New(m)
				T := g.Type("pkg/schemas", "Type")
				v := mk(g)
				doc := absint.JSONObj{Keys: []string{kw}, Vals: []absint.Value{v}}
				want, _ := m.ModelDecode(doc, T)
				target := m.NewPtr(m.Zero(T), "decode target")
				r := g.Method("pkg/schemas", "Type", "UnmarshalJSON", target, doc)
				return &res{errNil: absint.IsNilValue(r), actual: absint.DebugValue(*target.P), expect: absint.DebugValue(want)}
			})
			noteRuns(c, runs)
			if !complete || len(runs) != 1 {
				c.Undecided("A-FIDELITY", fn, key, "", fmt.Sprintf("%d worlds, complete=%v", len(runs), complete))
				continue
			}
			if runs[0].Err != nil {
				c.Undecided("A-FIDELITY", fn, key, runs[0].Err.Pos, runs[0].Err.Error())
				continue
			}
			o := runs[0].Out.(*res)
			switch {
			case !o.errNil:
				c.Fail("A-FIDELITY", fn, key, "", "the decoder rejects the document", nil)
			case o.actual != o.expect:
				c.Fail("A-FIDELITY", fn, key, "", fmt.Sprintf("the decoder leaves %s, the document says %s: the stated value is normalised or dropped before the generator sees it", o.actual, o.expect), nil)
			default:
				c.Pass("A-FIDELITY", fn, key, "decodes to "+o.expect)
			}
		}
	}
	c.Floor("A-FIDELITY", n, len(kws), "one-keyword documents")
}
