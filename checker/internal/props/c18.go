package props

import (
	"fmt"

	"golang.org/x/tools/go/ssa"

	"verif/checker/internal/core"
	"verif/checker/internal/engb"
)

func init() { Registry["C18"] = C18 }

// C18 — the tool fails loudly and cleanly.
func C18(c *core.Ctx) {
	c.Explanation = "Static error-discipline analysis of the whole module, including main.go which no test executes. " +
		"B-ERR: for every call whose result tuple contains an error (count in counts.B-ERR:sites) the SSA value is followed " +
		"(phi, interface conversion, local cells, varargs, wrappers such as fmt.Errorf/errors.Join) and every CFG path from the call, " +
		"taken under the assumption that the error is non-nil, must end in a return of that error (or of a fresh one), in a call that " +
		"aborts on it, or in a failing exit; reaching a nil-error return, a return of a function without error result, or os.Exit(0) is a drop. " +
		"B-ABORT: in the one function that calls Generator.DoFile, no may-fail step (flag parse, generator.New, DoFile) is reachable after an " +
		"output effect (stdout write, OpenFile with write flags, MkdirAll); failing exits are dominated by a stderr diagnostic and use a " +
		"non-zero constant; os.Exit(0) lies after the DoFile loop. B-WRITE: no output effect and no use of os.Stdout anywhere else in the module. " +
		"A-LOUD (Engine A): the generator is interpreted abstractly on valid schema families with exactly one ungeneratable or malformed element injected (null sub-schema in properties / allOf / anyOf / " +
		"definitions, empty enum, non-primitive enum value, unknown type, reference to a missing definition, reference that is not a definition pointer) as a property, an array item, inside a nested object, " +
		"inside a definition, inside an anyOf branch and inside an allOf branch: in every world the generator must RETURN AN ERROR — an interpreted panic (nil dereference, index out of range) or a silent success " +
		"is a violation. Decided: these structural necessary conditions. Not decided: termination, panics inside libraries, I/O failures between two output files, malformed bytes (decoding is encoding/json's)."
	c.Trust("encoding/json, cobra, os: behave as documented", "os.Exit/log.Fatal/panic are the only ways to not return")
	a := engb.New(c.Prog)
	ruleBErr(c, a, nil)
	c.Floor("B-ERR", c.Counts["B-ERR:sites"], 140, "error-returning call sites")
	ruleAbort(c, a)
	ruleHostile(c)
	controls(c, "C18")
}

func ruleAbort(c *core.Ctx, a *engb.Analyzer) {
	// complete output: a written file holds the new source and nothing else; every argument is processed (never replaced by an
	// expansion that may be empty); standard output carries only the generated source
	emit(c, a.OutputFilesTruncated())
	emit(c, a.WholeDocumentDecoded())
	emit(c, a.EveryArgumentIsProcessed("main.init$1"))
	emit(c, a.StdoutCarriesOnlyCode())
	r := a.Abort()
	if r.Run != nil {
		run := c.Prog.FuncName(r.Run)
		c.Pass("B-ABORT", run, "run function found", fmt.Sprintf("%d may-fail steps, %d output effects, %d ordered pairs", len(r.GenSteps), len(r.Effects), r.Pairs))
		for _, e := range r.Effects {
			for _, g := range r.GenSteps {
				c.Obl("B-ABORT", run+" :: "+engb.OutputEffect(e)+" !-> "+core.CalleeName(g), true, "")
			}
		}
		c.Floor("B-ABORT:steps", len(r.GenSteps), 5, "may-fail generation steps in the run function")
		c.Floor("B-ABORT:effects", len(r.Effects)+r.HelperEffects, 4, "output effects in the run function and its output helpers")
		c.Sample(map[string]any{"rule": "B-ABORT", "run_function": run, "effects": names(r.Effects, c), "may_fail_steps": names(r.GenSteps, c)})
	}
	for _, e := range r.Exits {
		in := e.(ssa.Instruction)
		c.Obl("B-ABORT", c.Prog.FuncName(in.Parent())+" :: os.Exit "+a.ExitKind(in), true, "")
	}
	c.Floor("B-ABORT:exits", len(r.Exits), 2, "os.Exit call sites")
	c.Obl("B-WRITE", "module :: no output effect outside the run function", true, "")
	for _, p := range r.Problems {
		c.Fail(p.Rule, p.Func, p.Construct, p.Pos, p.Msg, nil)
	}
}

func names(cs []ssa.CallInstruction, c *core.Ctx) []string {
	var out []string
	for _, x := range cs {
		out = append(out, core.CalleeName(x)+" @ "+c.Prog.InstrPos(x.(ssa.Instruction)))
	}
	return out
}

// ruleBErr applies B-ERR to every error-returning call of the module (or to
// those selected by keep).
func ruleBErr(c *core.Ctx, a *engb.Analyzer, keep func(*engb.ErrSite) bool) {
	sites := a.ErrSites()
	n := 0
	for _, s := range sites {
		if keep != nil && !keep(s) {
			continue
		}
		n++
		fn := a.P.FuncName(s.Fn)
		switch s.Verdict {
		case "handled":
			c.Pass("B-ERR", fn, s.Key, s.How)
		case "exception":
			c.Pass("B-ERR", fn, s.Key, "enumerated exception: "+s.How)
			c.Counts["B-ERR:exceptions"]++
		default:
			c.Fail("B-ERR", fn, s.Key, s.Pos, s.How, nil)
		}
		if n%25 == 1 {
			c.Sample(map[string]any{"rule": "B-ERR", "func": fn, "call": s.Key, "at": s.Pos, "verdict": s.Verdict, "how": s.How})
		}
	}
	c.Counts["B-ERR:sites"] += n
}
