package props

import (
	"strings"
	"verif/checker/internal/core"
	"verif/checker/internal/engb"
	"verif/checker/internal/fam"
	"verif/checker/internal/gen"
)

func init() {
	Registry["C19"] = C19
	Registry["C17"] = C17
}

// C19 — generated unmarshalers are total and all-or-nothing.
func C19(c *core.Ctx) {
	c.Explanation = engineAText +
		"C19 runs over the broad union of families (strings, numerics, arrays to depth 3, null types, every type/format mapping, required subsets, defaults, enums, " +
		"additionalProperties of every kind, anyOf with 1..4 branches) and checks on EVERY emitted Unmarshal method: A-AON — the only write through the receiver is one final " +
		"`*j = T(local)` immediately followed by `return nil`, every earlier return sits in an error branch, no nested `return nil`; A-NILG — every `*x` on the decoded value is " +
		"dominated by `x != nil` (left conjunct or enclosing if), every index uses the variable of the enclosing `range` over the same expression, no division/modulo by the constant zero. " +
		"A-TAGPAR (yaml option part): no yaml tag carries an option yaml.v3 refuses — Decode panics on such a struct type. Decided for all names/limits at once. Not decided: panics inside encoding/json, yaml, mapstructure, regexp; operations on the raw map (nil-safe in Go by definition)."
	rules := ruleSet("A-AON", "A-NILG", "A-TAGPAR")
	for _, cfg := range tierConfigs(c.Tier) {
		for _, mb := range broadMembers(c.Tier, cfg) {
			budget := 256
			if cfg.MinSizedInts {
				// every bound is a region decision: two-sided numeric-exclusive members have thousands of cells and are
				// left to the A-SIZED families of C15
				if strings.Contains(mb.name, "emin=num emax=num") || strings.Contains(mb.name, "anyOf") {
					continue
				}
				budget = 8192
			}
			runMember(c, mb, rules, budget, func(w *fam.World, fm *fam.FileModel) []fam.Issue {
				out := fam.MethodIssues(fm)
				for _, is := range fam.TagParityIssues(fm) {
					if strings.Contains(is.Construct, "yaml.v3 refuses") {
						out = append(out, is) // Decode panics on such a type
					}
				}
				return out
			})
		}
	}
	ruleRuntimeTypesTotal(c)
	c.Floor("families", c.Counts["members"], 300, "family members")
	c.Floor("methods", c.Counts["unmarshal_methods"], 600, "emitted methods analysed")
}

// C17 — UnmarshalYAML enforces the same rules as UnmarshalJSON.
func C17(c *core.Ctx) {
	c.NoDefaultModeTwin = true // the property compares the two methods; without --extra-imports only one of them is emitted
	c.Explanation = engineAText +
		"C17 (A-SIB): over the same broad union of families, generated with --extra-imports, the two emitted methods of every type (validating and enum unmarshalers) must be the same " +
		"statement list after rewriting the decode call (json.Unmarshal(value,&X) / value.Decode(&X)) and the anyOf branch call (UnmarshalJSON/UnmarshalYAML); a type with only one of the two is a " +
		"violation. A-TAGPAR: every field with a json and a yaml tag is bound to the same key by both libraries or skipped by both (a tag that is exactly \"-\" skips; \"-,\" binds the key - in encoding/json only), " +
		"and no yaml tag carries an option yaml.v3 refuses (anything but omitempty/flow/inline, also the empty option of a trailing comma, makes Decode panic). The validators are shared code, but each emitter runs them separately on the same objects, so state leaking from the first pass into the second shows up as a difference. " +
		"Not decided: scalar-typing differences between the two decoders themselves."
	rules := ruleSet("A-SIB", "A-TAGPAR")
	for _, cfg := range tierConfigs(c.Tier) {
		for _, mb := range broadMembers(c.Tier, cfg) {
			budget := 256
			if cfg.MinSizedInts {
				// every bound is a region decision: two-sided numeric-exclusive members have thousands of cells and are
				// left to the A-SIZED families of C15
				if strings.Contains(mb.name, "emin=num emax=num") || strings.Contains(mb.name, "anyOf") {
					continue
				}
				budget = 8192
			}
			runMember(c, mb, rules, budget, func(w *fam.World, fm *fam.FileModel) []fam.Issue {
				return append(fam.SibIssues(fm), fam.TagParityIssues(fm)...)
			})
		}
	}
	// a tag list WITHOUT yaml (with --extra-imports): the YAML methods are emitted all the same (yaml.v3 binds untagged fields by their
	// lower-cased name) and equal their JSON siblings — the set of emitted decoders follows --extra-imports, not the tag list
	{
		jm := gen.DefaultConfig()
		jm.Tags = []string{"json", "mapstructure"}
		ms := append(requiredMembers(c.Tier, jm), defaultMembers(c.Tier, jm)...)
		for i, mb := range ms {
			if c.Tier != "thorough" && i%3 != 0 {
				continue
			}
			runMember(c, mb, ruleSet("A-SIB"), 256, func(w *fam.World, fm *fam.FileModel) []fam.Issue { return fam.SibIssues(fm) })
		}
	}
	// a tag list without json: the additional-properties block of BOTH methods enumerates the declared keys the same way
	{
		y := gen.DefaultConfig()
		y.Tags = []string{"yaml"}
		for i, mb := range addPropsMembers(c.Tier, y) {
			if c.Tier != "thorough" && i%2 == 1 {
				continue
			}
			runMember(c, mb, rules, 64, func(w *fam.World, fm *fam.FileModel) []fam.Issue {
				return append(fam.SibIssues(fm), fam.TagParityIssues(fm)...)
			})
		}
	}
	// The two decoders treat some GO TYPES differently, so the field type itself is part of the parity (A-MAP on the positions where it
	// matters): (1) a property that may be null must be a POINTER when its type has unmarshalers of its own — encoding/json calls
	// UnmarshalJSON with the token null on a plain value (which then applies nested defaults and checks), yaml.v3 never calls
	// UnmarshalYAML for a null node; (2) a JSON number is a float64 — encoding/json range-checks a narrower float and fails, yaml.v3
	// converts silently
	{
		cfg := gen.DefaultConfig()
		inner := func() *fam.Spec {
			return &fam.Spec{Kind: "object", Props: []*fam.Prop{{Label: "attempts", Spec: &fam.Spec{Kind: "integer", Default: "scalar"}}, {Label: "mode", Spec: &fam.Spec{Kind: "string", Kw: []string{"minLength"}}, Required: true}}}
		}
		var ms []member
		for _, pos := range []string{"nullable-optional", "optional"} {
			ms = append(ms, member{name: "decoder parity of field types: object " + pos, cfg: cfg, root: place(inner(), pos)})
		}
		for _, f := range []string{"float", "double"} {
			for _, pos := range []string{"required", "optional"} {
				ms = append(ms, member{name: "decoder parity of field types: number:" + f + " " + pos, cfg: cfg, root: place(&fam.Spec{Kind: "number", Format: f}, pos)})
			}
		}
		for _, mb := range ms {
			runMember(c, mb, ruleSet("A-MAP", "A-SIB"), 64, func(w *fam.World, fm *fam.FileModel) []fam.Issue {
				var keep []fam.Issue
				for _, is := range checkRoot(w, fm) {
					if is.Rule == "A-MAP" {
						keep = append(keep, is)
					}
				}
				return append(keep, fam.SibIssues(fm)...)
			})
		}
	}
	// both decoders bind by the configured tags: the CLI hands the generator the tag list the user wrote (B-FLAG)
	emit(c, engb.New(c.Prog).FlagWiring("main.main", "main.init$1", "generator.Config"))
	c.Floor("families", c.Counts["members"], 300, "family members")
}

// tierConfigs: the default option set in the quick tier; in the thorough tier also --min-sized-ints, a json+yaml tag list
// without mapstructure, and --struct-name-from-title.
func tierConfigs(tier string) []gen.Config {
	d := gen.DefaultConfig()
	if tier != "thorough" {
		return []gen.Config{d}
	}
	sized := d
	sized.MinSizedInts = true
	tags := d
	tags.Tags = []string{"json", "yaml"}
	title := d
	title.StructNameFromTitle = true
	return []gen.Config{d, sized, tags, title}
}
