package props

import (
	"fmt"
	"go/types"

	"verif/checker/internal/absint"
	"verif/checker/internal/core"
)

func init() { Registry["C05"] = C05 }

// bound-side description of one abstract world of NormalizeBounds
type normSide struct {
	hasMin bool   // minimum / maximum present
	excl   string // "nil", "true", "false", "num", "other"
}

func (s normSide) String() string {
	return fmt.Sprintf("{bound:%v exclusive:%s}", s.hasMin, s.excl)
}

// ruleCNorm interprets mathutils.NormalizeBounds over every abstract world:
// presence × kind of the four keywords × relative order of the numeric ones.
func ruleCNorm(c *core.Ctx) {
	fn, err := c.Prog.MustFunc("pkg/mathutils.NormalizeBounds")
	if err != nil {
		c.Undecided("C-NORM", "pkg/mathutils.NormalizeBounds", "anchor", "", err.Error())
		return
	}
	kinds := []string{"nil", "true", "false", "num", "other"}
	worlds, bad := 0, 0
	f64 := types.Typ[types.Float64]
	for _, lo := range []bool{false, true} {
		for _, lk := range kinds {
			for _, hi := range []bool{false, true} {
				for _, hk := range kinds {
					low, high := normSide{lo, lk}, normSide{hi, hk}
					type outT struct {
						res                      absint.Tuple
						aMin, aEMin, aMax, aEMax *absint.Atom
					}
					runs, complete := absint.Explore(c.Prog, 64, nil, func(m *absint.Machine) any {
						o := &outT{}
						mk := func(present bool, name string) (absint.Value, *absint.Atom) {
							if !present {
								return absint.Ptr{}, nil
							}
							a := m.NewAtom("Float", name)
							return m.NewPtr(absint.Num{A: a, IsFloat: true}, name), a
						}
						mkEx := func(kind, name string) (absint.Value, *absint.Atom) {
							switch kind {
							case "nil":
								return absint.Ptr{}, nil
							case "true":
								return m.NewPtr(absint.Iface{T: types.Typ[types.Bool], V: true}, name), nil
							case "false":
								return m.NewPtr(absint.Iface{T: types.Typ[types.Bool], V: false}, name), nil
							case "num":
								a := m.NewAtom("Float", name)
								return m.NewPtr(absint.Iface{T: f64, V: absint.Num{A: a, IsFloat: true}}, name), a
							}
							return m.NewPtr(absint.Iface{T: types.Typ[types.String], V: absint.Lit("x")}, name), nil
						}
						var pMin, pMax, pEMin, pEMax absint.Value
						pMin, o.aMin = mk(low.hasMin, "minimum")
						pMax, o.aMax = mk(high.hasMin, "maximum")
						pEMin, o.aEMin = mkEx(low.excl, "exclusiveMinimum")
						pEMax, o.aEMax = mkEx(high.excl, "exclusiveMaximum")
						r := m.CallFunction(fn, []absint.Value{pMin, pMax, pEMin, pEMax}, nil)
						o.res = r.(absint.Tuple)
						return o
					})
					if !complete {
						c.Undecided("C-NORM", "pkg/mathutils.NormalizeBounds", fmt.Sprintf("min%v max%v", low, high), "", "fork budget exceeded")
						continue
					}
					for _, run := range runs {
						worlds++
						key := fmt.Sprintf("lower%v upper%v order%v", low, high, run.Script)
						if run.Err != nil {
							bad++
							c.Fail("C-NORM", "pkg/mathutils.NormalizeBounds", key, run.Err.Pos, "NormalizeBounds "+run.Err.Error(), nil)
							continue
						}
						o := run.Out.(*outT)
						// order facts chosen in this run
						ord := map[string]int{}
						for i, f := range run.Forks {
							ord[f.Key] = run.Script[i]
						}
						rel := func(a, b *absint.Atom) int { // relation of a to b: -1,0,1
							x, y, flip := a, b, 1
							if x.ID > y.ID {
								x, y, flip = b, a, -1
							}
							ch, ok := ord[fmt.Sprintf("ord:%d:%d", x.ID, y.ID)]
							if !ok {
								return 2
							}
							return []int{-1, 0, 1}[ch] * flip
						}
						check := func(side string, s normSide, aB, aE *absint.Atom, ptr absint.Value, excl absint.Value, tighter int) {
							// expected (atom set, exclusive)
							var wantAtoms []*absint.Atom
							wantExcl := false
							dontCareExcl := false
							switch s.excl {
							case "nil", "other":
								if s.hasMin {
									wantAtoms = []*absint.Atom{aB}
								}
							case "true", "false":
								if s.hasMin {
									wantAtoms = []*absint.Atom{aB}
									wantExcl = s.excl == "true"
								} else {
									dontCareExcl = true
								}
							case "num":
								if !s.hasMin {
									wantAtoms, wantExcl = []*absint.Atom{aE}, true
								} else {
									switch rel(aE, aB) * tighter { // >0: the exclusive bound is strictly tighter
									case 1:
										wantAtoms, wantExcl = []*absint.Atom{aE}, true
									case 0:
										wantAtoms, wantExcl = []*absint.Atom{aE, aB}, true // tie: exclusive wins
									case -1:
										wantAtoms, wantExcl = []*absint.Atom{aB}, false
									default:
										c.Undecided("C-NORM", "pkg/mathutils.NormalizeBounds", key+" "+side, "", "both bounds present but the function never compared them")
										return
									}
								}
							}
							p := ptr.(absint.Ptr)
							var got *absint.Atom
							if p.P != nil {
								if n, ok := (*p.P).(absint.Num); ok {
									got = n.A
								}
							}
							okAtom := (len(wantAtoms) == 0 && got == nil)
							for _, w := range wantAtoms {
								if got == w {
									okAtom = true
								}
							}
							gotExcl, _ := excl.(bool)
							okExcl := dontCareExcl || len(wantAtoms) == 0 || gotExcl == wantExcl
							if okAtom && okExcl {
								c.Pass("C-NORM", "pkg/mathutils.NormalizeBounds", key+" "+side, "")
								return
							}
							bad++
							names := []string{}
							for _, w := range wantAtoms {
								names = append(names, w.Name)
							}
							gn := "nil"
							if got != nil {
								gn = got.Name
							}
							// canonical construct for known-findings: side + kind + relation
							relName := map[int]string{-1: "looser", 0: "equal", 1: "tighter", 2: "n/a"}
							rr := 2
							if s.excl == "num" && s.hasMin {
								rr = rel(aE, aB) * tighter
							}
							construct := fmt.Sprintf("%s side: bound present=%v, exclusive=%s, exclusive vs inclusive: %s", side, s.hasMin, s.excl, relName[rr])
							c.Fail("C-NORM", "pkg/mathutils.NormalizeBounds", construct, c.Prog.Pos(fn.Pos()),
								fmt.Sprintf("effective %s bound is (%s, exclusive=%v) but the intersection of the stated bounds is (%v, exclusive=%v)", side, gn, gotExcl, names, wantExcl),
								map[string]any{"world": key})
						}
						check("lower", low, o.aMin, o.aEMin, o.res[0], o.res[2], 1)
						check("upper", high, o.aMax, o.aEMax, o.res[1], o.res[3], -1)
						if worlds%97 == 1 {
							c.Sample(map[string]any{"rule": "C-NORM", "world": key, "result": fmt.Sprintf("lower=%v exclusive=%v upper=%v exclusive=%v", descPtr(o.res[0]), o.res[2], descPtr(o.res[1]), o.res[3])})
						}
					}
				}
			}
		}
	}
	c.Counts["C-NORM:worlds"] = worlds
	c.Floor("C-NORM", worlds, 100, "abstract worlds of NormalizeBounds")
}

func descPtr(v absint.Value) string {
	p, ok := v.(absint.Ptr)
	if !ok || p.P == nil {
		return "nil"
	}
	if n, ok := (*p.P).(absint.Num); ok {
		return n.A.Name
	}
	return fmt.Sprintf("%v", *p.P)
}

// C05 — numeric bounds and multipleOf are enforced exactly as stated.
func C05(c *core.Ctx) {
	c.Explanation = "C-NORM: mathutils.NormalizeBounds is interpreted abstractly (go/ssa, no execution of compiled code) over every world of " +
		"minimum/maximum ∈ {absent, symbolic number} × exclusiveMinimum/exclusiveMaximum ∈ {absent, true, false, symbolic number, non-number} × the relative order " +
		"(<,=,>) of each numeric exclusive bound and its inclusive partner; the function reads its arguments only through nil tests, a type switch and </>, so the order " +
		"abstraction is exact and the enumeration exhaustive. Each result is compared with the oracle 'intersection of the stated bounds; the tighter one wins; exclusive wins a tie; " +
		"the boolean form modifies minimum/maximum'. Lower and upper side are enumerated jointly, so cross-talk between the sides is visible. " + engineAText +
		"C05 family: integer and number properties in 3 (quick) / 6 (thorough) positions x all subsets of {minimum, maximum, multipleOf} x exclusiveMinimum in {absent,true,false,number} x exclusiveMaximum in " +
		"{absent,number} (quick) / all four (thorough), every relative order of a numeric exclusive bound and its inclusive partner being a separate world: the emitted branches must compare with the bound the " +
		"normalisation oracle selects, with < / <= per exclusivity, nil-guarded iff pointer, and no limit may pass through a lossy conversion (A-REJ:lossy). Not decided: math.Mod's 1e-10 tolerance."
	c.Exhaustive = true
	c.Trust("go/ssa lowering of the function; the summaries listed in trusted_base are not needed by this function")
	ruleCNorm(c)
	c05Families(c)
	runCompositions(c, ruleSet("A-REJ", "A-NOEXTRA", "A-NILG"), "minimum", "maximum", "bound")
	ruleMultiSel(c, ruleSet("A-REJ", "A-NOEXTRA"), 3, "differing only in minimum", "differing only in maximum", "differing only in multipleOf", "three files with their own maximum")
	// the same bounds under --min-sized-ints: a check is absent only where the Go type's range implies it
	ruleSizedFamilies(c, []string{"required"}, 300)
	// the numeric keywords reach the generator as written (a bound of 0 is a bound)
	ruleFidelity(c, "minimum", "maximum", "multipleOf", "exclusiveMinimum", "exclusiveMaximum")
	// a check only runs on a field the decoder fills: the field's identifier is exported for every name and capitalization (A-IDENT);
	// and it is the check of THIS schema: a same-named schema is bound to the declaration of the equal one (A-DEDUP)
	ruleIdent(c)
	ruleDedup(c)
	c.Floor("families", c.Counts["members"], 300, "family members")
}
