package props

import (
	"fmt"
	"os"
	"path/filepath"
	"regexp"
	"sort"
	"strings"

	"verif/checker/internal/core"
	"verif/checker/internal/fam"
	"verif/checker/internal/gen"
	"verif/checker/internal/skel"
)

// multiMember is a set of schema files with cross-file references, a routing configuration and the argument orders to try.
type multiMember struct {
	name   string
	files  []*fam.FileSpec
	cfg    gen.Config
	orders [][]string
	// expectations
	composedRoot string            // this file's root is an allOf composition: its merged struct must carry every branch's required keys
	expectErr    bool              // the input contains an ungeneratable element: the run must return an error
	outOf        map[string]string // schema file -> output file it must land in
	pkgOf        map[string]string // output file -> package import path
	// sameTypeKeys: every struct field bound to one of these JSON keys stands for ONE schema node (a property of a definition that
	// is also merged into a composition): it has the same Go type wherever it appears
	sameTypeKeys []string
	// selfRefKeys: the fields bound to these JSON keys are references of a document to ITSELF ("#"): their Go type is (a pointer to / a
	// slice of pointers to) the struct that declares them
	selfRefKeys []string
	// noAlias: no `type X = Y` declaration is expected in this scenario (every type is reached under one name)
	noAlias bool
}

func objSpec(ps ...*fam.Prop) *fam.Spec { return &fam.Spec{Kind: "object", Props: ps} }

func multiMembers() []multiMember {
	var out []multiMember
	x := func(file string) *fam.Spec {
		s := objSpec(&fam.Prop{Label: "q", Spec: &fam.Spec{Kind: "string", Kw: []string{"minLength"}}, Required: true}, &fam.Prop{Label: "n", Spec: &fam.Spec{Kind: "integer", Kw: []string{"maximum"}}})
		s.Ref, s.RefFile = "$defs", file
		return s
	}
	mkA := func() *fam.FileSpec {
		return &fam.FileSpec{Name: "a.json", ID: "https://example.com/a", Root: objSpec(&fam.Prop{Label: "p", Spec: x("b.json"), Required: true}, &fam.Prop{Label: "own", Spec: &fam.Spec{Kind: "boolean"}})}
	}
	mkB := func() *fam.FileSpec {
		return &fam.FileSpec{Name: "b.json", ID: "https://example.com/b", Root: objSpec(&fam.Prop{Label: "r", Spec: &fam.Spec{Kind: "integer"}, Required: true})}
	}
	mkU := func() *fam.FileSpec {
		return &fam.FileSpec{Name: "u.json", ID: "https://example.com/u", Root: objSpec(&fam.Prop{Label: "z", Spec: &fam.Spec{Kind: "number"}})}
	}
	base := gen.DefaultConfig()
	// two packages
	two := base
	two.Mappings = []gen.Mapping{{ID: "https://example.com/a", Package: "example.com/gen/pa", Output: "pa/a.go"}, {ID: "https://example.com/b", Package: "example.com/gen/pb", Output: "pb/b.go"}, {ID: "https://example.com/u", Package: "example.com/gen/pa", Output: "pa/u.go"}}
	out = append(out, multiMember{name: "reference across two packages", files: []*fam.FileSpec{mkA(), mkB()}, cfg: two,
		orders: [][]string{{"a.json", "b.json"}, {"b.json", "a.json"}, {"a.json"}},
		outOf:  map[string]string{"a.json": "pa/a.go", "b.json": "pb/b.go"}, pkgOf: map[string]string{"pa/a.go": "example.com/gen/pa", "pb/b.go": "example.com/gen/pb"}})
	out = append(out, multiMember{name: "reference across two packages plus an unrelated file", files: []*fam.FileSpec{mkA(), mkB(), mkU()}, cfg: two,
		orders: [][]string{{"a.json", "b.json", "u.json"}, {"u.json", "b.json", "a.json"}},
		outOf:  map[string]string{"a.json": "pa/a.go", "b.json": "pb/b.go", "u.json": "pa/u.go"}, pkgOf: map[string]string{"pa/a.go": "example.com/gen/pa", "pb/b.go": "example.com/gen/pb", "pa/u.go": "example.com/gen/pa"}})
	// an allOf branch that refers into the other package (the merged struct inlines the fields: nothing of the other package is named)
	{
		br := objSpec(&fam.Prop{Label: "n", Spec: &fam.Spec{Kind: "integer"}, Required: true})
		br.Ref, br.RefFile = "$defs", "b.json"
		comp := &fam.Spec{Kind: "object", AllOf: []*fam.Spec{br, objSpec(&fam.Prop{Label: "x", Spec: &fam.Spec{Kind: "string"}})}}
		fa := &fam.FileSpec{Name: "a.json", ID: "https://example.com/a", Root: objSpec(&fam.Prop{Label: "c", Spec: comp, Required: true})}
		out = append(out, multiMember{name: "an allOf branch referring into another package", files: []*fam.FileSpec{fa, mkB()}, cfg: two,
			orders: [][]string{{"a.json", "b.json"}},
			outOf:  map[string]string{"a.json": "pa/a.go", "b.json": "pb/b.go"}, pkgOf: map[string]string{"pa/a.go": "example.com/gen/pa", "pb/b.go": "example.com/gen/pb"}})
	}
	// a local definition with a property of the other package, used directly and again as an allOf branch: the second visit of the
	// property node must still name the other package
	{
		baseDef := objSpec(&fam.Prop{Label: "item", Spec: x("b.json")}, &fam.Prop{Label: "flag", Spec: &fam.Spec{Kind: "boolean"}, Required: true})
		baseDef.Ref = "$defs"
		comp := &fam.Spec{Kind: "object", AllOf: []*fam.Spec{baseDef, objSpec(&fam.Prop{Label: "extra", Spec: &fam.Spec{Kind: "string"}})}}
		fa := &fam.FileSpec{Name: "a.json", ID: "https://example.com/a", Root: objSpec(&fam.Prop{Label: "b", Spec: baseDef}, &fam.Prop{Label: "d", Spec: comp})}
		out = append(out, multiMember{name: "a definition with a cross-package property, also used as an allOf branch", files: []*fam.FileSpec{fa, mkB()}, cfg: two,
			orders: [][]string{{"a.json", "b.json"}, {"b.json", "a.json"}},
			outOf:  map[string]string{"a.json": "pa/a.go", "b.json": "pb/b.go"}, pkgOf: map[string]string{"pa/a.go": "example.com/gen/pa", "pb/b.go": "example.com/gen/pb"}})
	}
	// one package, two output files
	same := base
	same.Mappings = []gen.Mapping{{ID: "https://example.com/a", Package: "example.com/gen/model", Output: "model/a.go"}, {ID: "https://example.com/b", Package: "example.com/gen/model", Output: "model/b.go"}}
	out = append(out, multiMember{name: "reference between two files of one package", files: []*fam.FileSpec{mkA(), mkB()}, cfg: same,
		orders: [][]string{{"a.json", "b.json"}, {"b.json", "a.json"}},
		outOf:  map[string]string{"a.json": "model/a.go", "b.json": "model/b.go"}, pkgOf: map[string]string{"model/a.go": "example.com/gen/model", "model/b.go": "example.com/gen/model"}})
	// everything in the default output
	out = append(out, multiMember{name: "reference within the single default output", files: []*fam.FileSpec{mkA(), mkB()}, cfg: base,
		orders: [][]string{{"a.json", "b.json"}, {"b.json", "a.json"}, {"a.json"}},
		outOf:  map[string]string{"a.json": "out.go", "b.json": "out.go"}, pkgOf: map[string]string{"out.go": "example.com/pkg/model"}})
	// same-named definitions in two files that differ only in a default (one package, one output)
	opt := func(label, same string) *fam.Spec {
		s := objSpec(&fam.Prop{Label: "t" + label, SameAs: "t" + same, Spec: &fam.Spec{Kind: "string", Default: "scalar"}})
		s.Ref, s.DefLabel, s.DefSameAs = "$defs", label, same
		return s
	}
	out = append(out, multiMember{name: "same-named definitions in two files differing only in a default", cfg: base,
		files: []*fam.FileSpec{{Name: "a.json", ID: "https://example.com/a", Root: objSpec(&fam.Prop{Label: "o", Spec: opt("optA", "")})},
			{Name: "b.json", ID: "https://example.com/b", Root: objSpec(&fam.Prop{Label: "o2", Spec: opt("optB", "optA")})}},
		orders: [][]string{{"a.json", "b.json"}, {"b.json", "a.json"}},
		outOf:  map[string]string{"a.json": "out.go", "b.json": "out.go"}, pkgOf: map[string]string{"out.go": "example.com/pkg/model"}})
	// ... differing only in the value of ONE validation keyword (each declaration's checks are its own schema's)
	for _, v := range []struct {
		what string
		mk   func() *fam.Spec
		req  bool
	}{
		{"minLength", func() *fam.Spec { return &fam.Spec{Kind: "string", Kw: []string{"minLength"}} }, false},
		{"maxLength", func() *fam.Spec { return &fam.Spec{Kind: "string", Kw: []string{"maxLength"}} }, false},
		{"pattern", func() *fam.Spec { return &fam.Spec{Kind: "string", Kw: []string{"pattern"}} }, false},
		{"minimum", func() *fam.Spec { return &fam.Spec{Kind: "integer", Kw: []string{"minimum"}} }, false},
		{"maximum", func() *fam.Spec { return &fam.Spec{Kind: "number", Kw: []string{"maximum"}} }, false},
		{"multipleOf", func() *fam.Spec { return &fam.Spec{Kind: "integer", Kw: []string{"multipleOf"}} }, false},
		{"minItems", func() *fam.Spec {
			return &fam.Spec{Kind: "array", Items: &fam.Spec{Kind: "string"}, Kw: []string{"minItems"}}
		}, false},
		{"maxItems", func() *fam.Spec {
			return &fam.Spec{Kind: "array", Items: &fam.Spec{Kind: "string"}, Kw: []string{"maxItems"}}
		}, false},
		{"required", func() *fam.Spec { return &fam.Spec{Kind: "string"} }, true},
	} {
		mk := func(label, same string, second bool) *fam.Spec {
			s := objSpec(&fam.Prop{Label: "t" + label, SameAs: "t" + same, Spec: v.mk(), Required: v.req && second})
			s.Ref, s.DefLabel, s.DefSameAs = "$defs", label, same
			return s
		}
		out = append(out, multiMember{name: "same-named definitions in two files differing only in " + v.what, cfg: base,
			files: []*fam.FileSpec{{Name: "a.json", ID: "https://example.com/a", Root: objSpec(&fam.Prop{Label: "o", Spec: mk("kA", "", false)})},
				{Name: "b.json", ID: "https://example.com/b", Root: objSpec(&fam.Prop{Label: "o2", Spec: mk("kB", "kA", true)})}},
			orders: [][]string{{"a.json", "b.json"}},
			outOf:  map[string]string{"a.json": "out.go", "b.json": "out.go"}, pkgOf: map[string]string{"out.go": "example.com/pkg/model"}})
	}
	// THREE files with a same-named definition each: whichever two of them are equal (worlds of the order of the three limits), every
	// property is bound to the declaration of ITS OWN schema — in particular the third to the (suffixed) declaration of the second when
	// those two are equal and the first differs
	for _, v := range []struct {
		what string
		mk   func() *fam.Spec
	}{
		{"minLength", func() *fam.Spec { return &fam.Spec{Kind: "string", Kw: []string{"minLength"}} }},
		{"maximum", func() *fam.Spec { return &fam.Spec{Kind: "integer", Kw: []string{"maximum"}, IntBounds: true} }},
	} {
		mk := func(label, same string) *fam.Spec {
			s := objSpec(&fam.Prop{Label: "t" + label, SameAs: "t" + same, Spec: v.mk()})
			s.Ref, s.DefLabel, s.DefSameAs = "$defs", label, same
			return s
		}
		out = append(out, multiMember{name: "same-named definitions in three files with their own " + v.what, cfg: base,
			files: []*fam.FileSpec{{Name: "a.json", ID: "https://example.com/a", Root: objSpec(&fam.Prop{Label: "o", Spec: mk("k3A", "")})},
				{Name: "b.json", ID: "https://example.com/b", Root: objSpec(&fam.Prop{Label: "o2", Spec: mk("k3B", "k3A")})},
				{Name: "c.json", ID: "https://example.com/c", Root: objSpec(&fam.Prop{Label: "o3", Spec: mk("k3C", "k3A")})}},
			orders: [][]string{{"a.json", "b.json", "c.json"}},
			outOf:  map[string]string{"a.json": "out.go", "b.json": "out.go", "c.json": "out.go"}, pkgOf: map[string]string{"out.go": "example.com/pkg/model"}})
	}
	// same-named definitions in two files whose bodies differ only in the TARGET of a same-text nested reference
	nest := func(label, same string, leaf *fam.Spec) *fam.Spec {
		leaf.Ref, leaf.DefLabel, leaf.DefSameAs = "$defs", "leaf"+label, "leaf"+same
		s := objSpec(&fam.Prop{Label: "x" + label, SameAs: "x" + same, Spec: leaf})
		s.Ref, s.DefLabel, s.DefSameAs = "$defs", label, same
		return s
	}
	out = append(out, multiMember{name: "same-named definitions in two files differing only in the target of a nested reference", cfg: base,
		files: []*fam.FileSpec{{Name: "a.json", ID: "https://example.com/a", Root: objSpec(&fam.Prop{Label: "o", Spec: nest("nA", "", &fam.Spec{Kind: "string", Kw: []string{"minLength"}})})},
			{Name: "b.json", ID: "https://example.com/b", Root: objSpec(&fam.Prop{Label: "o2", Spec: nest("nB", "nA", &fam.Spec{Kind: "integer", Kw: []string{"minimum"}})})}},
		orders: [][]string{{"a.json", "b.json"}, {"b.json", "a.json"}},
		outOf:  map[string]string{"a.json": "out.go", "b.json": "out.go"}, pkgOf: map[string]string{"out.go": "example.com/pkg/model"}})
	// the same reference TEXT as an allOf branch in two files, pointing at each file's own (different) definition
	{
		baseA := objSpec(&fam.Prop{Label: "street", Spec: &fam.Spec{Kind: "string", Kw: []string{"minLength"}}, Required: true})
		baseA.Ref, baseA.DefLabel = "$defs", "brA"
		baseB := objSpec(&fam.Prop{Label: "email", Spec: &fam.Spec{Kind: "string"}}, &fam.Prop{Label: "phone", Spec: &fam.Spec{Kind: "integer", Kw: []string{"minimum"}}, Required: true})
		baseB.Ref, baseB.DefLabel, baseB.DefSameAs = "$defs", "brB", "brA"
		compA := &fam.Spec{Kind: "object", AllOf: []*fam.Spec{baseA, objSpec(&fam.Prop{Label: "extraA", Spec: &fam.Spec{Kind: "boolean"}})}}
		compB := &fam.Spec{Kind: "object", AllOf: []*fam.Spec{baseB, objSpec(&fam.Prop{Label: "extraB", Spec: &fam.Spec{Kind: "number"}})}}
		out = append(out, multiMember{name: "the same reference text as an allOf branch in two files", cfg: base,
			files: []*fam.FileSpec{{Name: "a.json", ID: "https://example.com/a", Root: objSpec(&fam.Prop{Label: "ca", Spec: compA, Required: true})},
				{Name: "b.json", ID: "https://example.com/b", Root: objSpec(&fam.Prop{Label: "cb", Spec: compB, Required: true})}},
			orders: [][]string{{"a.json", "b.json"}, {"b.json", "a.json"}},
			outOf:  map[string]string{"a.json": "out.go", "b.json": "out.go"}, pkgOf: map[string]string{"out.go": "example.com/pkg/model"}})
	}
	// an allOf branch that lives in another file and whose property refers, by fragment only, to a definition of ITS OWN file: the
	// merged struct is built by the referring file's generator, the fragment still means the branch's document
	{
		leaf := &fam.Spec{Kind: "string", Kw: []string{"minLength"}}
		leaf.Ref = "$defs"
		br := objSpec(&fam.Prop{Label: "x", Spec: leaf, Required: true}, &fam.Prop{Label: "w", Spec: &fam.Spec{Kind: "boolean"}})
		br.Ref, br.RefFile = "$defs", "b.json"
		comp := &fam.Spec{Kind: "object", AllOf: []*fam.Spec{br, objSpec(&fam.Prop{Label: "extra", Spec: &fam.Spec{Kind: "integer"}})}}
		out = append(out, multiMember{name: "an allOf branch in another file with a fragment-only reference into its own file", cfg: base,
			files:  []*fam.FileSpec{{Name: "a.json", ID: "https://example.com/a", Root: objSpec(&fam.Prop{Label: "c", Spec: comp, Required: true})}, mkB()},
			orders: [][]string{{"a.json"}, {"a.json", "b.json"}, {"b.json", "a.json"}},
			outOf:  map[string]string{"a.json": "out.go", "b.json": "out.go"}, pkgOf: map[string]string{"out.go": "example.com/pkg/model"}})
	}
	// ... and the same with a RECURSIVE definition: b.json's Node refers to itself by fragment ("#/$defs/Node"), a.json composes it
	// (allOf) and has a different definition of the same name. The merged struct's `next` is b.json's Node, not a.json's
	{
		node := objSpec(&fam.Prop{Label: "id", Spec: &fam.Spec{Kind: "string", Kw: []string{"minLength"}}, Required: true},
			&fam.Prop{Label: "next", Concrete: "next", Spec: &fam.Spec{RefRootOf: "#/$defs/Node", Kind: "object"}})
		node.Ref, node.RefFile, node.ConcreteDef = "$defs", "b.json", "Node"
		own := objSpec(&fam.Prop{Label: "weight", Spec: &fam.Spec{Kind: "integer", Kw: []string{"maximum"}}, Required: true})
		own.Ref, own.ConcreteDef = "$defs", "Node"
		comp := &fam.Spec{Kind: "object", AllOf: []*fam.Spec{node, objSpec(&fam.Prop{Label: "extra", Spec: &fam.Spec{Kind: "integer"}})}}
		out = append(out, multiMember{name: "an allOf branch in another file that is a recursive definition (fragment-only self reference)", cfg: base,
			files: []*fam.FileSpec{{Name: "a.json", ID: "https://example.com/a", Root: objSpec(&fam.Prop{Label: "c", Spec: comp, Required: true}, &fam.Prop{Label: "mine", Spec: own})},
				{Name: "b.json", ID: "https://example.com/b", Root: objSpec(&fam.Prop{Label: "k", Spec: &fam.Spec{Kind: "boolean"}})}},
			orders: [][]string{{"a.json"}, {"a.json", "b.json"}}, sameTypeKeys: []string{"next"},
			outOf: map[string]string{"a.json": "out.go", "b.json": "out.go"}, pkgOf: map[string]string{"out.go": "example.com/pkg/model"}})
	}
	// a whole-file reference to a document that has NO root (definitions only): there is nothing to generate for it — the run must
	// end with an error (expectErr), never with a panic
	{
		d := objSpec(&fam.Prop{Label: "dv", Spec: &fam.Spec{Kind: "string"}, Required: true})
		d.Ref, d.RefFile = "$defs", "b.json"
		fa := &fam.FileSpec{Name: "a.json", ID: "https://example.com/a", Root: objSpec(&fam.Prop{Label: "viaDef", Spec: d}, &fam.Prop{Label: "whole", Spec: &fam.Spec{RefRootOf: "b.json", Kind: "object"}})}
		fb := &fam.FileSpec{Name: "b.json", ID: "https://example.com/b", Root: objSpec(), NoRoot: true}
		out = append(out, multiMember{name: "whole-file reference to a document without a root", cfg: base, files: []*fam.FileSpec{fa, fb}, expectErr: true,
			orders: [][]string{{"a.json"}},
			outOf:  map[string]string{"a.json": "out.go"}, pkgOf: map[string]string{"out.go": "example.com/pkg/model"}})
	}
	// a cycle across two files
	t := objSpec(&fam.Prop{Label: "v", Spec: &fam.Spec{Kind: "string"}, Required: true})
	t.Ref, t.RefFile = "$defs", "b.json"
	t.Props = append(t.Props, &fam.Prop{Label: "back", Spec: &fam.Spec{RefRootOf: "a.json", Kind: "object"}})
	out = append(out, multiMember{name: "a reference cycle across two files", cfg: base,
		files:  []*fam.FileSpec{{Name: "a.json", ID: "https://example.com/a", Root: objSpec(&fam.Prop{Label: "first", Spec: t, Required: true})}, {Name: "b.json", ID: "https://example.com/b", Root: objSpec(&fam.Prop{Label: "k", Spec: &fam.Spec{Kind: "boolean"}})}},
		orders: [][]string{{"a.json"}, {"a.json", "b.json"}},
		outOf:  map[string]string{"a.json": "out.go", "b.json": "out.go"}, pkgOf: map[string]string{"out.go": "example.com/pkg/model"}})
	// two different files that declare the same $id (a copy-pasted header): each still gets its own root type, named after its file
	{
		sameA, sameB := mkA(), mkB()
		sameA.Root = objSpec(&fam.Prop{Label: "own", Spec: &fam.Spec{Kind: "boolean"}, Required: true})
		sameA.ID, sameB.ID = "https://example.com/same", "https://example.com/same"
		out = append(out, multiMember{name: "two files with the same $id", cfg: base, files: []*fam.FileSpec{sameA, sameB},
			orders: [][]string{{"a.json", "b.json"}, {"b.json", "a.json"}},
			outOf:  map[string]string{"a.json": "out.go", "b.json": "out.go"}, pkgOf: map[string]string{"out.go": "example.com/pkg/model"}})
	}
	// two files with the same base name in different directories (the root type names collide): both root types are emitted
	{
		xa := &fam.FileSpec{Name: "x/s.json", ID: "https://example.com/x/s", Root: objSpec(&fam.Prop{Label: "own", Spec: &fam.Spec{Kind: "boolean"}, Required: true})}
		yb := &fam.FileSpec{Name: "y/s.json", ID: "https://example.com/y/s", Root: objSpec(&fam.Prop{Label: "r", Spec: &fam.Spec{Kind: "integer"}, Required: true})}
		out = append(out, multiMember{name: "two files with the same base name", cfg: base, files: []*fam.FileSpec{xa, yb},
			orders: [][]string{{"x/s.json", "y/s.json"}},
			outOf:  map[string]string{"x/s.json": "out.go", "y/s.json": "out.go"}, pkgOf: map[string]string{"out.go": "example.com/pkg/model"}})
	}
	// type names from titles: a titled file that refers to another titled file as a whole — each root is named after ITS OWN title
	{
		tcfg := base
		tcfg.StructNameFromTitle = true
		ra := objSpec(&fam.Prop{Label: "head", Spec: &fam.Spec{RefRootOf: "b.json", Kind: "object"}, Required: true})
		ra.Title, ra.ConcreteTitle = true, "main thing"
		rb := objSpec(&fam.Prop{Label: "r", Spec: &fam.Spec{Kind: "integer"}, Required: true})
		rb.Title, rb.ConcreteTitle = true, "document"
		rb.NoType = true // properties only: the root is generated when the reference is followed, not by its own file pass
		out = append(out, multiMember{name: "titled roots, whole-file reference, names from titles", cfg: tcfg,
			files:  []*fam.FileSpec{{Name: "a.json", ID: "https://example.com/a", Root: ra}, {Name: "b.json", ID: "https://example.com/b", Root: rb}},
			orders: [][]string{{"a.json"}, {"a.json", "b.json"}, {"b.json", "a.json"}},
			outOf:  map[string]string{"a.json": "out.go", "b.json": "out.go"}, pkgOf: map[string]string{"out.go": "example.com/pkg/model"}})
		// ... the titled document referenced as a whole TWICE: first as an allOf branch (which marks it as dereferenced), then by a plain
		// property. -t changes identifiers only: the second reference finds the type under its title, no further declaration (alias)
		// appears that a run without -t does not have
		{
			wb := objSpec(&fam.Prop{Label: "r", Spec: &fam.Spec{Kind: "integer"}, Required: true})
			wb.Title, wb.ConcreteTitle = true, "bee thing"
			wa := objSpec(
				&fam.Prop{Label: "k", Spec: &fam.Spec{Kind: "boolean"}},
				&fam.Prop{Label: "first", Concrete: "first", Spec: &fam.Spec{Kind: "object", AllOf: []*fam.Spec{{RefRootOf: "b.json", Kind: "object"}, objSpec(&fam.Prop{Label: "x", Spec: &fam.Spec{Kind: "string"}})}}},
				&fam.Prop{Label: "second", Concrete: "second", Spec: &fam.Spec{RefRootOf: "b.json", Kind: "object"}})
			out = append(out, multiMember{name: "titled document referenced as an allOf branch and then plainly, names from titles", cfg: tcfg, noAlias: true,
				files:  []*fam.FileSpec{{Name: "a.json", ID: "https://example.com/a", Root: wa}, {Name: "b.json", ID: "https://example.com/b", Root: wb}},
				orders: [][]string{{"a.json"}, {"a.json", "b.json"}},
				outOf:  map[string]string{"a.json": "out.go", "b.json": "out.go"}, pkgOf: map[string]string{"out.go": "example.com/pkg/model"}})
		}
		// ... and with --schema-root-type for the referring file only
		rcfg := base
		rcfg.Mappings = []gen.Mapping{{ID: "https://example.com/a", Package: "example.com/pkg/model", Output: "out.go", RootType: "Renamed"}}
		ra2, rb2 := ra.Clone(), rb.Clone()
		ra2.Title, rb2.Title = false, false
		out = append(out, multiMember{name: "whole-file reference with --schema-root-type for the referring file", cfg: rcfg,
			files:  []*fam.FileSpec{{Name: "a.json", ID: "https://example.com/a", Root: ra2}, {Name: "b.json", ID: "https://example.com/b", Root: rb2}},
			orders: [][]string{{"a.json"}, {"b.json", "a.json"}},
			outOf:  map[string]string{"a.json": "out.go", "b.json": "out.go"}, pkgOf: map[string]string{"out.go": "example.com/pkg/model"}})
	}
	// a whole-file reference to a root WITHOUT "type" and without properties of its own: a pure allOf composition
	{
		party := objSpec(&fam.Prop{Label: "nm", Spec: &fam.Spec{Kind: "string"}, Required: true})
		party.Ref = "$defs"
		comp := &fam.Spec{Kind: "object", NoType: true, AllOf: []*fam.Spec{party, objSpec(&fam.Prop{Label: "email", Spec: &fam.Spec{Kind: "string", Kw: []string{"minLength"}}, Required: true})}}
		fa := &fam.FileSpec{Name: "a.json", ID: "https://example.com/a", Root: objSpec(&fam.Prop{Label: "customer", Spec: &fam.Spec{RefRootOf: "b.json", Kind: "object"}, Required: true})}
		fb := &fam.FileSpec{Name: "b.json", ID: "https://example.com/b", Root: comp}
		out = append(out, multiMember{name: "whole-file reference to a typeless root that is a pure allOf composition", cfg: base, files: []*fam.FileSpec{fa, fb},
			orders: [][]string{{"a.json"}},
			outOf:  map[string]string{"a.json": "out.go", "b.json": "out.go"}, pkgOf: map[string]string{"out.go": "example.com/pkg/model"}, composedRoot: "b.json"})
	}
	// two files WITHOUT $id: the referenced file is still processed as a whole — all its types are emitted, and an ungeneratable
	// element anywhere in it fails the run
	for _, hostile := range []bool{false, true} {
		good := objSpec(&fam.Prop{Label: "g", Spec: &fam.Spec{Kind: "string"}, Required: true})
		good.Ref, good.RefFile = "$defs", "b.json"
		other := &fam.Spec{Kind: "object", Props: []*fam.Prop{{Label: "o", Spec: &fam.Spec{Kind: "integer"}}}, Ref: "$defs"}
		name := "two files without $id"
		if hostile {
			other = &fam.Spec{Kind: "string", Ref: "$defs", Hostile: "unknown-type"}
			name = "two files without $id, an unknown type in an unreferenced definition of the referenced file"
		}
		fb := &fam.FileSpec{Name: "b.json", ID: "", Root: objSpec(&fam.Prop{Label: "k", Spec: &fam.Spec{Kind: "boolean"}}, &fam.Prop{Label: "other", Spec: other})}
		fa := &fam.FileSpec{Name: "a.json", ID: "", Root: objSpec(&fam.Prop{Label: "p", Spec: good, Required: true})}
		out = append(out, multiMember{name: name, cfg: base, files: []*fam.FileSpec{fa, fb}, expectErr: hostile,
			orders: [][]string{{"a.json"}},
			outOf:  map[string]string{"a.json": "out.go", "b.json": "out.go"}, pkgOf: map[string]string{"out.go": "example.com/pkg/model"}})
	}
	// a whole-file reference to a sibling whose root has properties but no "type" and refers back to itself by file name
	{
		self := func() *fam.Spec { return &fam.Spec{RefRootOf: "node.json", Kind: "object"} }
		node := objSpec(&fam.Prop{Label: "v", Spec: &fam.Spec{Kind: "string", Kw: []string{"minLength"}}, Required: true},
			&fam.Prop{Label: "next", Spec: self()}, &fam.Prop{Label: "kids", Spec: &fam.Spec{Kind: "array", Items: self()}})
		node.NoType = true
		out = append(out, multiMember{name: "a typeless root that refers to itself by file name", cfg: base,
			files: []*fam.FileSpec{{Name: "a.json", ID: "https://example.com/a", Root: objSpec(&fam.Prop{Label: "head", Spec: &fam.Spec{RefRootOf: "node.json", Kind: "object"}, Required: true})},
				{Name: "node.json", ID: "https://example.com/node", Root: node}},
			orders: [][]string{{"a.json"}, {"a.json", "node.json"}, {"node.json", "a.json"}},
			outOf:  map[string]string{"a.json": "out.go", "node.json": "out.go"}, pkgOf: map[string]string{"out.go": "example.com/pkg/model"}})
	}
	// a recursive document that refers to itself with "#", generated NEXT TO an unrelated file with another $id that lands in the same
	// output: the self reference is the document's own root type whichever file of the run created the output (sameTypeKeys: the
	// recursive members have one type in every order)
	{
		self := func() *fam.Spec { return &fam.Spec{RefRootOf: "#", Kind: "object"} }
		tree := objSpec(&fam.Prop{Label: "nm", Spec: &fam.Spec{Kind: "string", Kw: []string{"minLength"}}, Required: true},
			&fam.Prop{Label: "parent", Concrete: "parent", Spec: self()}, &fam.Prop{Label: "children", Concrete: "children", Spec: &fam.Spec{Kind: "array", Items: self()}})
		out = append(out, multiMember{name: "a document recursive through # next to an unrelated file of the same output", cfg: base,
			files: []*fam.FileSpec{{Name: "first.json", ID: "https://example.com/first", Root: objSpec(&fam.Prop{Label: "k", Spec: &fam.Spec{Kind: "boolean"}})},
				{Name: "tree.json", ID: "https://example.com/tree", Root: tree}},
			orders: [][]string{{"tree.json"}, {"tree.json", "first.json"}, {"first.json", "tree.json"}}, selfRefKeys: []string{"parent", "children"},
			outOf: map[string]string{"first.json": "out.go", "tree.json": "out.go"}, pkgOf: map[string]string{"out.go": "example.com/pkg/model"}})
	}
	// ... and a document recursive through # whose root type NAME (its title, under -t) is also the name of one of its definitions: the
	// definition is generated first and owns the plain name, the root gets a suffix — "#" is still the root, found by identity
	{
		tcfg := base
		tcfg.StructNameFromTitle = true
		self := func() *fam.Spec { return &fam.Spec{RefRootOf: "#", Kind: "object"} }
		d := objSpec(&fam.Prop{Label: "w", Spec: &fam.Spec{Kind: "integer"}, Required: true})
		d.Ref, d.ConcreteDef = "$defs", "node"
		tree := objSpec(&fam.Prop{Label: "nm", Spec: &fam.Spec{Kind: "string", Kw: []string{"minLength"}}, Required: true},
			&fam.Prop{Label: "parent", Concrete: "parent", Spec: self()}, &fam.Prop{Label: "other", Spec: d})
		tree.Title, tree.ConcreteTitle = true, "Node"
		out = append(out, multiMember{name: "a document recursive through # whose title is also a definition's name", cfg: tcfg,
			files:  []*fam.FileSpec{{Name: "tree.json", ID: "https://example.com/tree", Root: tree}},
			orders: [][]string{{"tree.json"}}, selfRefKeys: []string{"parent"},
			outOf: map[string]string{"tree.json": "out.go"}, pkgOf: map[string]string{"out.go": "example.com/pkg/model"}})
	}
	return out
}

// ruleMulti runs the multi-file families and checks routing, single emission, qualification, joint type-checking,
// per-definition validation and independence from argument order / unrelated files.
func ruleMulti(c *core.Ctx, want map[string]bool) { ruleMultiSel(c, want, 10) }

// ruleMultiSel runs the multi-file members whose name contains one of the words (all when none is given).
func ruleMultiSel(c *core.Ctx, want map[string]bool, floor int, words ...string) {
	skel.DepsDir = filepath.Join(c.VerifDir, "checker", "testdata", "emitdeps")
	for _, mm := range multiMembers() {
		sel := len(words) == 0
		for _, wd := range words {
			if strings.Contains(mm.name, wd) {
				sel = true
			}
		}
		if !sel {
			continue
		}
		c.Counts["multi_members"]++
		var ref map[string]string // normalised text per output file of the first order
		var refArgs []string
		for _, args := range mm.orders {
			worlds, complete := fam.RunMulti(c.Prog, mm.cfg, mm.files, args, 64)
			key := fmt.Sprintf("multi: %s args=%v", mm.name, args)
			if !complete || len(worlds) == 0 {
				c.Undecided("A-UNDECIDED", "(families)", key, "", fmt.Sprintf("%d worlds (complete=%v)", len(worlds), complete))
				continue
			}
			single := len(worlds) == 1 // the order clause compares the one world of each invocation
			baseKey := key
			for wi, w := range worlds {
				key := baseKey
				if !single {
					key = fmt.Sprintf("%s world %d%v", baseKey, wi, w.Script)
				}
				c.Counts["multi_runs"]++
				var issues []fam.Issue
				issues = append(issues, w.RunIssues()...)
				if w.Err == nil && w.GenErr != "" && !mm.expectErr {
					issues = append(issues, fam.Issue{Rule: "A-GENERR", Construct: "generator rejects a valid multi-file input", Msg: w.GenErr})
				}
				if w.Err == nil && w.GenErr == "" && mm.expectErr {
					issues = append(issues, fam.Issue{Rule: "A-SILENT", Construct: "no error for an ungeneratable element in a referenced file", Msg: "the generator reports success although a definition of the referenced file cannot be generated: it was silently left out"})
				}
				if d := os.Getenv("VCHECK_DUMP"); d != "" && strings.Contains(mm.name, d) {
					fmt.Printf("DUMP multi %s args=%v world %d err=%v generr=%q\n", mm.name, args, wi, w.Err, w.GenErr)
					for n, fm := range w.Models {
						fmt.Printf("---- %s\n%s\n", n, fm.F.R.Text)
					}
				}
				if w.Err == nil && w.GenErr == "" && !mm.expectErr {
					issues = append(issues, w.SynIssues()...)
					issues = append(issues, w.TypeCheckAll(c.Prog.Repo, mm.pkgOf)...)
					issues = append(issues, checkRouting(mm, w, args)...)
					if mm.noAlias {
						for _, fm := range w.Models {
							for tn, td := range fm.Types {
								if td.Alias {
									issues = append(issues, fam.Issue{Rule: "A-REL", Construct: "a naming option adds a type declaration (alias)",
										Msg: fmt.Sprintf("the output declares `type %s = %s`: the document is reached under a second name (the reference site computes another identifier than the declaration site), so the naming option adds a declaration instead of only changing identifiers", tn, td.Type)})
								}
							}
						}
					}
					for _, k := range mm.selfRefKeys {
						for _, fm := range w.Models {
							for sn, S := range fm.Structs {
								for _, F := range S.Fields {
									if strings.Split(F.Tags["json"], ",")[0] == k && strings.TrimLeft(F.Type, "[]*") != sn {
										issues = append(issues, fam.Issue{Rule: "A-MAP", Construct: "a document's reference to itself (#) is not typed as the document's root type",
											Msg: fmt.Sprintf("%s.%s has type %s: the property is {\"$ref\": \"#\"}, the document itself, so it must be (a pointer to / a list of) %s — nested nodes are otherwise decoded untyped and none of the root's rules are enforced below the first level", sn, k, F.Type, sn)})
									}
								}
							}
						}
					}
					for _, k := range mm.sameTypeKeys {
						seen := map[string]string{}
						var names []string
						for _, fm := range w.Models {
							for sn, S := range fm.Structs {
								for _, F := range S.Fields {
									if strings.Split(F.Tags["json"], ",")[0] == k {
										seen[sn] = F.Type
										names = append(names, sn)
									}
								}
							}
						}
						sort.Strings(names)
						for _, sn := range names[1:] {
							if seen[sn] != seen[names[0]] {
								issues = append(issues, fam.Issue{Rule: "A-MAP", Construct: "one schema node typed differently in the definition and in a composition that merges it",
									Msg: fmt.Sprintf("property %q is one node of the schema (a reference inside a definition that a composition of ANOTHER file merges), but %s.%s has type %s while %s has %s: the reference was resolved against the wrong document on its second visit", k, names[0], k, seen[names[0]], sn, seen[sn])})
							}
						}
					}
					// normalised outputs for the relational clauses
					cur := map[string]string{}
					for n, fm := range w.Models {
						cur[n] = normalizedFile(fm)
					}
					if !single {
						// several worlds (relative order of two limits): the order clause is decided on the single-world members
					} else if ref == nil {
						ref, refArgs = cur, args
					} else {
						for n, txt := range cur {
							if r, ok := ref[n]; ok && r != txt && sameSchemasReach(mm, n, args, refArgs) {
								construct := "declarations differ between argument orders / with unrelated files"
								if suffixFree(r) == suffixFree(txt) {
									construct = "which of several same-named definitions gets the numeric suffix depends on the argument order"
								}
								issues = append(issues, fam.Issue{Rule: "A-ORDER", Construct: construct,
									Msg: fmt.Sprintf("output file %s differs between the invocations %v and %v although the schemas that land in it are the same: %s", n, refArgs, args, firstDiff(r, txt))})
							}
						}
					}
				}
				bad := 0
				for _, is := range issues {
					base := is.Rule
					if i := strings.IndexByte(base, ':'); i >= 0 {
						base = base[:i]
					}
					if !(want[is.Rule] || want[base] || is.Rule == "A-UNDECIDED" || is.Rule == "A-SYN" || is.Rule == "A-PANIC" || is.Rule == "A-GENERR" || is.Rule == "A-SILENT") {
						continue
					}
					fn := "(emitted code)"
					// multi-file findings are identified by the scenario they occur in
					if !strings.HasPrefix(is.Construct, "which of several same-named definitions") { // one cause whatever the scenario
						is.Construct = "[" + mm.name + "] " + is.Construct
					}
					if c.IsKnown(is.Rule, fn, is.Construct) {
						c.Report(core.Finding{Rule: is.Rule, Func: fn, Construct: is.Construct, Msg: is.Msg})
						continue
					}
					bad++
					kind := "violation"
					if is.Rule == "A-UNDECIDED" {
						kind = "undecided"
					}
					c.Report(core.Finding{Rule: is.Rule, Func: fn, Construct: is.Construct, Kind: kind, Msg: is.Msg + "  [first seen on: " + key + "]"})
				}
				c.Obl("multi-file", key, bad == 0, fmt.Sprintf("%d issue(s); loader calls %v", bad, w.Loads))
				if len(c.Samples) < 8 {
					var outs []string
					for n := range w.Files {
						outs = append(outs, n)
					}
					sort.Strings(outs)
					c.Sample(map[string]any{"multi_file_member": key, "output_files": outs, "loader_calls": w.Loads, "issues": bad})
				}
			}
		}
	}
	c.Floor("multi", c.Counts["multi_runs"], floor, "multi-file generator runs")
}

func normalizedFile(fm *fam.FileModel) string {
	n := fm.Normalize()
	var parts []string
	for k, v := range n.Types {
		parts = append(parts, "type "+k+" "+v)
	}
	for k, v := range n.Methods {
		parts = append(parts, "method "+k+" "+v)
	}
	for k, v := range n.Consts {
		parts = append(parts, "const "+k+" "+v)
	}
	for k, v := range n.Vars {
		parts = append(parts, "var "+k+" "+v)
	}
	sort.Strings(parts)
	return "package " + fm.Package + "\nimports " + strings.Join(n.Imports, ",") + "\n" + strings.Join(parts, "\n")
}

var suffixRe = regexp.MustCompile(`>_[0-9]+`)

// suffixFree drops the numeric de-duplication suffixes and the declaration order.
func suffixFree(s string) string {
	ls := strings.Split(suffixRe.ReplaceAllString(s, ">"), "\n")
	sort.Strings(ls)
	return strings.Join(ls, "\n")
}

func firstDiff(a, b string) string {
	la, lb := strings.Split(a, "\n"), strings.Split(b, "\n")
	for i := 0; i < len(la) && i < len(lb); i++ {
		if la[i] != lb[i] {
			x, y := la[i], lb[i]
			if len(x) > 160 {
				x = x[:160]
			}
			if len(y) > 160 {
				y = y[:160]
			}
			return "`" + x + "` / `" + y + "`"
		}
	}
	return fmt.Sprintf("%d vs %d declarations", len(la), len(lb))
}

// sameSchemasReach: the set of schema files that land in output n is the same in both invocations
// (a file passed as an argument, or reachable by reference from one).
func sameSchemasReach(mm multiMember, n string, a, b []string) bool {
	return strings.Join(reach(mm, n, a), ",") == strings.Join(reach(mm, n, b), ",")
}

func reach(mm multiMember, n string, args []string) []string {
	seen := map[string]bool{}
	var walk func(f string)
	refs := map[string][]string{}
	for _, fs := range mm.files {
		var visit func(s *fam.Spec)
		visit = func(s *fam.Spec) {
			if s == nil {
				return
			}
			if s.RefFile != "" {
				refs[fs.Name] = append(refs[fs.Name], s.RefFile)
			}
			if s.RefRootOf != "" && !strings.HasPrefix(s.RefRootOf, "#") {
				refs[fs.Name] = append(refs[fs.Name], s.RefRootOf)
			}
			visit(s.Items)
			for _, p := range s.Props {
				visit(p.Spec)
			}
			for _, x := range s.AnyOf {
				visit(x)
			}
			for _, x := range s.AllOf {
				visit(x)
			}
		}
		visit(fs.Root)
	}
	walk = func(f string) {
		if seen[f] {
			return
		}
		seen[f] = true
		for _, r := range refs[f] {
			walk(r)
		}
	}
	for _, a := range args {
		walk(a)
	}
	var out []string
	for f := range seen {
		if mm.outOf[f] == n {
			out = append(out, f)
		}
	}
	sort.Strings(out)
	return out
}

// checkRouting: each schema's root struct lands exactly once, in the output mapped to its id, under the mapped
// package; cross-package references are qualified and imported, same-package ones are not.
func checkRouting(mm multiMember, w *fam.MultiWorld, args []string) []fam.Issue {
	var out []fam.Issue
	reached := map[string]bool{}
	for _, fs := range w.Specs {
		for _, o := range []string{mm.outOf[fs.Name]} {
			_ = o
		}
		reached[fs.Name] = len(reach(mm, mm.outOf[fs.Name], args)) > 0 && contains(reach(mm, mm.outOf[fs.Name], args), fs.Name)
	}
	for _, fs := range w.Specs {
		if fs.Name == mm.composedRoot && reached[fs.Name] {
			if fm := w.Models[mm.outOf[fs.Name]]; fm != nil {
				w.Spec = fs.Root
				for _, is := range w.CheckObject(fm, fs.Root, "", fs.Name) {
					switch is.Rule {
					case "A-REQ", "A-MAP", "A-REJ", "A-TAG":
						out = append(out, is)
					}
				}
			}
			continue
		}
		if !reached[fs.Name] || len(fs.Root.Props) == 0 {
			continue
		}
		first := fs.Root.Props[0]
		var where []string
		for n, fm := range w.Models {
			if S, _ := fm.FindField(first.Name, "json"); S != nil {
				where = append(where, n+":"+S.Name)
			}
		}
		sort.Strings(where)
		wantFile := mm.outOf[fs.Name]
		switch {
		case len(where) == 0:
			out = append(out, fam.Issue{Rule: "A-ROUTE", Construct: "schema's declarations are not emitted", Msg: fmt.Sprintf("the root type of %s appears in no output file", fs.Name)})
		case len(where) > 1:
			out = append(out, fam.Issue{Rule: "A-ROUTE", Construct: "schema's declarations are emitted more than once", Msg: fmt.Sprintf("the root type of %s is declared %d times: %v", fs.Name, len(where), where)})
		case !strings.HasPrefix(where[0], wantFile+":"):
			out = append(out, fam.Issue{Rule: "A-ROUTE", Construct: "schema lands in the wrong output file", Msg: fmt.Sprintf("the root type of %s is in %s, its id is mapped to %s", fs.Name, where[0], wantFile)})
		}
		if fm := w.Models[wantFile]; fm != nil {
			wantPkg := mm.pkgOf[wantFile]
			if fm.Package != wantPkg[strings.LastIndex(wantPkg, "/")+1:] {
				out = append(out, fam.Issue{Rule: "A-ROUTE", Construct: "wrong package clause", Msg: fmt.Sprintf("%s declares package %s, mapped package is %s", wantFile, fm.Package, wantPkg)})
			}
			// per-schema validation in its own file (same-file refs resolve within the model; cross-file ones are checked below)
			w.Spec = fs.Root
			for _, p := range fs.Root.Props {
				S, F := fm.FindField(p.Name, "json")
				if F == nil {
					continue
				}
				if p.Spec.RefFile == "" && p.Spec.RefRootOf == "" {
					continue
				}
				target := p.Spec.RefFile
				if target == "" {
					target = p.Spec.RefRootOf
				}
				tfile := mm.outOf[target]
				tpkg, mypkg := mm.pkgOf[tfile], mm.pkgOf[wantFile]
				ft := strings.TrimPrefix(F.Type, "*")
				qualified := strings.Contains(ft, ".")
				if (tpkg != mypkg) != qualified {
					out = append(out, fam.Issue{Rule: "A-XPKG", Construct: fmt.Sprintf("reference qualified=%v although packages differ=%v", qualified, tpkg != mypkg),
						Msg: fmt.Sprintf("%s.%s (in %s, package %s) refers to a type of %s (package %s) as %s", S.Name, F.Name, wantFile, mypkg, tfile, tpkg, F.Type)})
				}
				hasImport := false
				for _, im := range fm.Imports {
					if strings.HasPrefix(im, tpkg+" ") || im == tpkg {
						hasImport = true
					}
				}
				if (tpkg != mypkg) != hasImport {
					out = append(out, fam.Issue{Rule: "A-XPKG", Construct: fmt.Sprintf("import of the target package present=%v although packages differ=%v", hasImport, tpkg != mypkg),
						Msg: fmt.Sprintf("%s imports %v; the reference from %s needs import of %s = %v", wantFile, fm.Imports, fs.Name, tpkg, tpkg != mypkg)})
				}
				// the referenced definition is validated where it lands
				if tm := w.Models[tfile]; tm != nil && p.Spec.RefFile != "" {
					name := ft[strings.LastIndex(ft, ".")+1:]
					for _, is := range w.CheckObject(tm, p.Spec, name, fs.Name+"."+p.Label+"@"+target) {
						switch is.Rule {
						case "A-REQ", "A-REJ", "A-NOEXTRA", "A-DEF", "A-NILG":
							out = append(out, is)
						}
					}
				}
			}
			// same-file definitions with defaults etc.
			for _, is := range w.CheckObject(fm, sameFileView(fs.Root), "", fs.Name) {
				switch is.Rule {
				case "A-DEF", "A-REQ", "A-MAP", "A-REJ", "A-NOEXTRA", "A-NILG":
					if is.Rule == "A-NOEXTRA" && strings.Contains(is.Construct, "presence check") {
						continue // the view dropped the (possibly required) cross-file properties
					}
					out = append(out, is)
				}
			}
		}
	}
	return out
}

// sameFileView is the spec without the properties that refer into another file (those are checked where their target lands).
func sameFileView(s *fam.Spec) *fam.Spec { return sameFileViewMemo(s, map[*fam.Spec]*fam.Spec{}) }

// shared specs (one definition referenced from two places) stay shared in the view
func sameFileViewMemo(s *fam.Spec, seen map[*fam.Spec]*fam.Spec) *fam.Spec {
	if s == nil {
		return nil
	}
	if v, ok := seen[s]; ok {
		return v
	}
	c := *s
	seen[s] = &c
	c.Props = nil
	for _, p := range s.Props {
		if crossFile(p.Spec) {
			continue
		}
		np := *p
		np.Spec = sameFileViewMemo(p.Spec, seen)
		c.Props = append(c.Props, &np)
	}
	c.Items = sameFileViewMemo(s.Items, seen)
	if len(s.AllOf) > 0 {
		c.AllOf = nil
		for _, b := range s.AllOf {
			c.AllOf = append(c.AllOf, sameFileViewMemo(b, seen))
		}
	}
	if len(s.AnyOf) > 0 {
		c.AnyOf = nil
		for _, b := range s.AnyOf {
			c.AnyOf = append(c.AnyOf, sameFileViewMemo(b, seen))
		}
	}
	return &c
}

func crossFile(s *fam.Spec) bool {
	return s != nil && (s.RefFile != "" || s.RefRootOf != "" || crossFile(s.Items))
}

func contains(xs []string, x string) bool {
	for _, y := range xs {
		if y == x {
			return true
		}
	}
	return false
}
