package props

import (
	"verif/checker/internal/core"
	"verif/checker/internal/fam"
	"verif/checker/internal/gen"
)

func init() { Registry["C06"] = C06 }

const engineAText = "Engine A: the generator itself (generator.New, addFile, every generate*/validator/formatter/Emitter function, Sources) is interpreted abstractly over go/ssa on an " +
	"in-memory abstract schema whose leaves are atoms (every property name, limit, pattern, description is symbolic); nothing from /repo is executed and no concrete schema or document exists. " +
	"The result is the emitted file as a skeleton with holes; holes are replaced by unique kind-correct placeholders and the text is parsed with go/parser. " +
	"Reject branches of the emitted Unmarshal methods are normalised (subject, measure, operator, bound atom, nil guard, enclosing range loops) and compared as a set with the oracle derived " +
	"from the same family description: every stated keyword has exactly its branch (A-REJ), no branch exists without a stated keyword (A-NOEXTRA), pointer fields are nil-guarded (A-NILG). "

// C06 — string length and pattern constraints are enforced exactly.
func C06(c *core.Ctx) {
	c.Explanation = engineAText +
		"C06 family: a string property in 6 positions (required, optional, nullable in both type-list orders, behind #/$defs and #/definitions references) × all 8 subsets of " +
		"{minLength, maxLength, pattern}, JSON and YAML methods. Additional clauses: the length measure must count characters (A-REJ:chars); emitted code may not discard the matcher's error (A-ERRDROP2); " +
		"no schema text is used as a printf format (A-EVENT:symbolic-format); with a default on the same property the default assignment precedes every length/pattern check in both methods (A-DEF). A-FIDELITY: (*Type).UnmarshalJSON interpreted on the one-keyword document {kw: v} leaves exactly what plain encoding/json makes of it — the stated value is neither normalised nor dropped (a zero is a stated value). Not decided: regexp dialect differences."
	rules := ruleSet("A-REJ", "A-NOEXTRA", "A-NILG", "A-ERRDROP2", "A-EVENT", "A-CTX")
	cfg := gen.DefaultConfig()
	for _, pos := range positions {
		for _, kws := range subsets([]string{"minLength", "maxLength", "pattern"}) {
			sp := &fam.Spec{Kind: "string", Kw: kws}
			mb := member{name: "string " + pos + " " + sp.String(), cfg: cfg, root: place(sp, pos)}
			runMember(c, mb, rules, 16, func(w *fam.World, fm *fam.FileModel) []fam.Issue {
				is := w.CheckObject(fm, w.Spec, "", "root")
				// the pattern's text reaches its literal as one piece (A-CTX:cut)
				for _, x := range w.CtxIssues() {
					if x.Rule == "A-CTX:cut" {
						is = append(is, x)
					}
				}
				return is
			})
		}
	}
	// a defaulted string is a plain value without nil guard: "absent or null is not checked" holds only because the default is in
	// place before the length / pattern checks run (A-DEF order clause), in the JSON and in the YAML method
	for _, pos := range []string{"required", "optional", "nullable-optional"} {
		for _, kws := range [][]string{{"minLength"}, {"pattern"}, {"minLength", "maxLength", "pattern"}} {
			sp := &fam.Spec{Kind: "string", Kw: kws, Default: "scalar"}
			mb := member{name: "defaulted string " + pos + " " + sp.String(), cfg: cfg, root: place(sp, pos)}
			runMember(c, mb, ruleSet("A-REJ", "A-NOEXTRA", "A-NILG", "A-DEF"), 16, func(w *fam.World, fm *fam.FileModel) []fam.Issue {
				return w.CheckObject(fm, w.Spec, "", "root")
			})
		}
	}
	ruleFidelity(c, "pattern", "minLength", "maxLength")
	// a check only runs on a field the decoder fills: the field's identifier is exported for every name and capitalization (A-IDENT);
	// and it is the check of THIS schema: a same-named schema is bound to the declaration of the equal one (A-DEDUP)
	ruleIdent(c)
	ruleDedup(c)
	runCompositions(c, rules, "Length", "pattern")
	// the checks of a declaration are its own schema's, also when another file of the run defines a same-named, same-shaped definition
	ruleMultiSel(c, ruleSet("A-REJ", "A-NOEXTRA"), 3, "differing only in minLength", "differing only in maxLength", "differing only in pattern", "three files with their own minLength")
	// which declaration a same-named schema is bound to decides which constraints validate it (A-DEDUP)
	ruleDedup(c)
	c.Floor("families", c.Counts["members"], 48, "family members")
}
