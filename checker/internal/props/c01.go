package props

import (
	"path/filepath"
	"strings"

	"verif/checker/internal/core"
	"verif/checker/internal/engb"
	"verif/checker/internal/fam"
	"verif/checker/internal/gen"
	"verif/checker/internal/skel"
)

func init() { Registry["C01"] = C01 }

func optionConfigs() []gen.Config {
	d := gen.DefaultConfig()
	noExtra := d
	noExtra.ExtraImports = false
	only := d
	only.OnlyModels = true
	sized := d
	sized.MinSizedInts = true
	jsonOnly := d
	jsonOnly.Tags = []string{"json"}
	onlyNoExtra := noExtra
	onlyNoExtra.OnlyModels = true
	// options in combination: sized integers in the CLI's default mode with a reduced tag list
	sizedNoExtraJSON := noExtra
	sizedNoExtraJSON.MinSizedInts = true
	sizedNoExtraJSON.Tags = []string{"json"}
	return []gen.Config{d, noExtra, only, sized, jsonOnly, onlyNoExtra, sizedNoExtraJSON}
}

// C01 — every emitted file is valid, self-contained Go that compiles.
func C01(c *core.Ctx) {
	c.NoDefaultModeTwin = true // the option sets of this driver include the run without --extra-imports
	c.Explanation = engineAText +
		"C01: over the broad union of families × option sets {default, no --extra-imports, --only-models, --min-sized-ints, --tags json, only-models without extra imports, --min-sized-ints without extra imports with --tags json} every emitted file skeleton must " +
		"(A-SYN) parse; (A-TYP) type-check with go/types against exactly the imports the generator registered for that run, using the real export data of encoding/json, fmt, errors, reflect, regexp, math, " +
		"strings, time, net/netip, yaml.v3, mapstructure and pkg/types — so a missing or unused import, an undeclared or duplicate identifier, or an ill-typed literal in ANY keyword/option combination is an " +
		"error; (A-CTX) every hole must sit in a lexical context compatible with its sanitisation (identifier <= synthesised identifier; \"…\" <= %q-quoted; back-quoted literal or struct tag <= never raw schema " +
		"text; // comment <= split on newlines; number <= numeric atom), and no schema text may be used as a printf format (A-EVENT). The import set is computed by interpreting the AddImport calls under the " +
		"same abstract configuration. B-ERR instance: the go/format error in Generator.Sources. Not decided: gofmt idempotence; shapes outside the families (cross-file $ref, goJSONSchema type overrides)."
	rules := ruleSet("A-SYN", "A-TYP", "A-CTX", "A-EVENT", "A-INDENT")
	skel.DepsDir = filepath.Join(c.VerifDir, "checker", "testdata", "emitdeps")
	cfgs := optionConfigs()
	n := 0
	for ci, cfg := range cfgs {
		for i, mb := range broadMembers(c.Tier, cfg) {
			if c.Tier != "thorough" && ci > 0 && i%3 != ci%3 {
				continue
			}
			n++
			budget := 256
			if cfg.MinSizedInts {
				budget = 4096
				// every world of a bounded integer under --min-sized-ints is a region of the bound relative to the
				// width limits; the quick tier keeps the one-sided members and a sample of the two-sided ones
				if c.Tier != "thorough" && strings.HasPrefix(mb.name, "integer") {
					two := strings.Contains(mb.name, "minimum") && strings.Contains(mb.name, "maximum") || strings.Contains(mb.name, "emin=num") && strings.Contains(mb.name, "emax=num") ||
						strings.Contains(mb.name, "minimum") && strings.Contains(mb.name, "emax=num") || strings.Contains(mb.name, "maximum") && strings.Contains(mb.name, "emin=num")
					if two && i%60 != 0 {
						continue
					}
				}
			}
			runMember(c, mb, rules, budget, func(w *fam.World, fm *fam.FileModel) []fam.Issue {
				var out []fam.Issue
				out = append(out, w.CtxIssues()...)
				out = append(out, w.TypIssues(c.Prog.Repo)...)
				return out
			})
		}
	}
	// identifier-coincidence families: duplicate field / type names are a C01 matter too
	for _, mb := range collisionMembers() {
		runCollisionMember(c, mb, ruleSet("A-TYP"), 4096)
	}
	c.Floor("families", c.Counts["members"], 1000, "family members × option sets")
	// B-ERR instance: format.Source in Sources
	a := engb.New(c.Prog)
	// the default output is standard output: nothing but the generated source may be written to it
	emit(c, a.StdoutCarriesOnlyCode())
	ruleBErr(c, a, func(s *engb.ErrSite) bool { return s.Callee == "go/format.Source" })
	ruleImportSet(c)
	ruleDeclSet(c)
	// identifiers: what Identifierize makes of every class of text is a valid Go identifier (shared with C14)
	ruleIdent(c)
	// several files: the emitted packages compile together (no self-import, no unused or missing import, no duplicate declaration)
	ruleMultiSel(c, ruleSet("A-TYP", "A-XPKG"), 7, "reference across two packages", "a definition with a cross-package property", "reference between two files of one package", "reference within the single default output", "two files with the same base name", "titled roots")
}
