package props

import (
	"fmt"
	"go/types"
	"path/filepath"
	"strings"

	"verif/checker/internal/absint"
	"verif/checker/internal/core"
	"verif/checker/internal/fam"
	"verif/checker/internal/gen"
	"verif/checker/internal/skel"
)

func init() { Registry["C14"] = C14 }

// ruleIdent interprets Caser.Identifierize over every string of rune classes up to a length bound.
func ruleIdent(c *core.Ctx) {
	fn, err := c.Prog.MustFunc("(*internal/x/text.Caser).Identifierize")
	if err != nil {
		c.Undecided("A-IDENT", "(*internal/x/text.Caser).Identifierize", "anchor", "", err.Error())
		return
	}
	newCaser, err := c.Prog.MustFunc("internal/x/text.NewCaser")
	if err != nil {
		c.Undecided("A-IDENT", "internal/x/text.NewCaser", "anchor", "", err.Error())
		return
	}
	full := absint.RuneClasses
	reduced := []string{"Lu", "Ll+", "Ll0", "Lo", "Nd", "No", "P", "M"}
	type job struct {
		classes []string
		n       int
	}
	jobs := []job{{full, 1}, {full, 2}, {full, 3}, {reduced, 4}}
	if c.Tier == "thorough" {
		jobs = []job{{full, 1}, {full, 2}, {full, 3}, {full, 4}, {reduced, 5}, {[]string{"Lu", "Ll+", "Lo", "Nd", "P"}, 6}}
	}
	total, bad := 0, 0
	type probKey struct{ construct string }
	seen := map[string]bool{}
	for _, jb := range jobs {
		idx := make([]int, jb.n)
		for {
			classes := make([]string, jb.n)
			for i, k := range idx {
				classes[i] = jb.classes[k]
			}
			total++
			runs, complete := absint.Explore(c.Prog, 16, nil, func(m *absint.Machine) any {
				caser := m.CallFunction(newCaser, []absint.Value{m.Zero(typesStringSlice()), m.Zero(typesStringSlice())}, nil)
				var parts []absint.Str
				for _, cl := range classes {
					parts = append(parts, absint.HoleStr(m.NewRune(cl)))
				}
				r := m.CallFunction(fn, []absint.Value{caser, absint.Cat(parts...)}, nil)
				return r
			})
			if !complete {
				c.Undecided("A-IDENT", "(*internal/x/text.Caser).Identifierize", "fork budget", "", "class string "+strings.Join(classes, " "))
			}
			for _, run := range runs {
				if run.Err != nil {
					bad++
					k := "interpretation: " + run.Err.Kind + ": " + run.Err.Msg
					if !seen[k] {
						seen[k] = true
						c.Fail("A-IDENT", "(*internal/x/text.Caser).Identifierize", k, run.Err.Pos, fmt.Sprintf("on the class string [%s]: %s", strings.Join(classes, " "), run.Err.Error()), nil)
					}
					continue
				}
				res, _ := run.Out.(absint.Str)
				var out []string // class of every output character
				for _, p := range res.P {
					if p.Hole != nil {
						out = append(out, p.Hole.A.Facts["class"])
					} else {
						for _, r := range p.Lit {
							out = append(out, litClass(r))
						}
					}
				}
				problem, construct := "", ""
				switch {
				case len(out) == 0:
					problem, construct = "the result is empty", "empty identifier"
				case out[0] != "Lu":
					problem = fmt.Sprintf("the first character of the result has class %s: the Go identifier is not exported (or not an identifier at all)", out[0])
					construct = "first character of class " + out[0]
				}
				for _, oc := range out {
					if !absint.GoIdentPartClass(oc) {
						problem = fmt.Sprintf("the result contains a character of class %s, which Go identifiers do not allow", oc)
						construct = "identifier contains a character of class " + oc
					}
				}
				if problem == "" {
					continue
				}
				bad++
				if !seen[construct] {
					seen[construct] = true
					c.Fail("A-IDENT", "(*internal/x/text.Caser).Identifierize", construct, c.Prog.Pos(fn.Pos()),
						fmt.Sprintf("%s; first seen on the class string [%s] -> [%s]", problem, strings.Join(classes, " "), strings.Join(out, " ")), nil)
				}
			}
			// next tuple
			i := jb.n - 1
			for ; i >= 0; i-- {
				idx[i]++
				if idx[i] < len(jb.classes) {
					break
				}
				idx[i] = 0
			}
			if i < 0 {
				break
			}
		}
	}
	// user capitalizations are inserted VERBATIM for a matching word, so one that starts with a lower-case letter (iOS, eBay, gRPC)
	// puts a lower-case letter first: the repair of the first character must still fire. Concrete words, the rest symbolic.
	for _, capWord := range []string{"iOS", "eBay", "gRPC"} {
		low := strings.ToLower(capWord)
		for _, tail := range [][]string{nil, {"Lu"}, {"Ll+"}, {"Nd"}, {"P", "Ll+"}} {
			total++
			tail := tail
			runs, complete := absint.Explore(c.Prog, 16, nil, func(m *absint.Machine) any {
				caps := m.NewSliceOf(types.Typ[types.String], absint.Lit(capWord))
				caser := m.CallFunction(newCaser, []absint.Value{caps, m.Zero(typesStringSlice())}, nil)
				parts := []absint.Str{absint.Lit(low)}
				for _, cl := range tail {
					parts = append(parts, absint.HoleStr(m.NewRune(cl)))
				}
				return m.CallFunction(fn, []absint.Value{caser, absint.Cat(parts...)}, nil)
			})
			key := fmt.Sprintf("--capitalization %s on %q + %v", capWord, low, tail)
			if !complete {
				c.Undecided("A-IDENT", "(*internal/x/text.Caser).Identifierize", "fork budget: "+key, "", key)
			}
			for _, run := range runs {
				if run.Err != nil {
					c.Undecided("A-IDENT", "(*internal/x/text.Caser).Identifierize", "interpretation: "+run.Err.Kind+": "+run.Err.Msg, run.Err.Pos, key+": "+run.Err.Error())
					continue
				}
				res, _ := run.Out.(absint.Str)
				first := ""
				if len(res.P) > 0 {
					if res.P[0].Hole != nil {
						first = res.P[0].Hole.A.Facts["class"]
					} else if res.P[0].Lit != "" {
						first = litClass(rune(res.P[0].Lit[0]))
					}
				}
				if first != "Lu" {
					bad++
					construct := "first character of class " + first + " with a user capitalization that starts lower-case"
					if !seen[construct] {
						seen[construct] = true
						c.Fail("A-IDENT", "(*internal/x/text.Caser).Identifierize", construct, c.Prog.Pos(fn.Pos()),
							fmt.Sprintf("%s gives %s: the identifier is not exported, so no decoder binds the field", key, res.Debug()), nil)
					}
				}
			}
		}
	}
	c.Counts["A-IDENT:class_strings"] = total
	c.Counts["A-IDENT:bad"] = bad
	c.Obl("A-IDENT", "(*internal/x/text.Caser).Identifierize :: all class strings up to the bound", bad == 0, fmt.Sprintf("%d class strings, %d with a problem", total, bad))
	c.Sample(map[string]any{"rule": "A-IDENT", "class_strings": total, "classes": absint.RuneClasses})
	c.Floor("A-IDENT", total, 3000, "class strings")
}

func litClass(r rune) string {
	switch {
	case r >= 'A' && r <= 'Z':
		return "Lu"
	case r >= 'a' && r <= 'z':
		return "Ll+"
	case r >= '0' && r <= '9':
		return "Nd"
	case r == '_':
		return "_"
	}
	return "P"
}

// C14 — every name maps to a valid, distinct Go identifier bound to its JSON key.
func C14(c *core.Ctx) {
	c.Explanation = "A-IDENT: Caser.Identifierize (with its splitter state machine and Capitalize) is interpreted abstractly over EVERY string of rune classes up to a length bound (all 15 classes to length 3 and 8 " +
		"main classes at length 4 in the quick tier; all 15 to length 4, 8 to length 5, 5 to length 6 in the thorough tier). The classes are the atoms of the Boolean algebra of the unicode predicates " +
		"(IsLower/IsUpper/IsTitle/IsLetter/IsDigit/IsNumber/IsPunct/IsSymbol/IsSpace/IsMark/IsControl) refined by case-mapping behaviour and Go's identifier grammar; the code touches runes only through those " +
		"predicates and ToUpper, so the abstraction is exact and the enumeration exhaustive up to the bound. The result must be non-empty, start with an upper-case letter and contain only letters, decimal digits " +
		"and '_'. " + engineAText +
		"Collision families: sibling properties, and definitions referring to each other, are generated with string-equality forking switched ON, so every coincidence of synthesised identifiers (also with a " +
		"goJSONSchema.identifier override) is a world of its own; atoms a world equates share one placeholder, and the emitted file must still type-check (distinct field names, distinct type names) and bind " +
		"every field's tags to its own raw name (A-TAG), and no name may pass through a printf format position on its way there (A-EVENT:symbolic-format). Reserved names: schema names equal to identifiers the emitted code uses for itself (Plain, raw, value, AdditionalProperties) as titles, definitions and " +
		"properties, next to additionalProperties: the file type-checks, tags bind, and reflect.TypeOf(T{}) in the additional-properties block names the shadow type of the decoded value (A-SHADOW). Not decided: file-name derived root names beyond filepath.Base + extension trimming (C12)."
	c.Exhaustive = true
	skel.DepsDir = filepath.Join(c.VerifDir, "checker", "testdata", "emitdeps")
	ruleIdent(c)
	// A-EVENT:symbolic-format: a schema name that reaches a printf FORMAT position is rewritten wherever it contains a '%'
	// (the tag then no longer carries the property's name)
	rules := ruleSet("A-TYP", "A-TAG", "A-MAP", "A-EVENT")
	for _, mb := range collisionMembers() {
		runCollisionMember(c, mb, rules, 4096)
	}
	// names the emitted code uses for itself (the shadow type Plain, the raw map, the value parameter, the collector field) met as schema
	// names: the file still type-checks, every key is bound to its own field, and the keys that count as additional are enumerated from
	// the shadow type of the decoded value (A-SHADOW)
	for _, mb := range reservedNameMembers(gen.DefaultConfig()) {
		runMember(c, mb, ruleSet("A-TYP", "A-TAG", "A-SHADOW", "A-COLLECT"), 64, func(w *fam.World, fm *fam.FileModel) []fam.Issue {
			var keep []fam.Issue
			keep = append(keep, w.TypIssues(c.Prog.Repo)...)
			for _, is := range fam.MethodIssues(fm) {
				if is.Rule == "A-SHADOW" || is.Rule == "A-COLLECT" {
					keep = append(keep, is)
				}
			}
			for _, is := range checkRoot(w, fm) {
				if is.Rule == "A-TAG" {
					keep = append(keep, is)
				}
			}
			return keep
		})
	}
	// root type names come from the file name / title / mapping, never from state keyed by something else: two files of one run get two root types
	ruleMultiSel(c, ruleSet("A-ROUTE", "A-TYP", "A-MAP", "A-ORDER"), 3, "two files with the same $id", "two files with the same base name")
}

// collisionMembers: families generated with identifier-coincidence forking.
func collisionMembers() []member {
	cfg := gen.DefaultConfig()
	str := func() *fam.Spec { return &fam.Spec{Kind: "string"} }
	var ms []member
	ms = append(ms, member{name: "three sibling properties", cfg: cfg, root: &fam.Spec{Kind: "object", Props: []*fam.Prop{{Label: "a", Spec: str(), Required: true}, {Label: "b", Spec: str()}, {Label: "c", Spec: &fam.Spec{Kind: "integer"}}}}})
	ms = append(ms, member{name: "sibling with goJSONSchema.identifier", cfg: cfg, root: &fam.Spec{Kind: "object", Props: []*fam.Prop{{Label: "a", Spec: str(), ExtIdent: true}, {Label: "b", Spec: str()}}}})
	ms = append(ms, member{name: "two overrides and a plain sibling", cfg: cfg, root: &fam.Spec{Kind: "object", Props: []*fam.Prop{{Label: "a", Spec: str(), ExtIdent: true}, {Label: "b", Spec: str(), ExtIdent: true}, {Label: "c", Spec: str()}}}})
	obj := func(ref string, ps ...*fam.Prop) *fam.Spec { return &fam.Spec{Kind: "object", Props: ps, Ref: ref} }
	ms = append(ms, member{name: "two object definitions", cfg: cfg, root: &fam.Spec{Kind: "object", Props: []*fam.Prop{
		{Label: "x", Spec: obj("$defs", &fam.Prop{Label: "u", Spec: str()})}, {Label: "y", Spec: obj("$defs", &fam.Prop{Label: "v", Spec: &fam.Spec{Kind: "integer"}})}}}})
	ms = append(ms, member{name: "three object definitions, the second referring to the third", cfg: cfg, root: &fam.Spec{Kind: "object", Props: []*fam.Prop{
		{Label: "x", Spec: obj("$defs", &fam.Prop{Label: "u", Spec: str()})},
		{Label: "y", Spec: obj("$defs", &fam.Prop{Label: "v", Spec: &fam.Spec{Kind: "integer"}}, &fam.Prop{Label: "inner", Spec: obj("$defs", &fam.Prop{Label: "w", Spec: &fam.Spec{Kind: "boolean"}})})}}}})
	ms = append(ms, member{name: "three object definitions chained by references", cfg: cfg, root: &fam.Spec{Kind: "object", Props: []*fam.Prop{
		{Label: "x", Spec: obj("$defs", &fam.Prop{Label: "u", Spec: str()},
			&fam.Prop{Label: "next", Spec: obj("$defs", &fam.Prop{Label: "v", Spec: &fam.Spec{Kind: "integer"}},
				&fam.Prop{Label: "next2", Spec: obj("$defs", &fam.Prop{Label: "w", Spec: &fam.Spec{Kind: "boolean"}})})})}}}})
	// coincidences the generator is not forced to ask about: two overrides that are the same identifier, and an override equal to a sibling's synthesised identifier
	ms = append(ms, member{name: "two properties overridden to the same identifier", cfg: cfg, root: &fam.Spec{Kind: "object", Props: []*fam.Prop{{Label: "a", Spec: str(), ExtIdent: true}, {Label: "b", Spec: str(), ExtIdent: true, ExtSame: "a"}, {Label: "c", Spec: str()}}}})
	ms = append(ms, member{name: "override equal to an earlier sibling's identifier", cfg: cfg, root: &fam.Spec{Kind: "object", Props: []*fam.Prop{{Label: "a", Spec: str()}, {Label: "b", Spec: &fam.Spec{Kind: "integer"}, ExtIdent: true, ExtIsIdentOf: "a"}}}})
	ms = append(ms, member{name: "override equal to a later sibling's identifier", cfg: cfg, root: &fam.Spec{Kind: "object", Props: []*fam.Prop{{Label: "z", Spec: str()}, {Label: "a", Spec: &fam.Spec{Kind: "integer"}, ExtIdent: true, ExtIsIdentOf: "z"}}}})
	// a titled root (type names from titles) next to a definition: when both names normalise to one identifier the root type must still be emitted
	{
		tcfg := cfg
		tcfg.StructNameFromTitle = true
		ms = append(ms, member{name: "titled root and an object definition (struct names from titles)", cfg: tcfg, root: &fam.Spec{Kind: "object", Title: true, Props: []*fam.Prop{
			{Label: "own", Spec: str(), Required: true}, {Label: "x", Spec: obj("$defs", &fam.Prop{Label: "u", Spec: &fam.Spec{Kind: "integer"}})}}}})
	}
	// the same shapes with the definitions visited in declaration order and outermost first (the sort order of the names decides which one the generator meets first)
	for _, mb := range append([]member{}, ms...) {
		if strings.Contains(mb.name, "definitions") {
			r := mb.root.Clone()
			r.DefsOuterFirst = true
			ms = append(ms, member{name: mb.name + " (outer definitions first)", cfg: mb.cfg, root: r})
			r2 := mb.root.Clone()
			r2.DefsPreOrder = true
			ms = append(ms, member{name: mb.name + " (definitions in declaration order)", cfg: mb.cfg, root: r2})
		}
	}
	return ms
}

func runCollisionMember(c *core.Ctx, mb member, rules map[string]bool, budget int) {
	worlds, complete := fam.RunWith(c.Prog, mb.cfg, mb.root, budget, nil, fam.RunOpt{ForkStringEquality: true})
	key := "collisions: " + mb.name
	if !complete {
		c.Undecided("A-UNDECIDED", "(families)", "fork budget for "+key, "", fmt.Sprintf("more than %d worlds", budget))
	}
	c.Counts["collision_worlds"] += len(worlds)
	c.Counts["members"]++
	for _, w := range worlds {
		var issues []fam.Issue
		issues = append(issues, w.RunIssues()...)
		issues = append(issues, w.SynIssues()...)
		if w.Err == nil && w.GenErr == "" {
			issues = append(issues, w.TypIssues(c.Prog.Repo)...)
			if fm := w.Models["out.go"]; fm != nil {
				for _, is := range w.CheckObject(fm, w.Spec, "", "root") {
					if is.Rule == "A-TAG" || (is.Rule == "A-MAP" && strings.Contains(is.Construct, "object without struct")) {
						issues = append(issues, is)
					}
				}
			}
		}
		// a world that already shows the known duplicate-declaration defect cannot be judged on tag binding:
		// the second declaration shadows the first, so the missing field is a consequence
		dupKnown := false
		for _, is := range issues {
			if is.Rule == "A-TYP" && c.IsKnown(is.Rule, "(emitted code)", is.Construct) {
				dupKnown = true
			}
		}
		if dupKnown {
			var keep []fam.Issue
			for _, is := range issues {
				if is.Rule != "A-TAG" {
					keep = append(keep, is)
				}
			}
			issues = keep
		}
		bad := 0
		eq := 0
		for k, v := range w.Facts {
			if strings.HasPrefix(k, "streq:") && v == 1 {
				eq++
			}
		}
		for _, is := range issues {
			base := is.Rule
			if i := strings.IndexByte(base, ':'); i >= 0 {
				base = base[:i]
			}
			if !(rules[is.Rule] || rules[base] || is.Rule == "A-UNDECIDED" || is.Rule == "A-SYN" || is.Rule == "A-PANIC") {
				continue
			}
			if c.IsKnown(is.Rule, "(emitted code)", is.Construct) {
				c.Report(core.Finding{Rule: is.Rule, Func: "(emitted code)", Construct: is.Construct, Msg: is.Msg})
				continue
			}
			bad++
			kind := "violation"
			if is.Rule == "A-UNDECIDED" {
				kind = "undecided"
			}
			c.Report(core.Finding{Rule: is.Rule, Func: "(emitted code)", Construct: is.Construct, Kind: kind,
				Msg: is.Msg + fmt.Sprintf("  [first seen on: %s, a world with %d coinciding name pair(s), script %v]", key, eq, w.Script)})
		}
		c.Obl("collision-world", fmt.Sprintf("%s world%v", key, w.Script), bad == 0, fmt.Sprintf("%d coinciding pair(s), %d issue(s)", eq, bad))
	}
}
