package props

import (
	"fmt"

	"verif/checker/internal/absint"
	"verif/checker/internal/core"
	"verif/checker/internal/gen"
)

// ruleImportSet (A-IMPORTSET): codegen.Package.AddImport is interpreted abstractly on a fresh Package for every pair of
// registrations (same path / different path) x (same alias / different aliases, one of them empty): a Go file may import a
// path only once per name it binds — the generator registers one path from independent places under different aliases
// (formatters: "yaml"; goJSONSchema.imports and validators: ""), so the list must stay unique BY PATH. The number of
// entries after the two calls must be 1 for equal paths and 2 for different ones.
func ruleImportSet(c *core.Ctx) {
	type outT struct{ n int }
	cases := []struct {
		name           string
		samePath       bool
		alias1, alias2 string
		want           int
	}{
		{"same path, aliases \"yaml\" then \"\"", true, "yaml", "", 1},
		{"same path, aliases \"\" then \"yaml\"", true, "", "yaml", 1},
		{"same path, same alias", true, "", "", 1},
		{"different paths, same alias", false, "", "", 2},
		{"different paths, different aliases", false, "a", "b", 2},
	}
	for _, cs := range cases {
		runs, complete := absint.Explore(c.Prog, 64, func(m *absint.Machine) { gen.InstallStubs(m) }, func(m *absint.Machine) any {
			g := gen.New(m)
			pkg := g.Obj("pkg/codegen", "Package", map[string]gen.V{})
			p1 := g.Raw("import path 1", true)
			p2 := p1
			if !cs.samePath {
				p2 = g.Raw("import path 2", true)
			}
			g.Method("pkg/codegen", "Package", "AddImport", pkg, p1, absint.Lit(cs.alias1))
			g.Method("pkg/codegen", "Package", "AddImport", pkg, p2, absint.Lit(cs.alias2))
			imports := m.FieldOf(g.Type("pkg/codegen", "Package"), *pkg.(absint.Ptr).P, "Imports")
			n := -1
			if sl, ok := imports.(absint.Slice); ok {
				n = sl.Len()
			}
			return &outT{n}
		})
		key := "AddImport twice: " + cs.name
		noteRuns(c, runs)
		if !complete {
			c.Undecided("A-IMPORTSET", "(*pkg/codegen.Package).AddImport", key, "", "fork budget")
			continue
		}
		for _, r := range runs {
			if r.Err != nil {
				c.Undecided("A-IMPORTSET", "(*pkg/codegen.Package).AddImport", key, r.Err.Pos, r.Err.Error())
				continue
			}
			o := r.Out.(*outT)
			want := cs.want // two different symbolic paths are different strings (string-equality forking is off)
			if o.n == want {
				c.Pass("A-IMPORTSET", "(*pkg/codegen.Package).AddImport", fmt.Sprintf("%s world%v", key, r.Script), fmt.Sprintf("%d import(s) registered", o.n))
			} else {
				c.Fail("A-IMPORTSET", "(*pkg/codegen.Package).AddImport", key, "", fmt.Sprintf("after registering %s the package lists %d import(s), expected %d: the same path would be imported twice (\"yaml redeclared\") or a needed import dropped", cs.name, o.n, want), nil)
			}
		}
	}
}

// ruleDeclSet (A-DECLSET): (*codegen.Package).AddDecl interpreted on pairs of declarations. The generator allocates the alias of a
// referenced anyOf branch (`type X_0 = Foo`) afresh on every visit of the branch and records it nowhere else, so AddDecl is the only
// place that keeps a second, EQUAL alias out of the file ("X_0 redeclared in this block"): two distinct objects with the same
// content must be one declaration, two different aliases two.
func ruleDeclSet(c *core.Ctx) {
	type outT struct{ n int }
	cases := []struct {
		name       string
		sameAlias  bool
		sameObject bool
		want       int
	}{
		{"two equal aliases (distinct objects)", true, false, 1},
		{"the same alias object twice", true, true, 1},
		{"two different aliases", false, false, 2},
	}
	for _, cs := range cases {
		runs, complete := absint.Explore(c.Prog, 64, func(m *absint.Machine) { gen.InstallStubs(m) }, func(m *absint.Machine) any {
			g := gen.New(m)
			pkg := g.Obj("pkg/codegen", "Package", map[string]gen.V{})
			target := g.Raw("name of the aliased type", true)
			mk := func(alias string) gen.V {
				return g.PtrIface("pkg/codegen", "AliasType", g.Obj("pkg/codegen", "AliasType", map[string]gen.V{"Alias": absint.Lit(alias), "Name": target}))
			}
			d1 := mk("Branch_0")
			d2 := d1
			if !cs.sameObject {
				if cs.sameAlias {
					d2 = mk("Branch_0")
				} else {
					d2 = mk("Branch_1")
				}
			}
			g.Method("pkg/codegen", "Package", "AddDecl", pkg, d1)
			g.Method("pkg/codegen", "Package", "AddDecl", pkg, d2)
			decls := m.FieldOf(g.Type("pkg/codegen", "Package"), *pkg.(absint.Ptr).P, "Decls")
			n := -1
			if sl, ok := decls.(absint.Slice); ok {
				n = sl.Len()
			}
			return &outT{n}
		})
		key := "AddDecl twice: " + cs.name
		noteRuns(c, runs)
		if !complete {
			c.Undecided("A-DECLSET", "(*pkg/codegen.Package).AddDecl", key, "", "fork budget")
			continue
		}
		for _, r := range runs {
			if r.Err != nil {
				c.Undecided("A-DECLSET", "(*pkg/codegen.Package).AddDecl", key, r.Err.Pos, r.Err.Error())
				continue
			}
			o := r.Out.(*outT)
			if o.n == cs.want {
				c.Pass("A-DECLSET", "(*pkg/codegen.Package).AddDecl", fmt.Sprintf("%s world%v", key, r.Script), fmt.Sprintf("%d declaration(s) registered", o.n))
			} else {
				c.Fail("A-DECLSET", "(*pkg/codegen.Package).AddDecl", key, "", fmt.Sprintf("after adding %s the package holds %d declaration(s), expected %d: an alias that the generator builds anew on every visit of a referenced anyOf branch would be emitted twice (\"redeclared in this block\"), or a needed declaration dropped", cs.name, o.n, cs.want), nil)
			}
		}
	}
}
