package props

import (
	"fmt"
	"go/types"
	"math"
	"strings"

	"verif/checker/internal/absint"
	"verif/checker/internal/core"
)

type intType struct {
	name     string
	min, max float64
	signed   bool
	width    int
}

var intTypes = []intType{
	{"int8", -128, 127, true, 8}, {"int16", -32768, 32767, true, 16}, {"int32", math.MinInt32, math.MaxInt32, true, 32}, {"int64", math.MinInt64, math.MaxInt64, true, 64},
	{"uint8", 0, 255, false, 8}, {"uint16", 0, 65535, false, 16}, {"uint32", 0, math.MaxUint32, false, 32}, {"uint64", 0, math.MaxUint64, false, 64},
}

func typeByName(n string) *intType {
	for i := range intTypes {
		if intTypes[i].name == n {
			return &intTypes[i]
		}
	}
	return nil
}

// ruleSizedTable interprets codegen.getMinIntType over the region domain: each
// bound is a symbolic integer; every comparison with a constant splits the
// world, so the worlds are exactly the cells of the partition of the line by
// the constants the function mentions. In each world the chosen type must hold
// the whole cell of each present bound, be the widest of its signedness for an
// absent bound, be the narrowest that fits, be unsigned iff the lower bound is
// known non-negative, and a removal flag may be set only when the cell is the
// single point equal to the type's own limit.
func ruleSizedTable(c *core.Ctx) {
	fn, err := c.Prog.MustFunc("pkg/codegen.getMinIntType")
	if err != nil {
		c.Undecided("B-SIZED", "pkg/codegen.getMinIntType", "anchor", "", err.Error())
		return
	}
	worlds := 0
	// forms of one side: absent; inclusive bound (integral / fractional); numeric exclusive bound alone (integral / fractional)
	forms := []string{"absent", "int", "frac", "xint", "xfrac"}
	type side struct {
		a    *absint.Atom
		iv   [2]float64
		op   [2]bool
		form string
	}
	// adm is the range, over the cell, of the least (lower side) / greatest (upper side) integer the bound admits
	adm := func(sd *side, lower bool) (float64, float64, bool) {
		lo, hi := sd.iv[0], sd.iv[1]
		isInt := func(x float64) bool { return x == math.Floor(x) }
		switch sd.form {
		case "int", "xint":
			l, h := cellLow(sd.iv, sd.op), cellHigh(sd.iv, sd.op)
			if !isInt(lo) && !math.IsInf(lo, 0) {
				l = math.Ceil(lo)
			}
			if !isInt(hi) && !math.IsInf(hi, 0) {
				h = math.Floor(hi)
			}
			if sd.form == "xint" {
				if lower {
					l, h = l+1, h+1
				} else {
					l, h = l-1, h-1
				}
			}
			return l, h, l <= h
		}
		// fractional: x is not an integer, so `v >= x`, `v > x` both mean v >= ceil(x); `v <= x`, `v < x` both mean v <= floor(x)
		if lo == hi && isInt(lo) {
			return 0, 0, false
		}
		var l, h float64
		if lower {
			l, h = math.Ceil(lo), math.Ceil(hi)
			if isInt(lo) {
				l = lo + 1
			}
		} else {
			l, h = math.Floor(lo), math.Floor(hi)
			if isInt(hi) {
				h = hi - 1
			}
		}
		return l, h, l <= h
	}
	for _, fMin := range forms {
		for _, fMax := range forms {
			hasMin, hasMax := fMin != "absent", fMax != "absent"
			if c.Tier != "thorough" && fMin[0] == 'x' && fMax[0] == 'x' && fMin != fMax {
				continue
			}
			type outT struct {
				res      absint.Tuple
				min, max side
			}
			runs, complete := absint.Explore(c.Prog, 60000, nil, func(m *absint.Machine) any {
				o := &outT{}
				o.min.form, o.max.form = fMin, fMax
				// returns (inclusive pointer, exclusive pointer, atom)
				mk := func(form, incl, excl string) (absint.Value, absint.Value, *absint.Atom) {
					if form == "absent" {
						return absint.Ptr{}, absint.Ptr{}, nil
					}
					name := incl
					if form[0] == 'x' {
						name = excl
					}
					a := m.NewAtom("Float", name)
					a.Facts["integral"] = "yes"
					if strings.HasSuffix(form, "frac") {
						a.Facts["integral"] = "no"
					}
					n := absint.Num{A: a, IsFloat: true}
					if form[0] == 'x' {
						return absint.Ptr{}, m.NewPtr(absint.Iface{T: types.Typ[types.Float64], V: n}, name), a
					}
					return m.NewPtr(n, name), absint.Ptr{}, a
				}
				var pMin, pMax, xMin, xMax absint.Value
				pMin, xMin, o.min.a = mk(fMin, "minimum", "exclusiveMinimum")
				pMax, xMax, o.max.a = mk(fMax, "maximum", "exclusiveMaximum")
				r := m.CallFunction(fn, []absint.Value{pMin, pMax, xMin, xMax}, nil)
				o.res = r.(absint.Tuple)
				for _, sd := range []*side{&o.min, &o.max} {
					if sd.a != nil {
						lo, hi, lop, hop := m.Interval(sd.a)
						sd.iv, sd.op = [2]float64{lo, hi}, [2]bool{lop, hop}
					}
				}
				return o
			})
			if !complete {
				c.Undecided("B-SIZED", "pkg/codegen.getMinIntType", fmt.Sprintf("min=%v max=%v", fMin, fMax), "", "fork budget exceeded")
				continue
			}
			for _, run := range runs {
				if run.Err != nil {
					c.Fail("B-SIZED", "pkg/codegen.getMinIntType", "interpretation: "+run.Err.Msg, run.Err.Pos, "getMinIntType "+run.Err.Error(), nil)
					continue
				}
				o := run.Out.(*outT)
				var minLo, minHi, maxLo, maxHi float64
				ok1, ok2 := true, true
				if hasMin {
					minLo, minHi, ok1 = adm(&o.min, true)
				}
				if hasMax {
					maxLo, maxHi, ok2 = adm(&o.max, false)
				}
				if !ok1 || !ok2 {
					c.Counts["B-SIZED:cells_without_a_value_of_the_stated_kind"]++
					continue
				}
				// skip infeasible cells: nothing admitted
				if hasMin && hasMax && minLo > maxHi {
					continue
				}
				// bounds beyond the 64-bit limits admit values no Go integer type holds, with or without the flag: not part of the claim
				if hasMin && (math.IsInf(minLo, 0) || minLo < math.MinInt64) || hasMax && (math.IsInf(maxHi, 0) || maxHi > math.MaxUint64) {
					c.Counts["B-SIZED:cells_beyond_64_bits_skipped"]++
					continue
				}
				worlds++
				tn, _ := o.res[0].(absint.Str).Concrete()
				rmMin, _ := o.res[1].(bool)
				rmMax, _ := o.res[2].(bool)
				T := typeByName(tn)
				cs := func(sd *side) string {
					if sd.a == nil {
						return "absent"
					}
					return sd.form + " " + cellStr(true, sd.iv, sd.op)
				}
				desc := fmt.Sprintf("lower bound %s, upper bound %s -> %s removeMin=%v removeMax=%v", cs(&o.min), cs(&o.max), tn, rmMin, rmMax)
				key := "cell " + cs(&o.min) + " / " + cs(&o.max)
				if T == nil {
					c.Fail("B-SIZED", "pkg/codegen.getMinIntType", "unknown type name "+tn, "", desc, nil)
					continue
				}
				var problems []string
				if hasMin {
					if minLo < T.min {
						problems = append(problems, fmt.Sprintf("the smallest admitted integer can be %v in this cell but %s starts at %v: valid values below the type's range cannot be decoded", minLo, tn, T.min))
					}
				} else if T.signed && T.width != 64 || !T.signed {
					problems = append(problems, "no lower bound is stated, so every negative integer is valid, but the chosen type is "+tn+" (must be int64)")
				}
				if hasMax {
					if maxHi > T.max {
						problems = append(problems, fmt.Sprintf("the largest admitted integer can be %v in this cell but %s ends at %v: valid values above the type's range cannot be decoded", maxHi, tn, T.max))
					}
				} else if T.width != 64 {
					problems = append(problems, "no upper bound is stated, so arbitrarily large integers are valid, but the chosen type is "+tn+" (must be 64 bits wide)")
				}
				// signedness
				wantUnsigned := hasMin && minLo >= 0
				if wantUnsigned != !T.signed && len(problems) == 0 && !(hasMin && minHi >= 0 && minLo < 0) {
					problems = append(problems, fmt.Sprintf("smallest admitted integer known non-negative=%v but the chosen type %s is signed=%v (not the narrowest signed-or-unsigned type)", wantUnsigned, tn, T.signed))
				}
				// narrowest: the next narrower type of the same signedness must not fit
				if len(problems) == 0 && hasMin && hasMax {
					for i := range intTypes {
						N := &intTypes[i]
						if N.signed == T.signed && N.width == T.width/2 {
							if minHi >= N.min && maxLo <= N.max && minLo >= N.min && maxHi <= N.max {
								problems = append(problems, fmt.Sprintf("the narrower type %s already holds every admitted value, yet %s was chosen", N.name, tn))
							}
						}
					}
				}
				// removal flags
				if rmMin && hasMin && !(minLo == T.min && minHi == T.min) {
					problems = append(problems, fmt.Sprintf("the lower-bound check is dropped although the smallest admitted integer (%v..%v over the cell) is not known to equal the type's lower limit %v: with the flag smaller values are accepted", minLo, minHi, T.min))
				}
				if rmMax && hasMax && !(maxLo == T.max && maxHi == T.max) {
					problems = append(problems, fmt.Sprintf("the upper-bound check is dropped although the largest admitted integer (%v..%v over the cell) is not known to equal the type's upper limit %v: with the flag larger values are accepted", maxLo, maxHi, T.max))
				}
				if len(problems) == 0 {
					c.Pass("B-SIZED", "pkg/codegen.getMinIntType", key, desc)
					if worlds%97 == 1 {
						c.Sample(map[string]any{"rule": "B-SIZED", "world": desc})
					}
				} else {
					for _, p := range problems {
						c.Fail("B-SIZED", "pkg/codegen.getMinIntType", key, c.Prog.Pos(fn.Pos()), p+"  ["+desc+"]", nil)
					}
				}
			}
		}
	}
	c.Counts["B-SIZED:worlds"] = worlds
	c.Floor("B-SIZED", worlds, 40, "cells of the sized-int table")
}

// integer ends of a cell (lo/hi with open flags) — cells are bounded by integer constants
func cellLow(iv [2]float64, open [2]bool) float64 {
	if math.IsInf(iv[0], -1) {
		return math.Inf(-1)
	}
	if open[0] {
		return iv[0] + 1
	}
	return iv[0]
}

func cellHigh(iv [2]float64, open [2]bool) float64 {
	if math.IsInf(iv[1], 1) {
		return math.Inf(1)
	}
	if open[1] {
		return iv[1] - 1
	}
	return iv[1]
}

func cellStr(present bool, iv [2]float64, open [2]bool) string {
	if !present {
		return "absent"
	}
	l, r := "[", "]"
	if open[0] {
		l = "("
	}
	if open[1] {
		r = ")"
	}
	return fmt.Sprintf("%s%v,%v%s", l, iv[0], iv[1], r)
}
