package props

import (
	"fmt"
	"math"

	"verif/checker/internal/absint"
	"verif/checker/internal/core"
)

type intType struct {
	name     string
	min, max float64
	signed   bool
	width    int
}

var intTypes = []intType{
	{"int8", -128, 127, true, 8}, {"int16", -32768, 32767, true, 16}, {"int32", math.MinInt32, math.MaxInt32, true, 32}, {"int64", math.MinInt64, math.MaxInt64, true, 64},
	{"uint8", 0, 255, false, 8}, {"uint16", 0, 65535, false, 16}, {"uint32", 0, math.MaxUint32, false, 32}, {"uint64", 0, math.MaxUint64, false, 64},
}

func typeByName(n string) *intType {
	for i := range intTypes {
		if intTypes[i].name == n {
			return &intTypes[i]
		}
	}
	return nil
}

// ruleSizedTable interprets codegen.getMinIntType over the region domain: each
// bound is a symbolic integer; every comparison with a constant splits the
// world, so the worlds are exactly the cells of the partition of the line by
// the constants the function mentions. In each world the chosen type must hold
// the whole cell of each present bound, be the widest of its signedness for an
// absent bound, be the narrowest that fits, be unsigned iff the lower bound is
// known non-negative, and a removal flag may be set only when the cell is the
// single point equal to the type's own limit.
func ruleSizedTable(c *core.Ctx) {
	fn, err := c.Prog.MustFunc("pkg/codegen.getMinIntType")
	if err != nil {
		c.Undecided("B-SIZED", "pkg/codegen.getMinIntType", "anchor", "", err.Error())
		return
	}
	worlds := 0
	for _, hasMin := range []bool{false, true} {
		for _, hasMax := range []bool{false, true} {
			type outT struct {
				res        absint.Tuple
				aMin, aMax *absint.Atom
				ivMin      [2]float64
				ivMax      [2]float64
				opMin      [2]bool
				opMax      [2]bool
			}
			runs, complete := absint.Explore(c.Prog, 20000, nil, func(m *absint.Machine) any {
				o := &outT{}
				mk := func(present bool, name string) (absint.Value, *absint.Atom) {
					if !present {
						return absint.Ptr{}, nil
					}
					a := m.NewAtom("Float", name)
					a.Facts["integral"] = "yes"
					return m.NewPtr(absint.Num{A: a, IsFloat: true}, name), a
				}
				var pMin, pMax absint.Value
				pMin, o.aMin = mk(hasMin, "minimum")
				pMax, o.aMax = mk(hasMax, "maximum")
				r := m.CallFunction(fn, []absint.Value{pMin, pMax, absint.Ptr{}, absint.Ptr{}}, nil)
				o.res = r.(absint.Tuple)
				if o.aMin != nil {
					lo, hi, lop, hop := m.Interval(o.aMin)
					o.ivMin, o.opMin = [2]float64{lo, hi}, [2]bool{lop, hop}
				}
				if o.aMax != nil {
					lo, hi, lop, hop := m.Interval(o.aMax)
					o.ivMax, o.opMax = [2]float64{lo, hi}, [2]bool{lop, hop}
				}
				return o
			})
			if !complete {
				c.Undecided("B-SIZED", "pkg/codegen.getMinIntType", fmt.Sprintf("min=%v max=%v", hasMin, hasMax), "", "fork budget exceeded")
				continue
			}
			for _, run := range runs {
				if run.Err != nil {
					c.Fail("B-SIZED", "pkg/codegen.getMinIntType", "interpretation: "+run.Err.Msg, run.Err.Pos, "getMinIntType "+run.Err.Error(), nil)
					continue
				}
				o := run.Out.(*outT)
				// skip infeasible cells: minimum above maximum
				if o.aMin != nil && o.aMax != nil && cellLow(o.ivMin, o.opMin) > cellHigh(o.ivMax, o.opMax) {
					continue
				}
				// bounds beyond the 64-bit limits admit values no Go integer type holds, with or without the flag: not part of the claim
				if o.aMin != nil && math.IsInf(cellLow(o.ivMin, o.opMin), -1) || o.aMax != nil && math.IsInf(cellHigh(o.ivMax, o.opMax), 1) {
					c.Counts["B-SIZED:cells_beyond_64_bits_skipped"]++
					continue
				}
				worlds++
				tn, _ := o.res[0].(absint.Str).Concrete()
				rmMin, _ := o.res[1].(bool)
				rmMax, _ := o.res[2].(bool)
				T := typeByName(tn)
				desc := fmt.Sprintf("minimum in %s, maximum in %s -> %s removeMin=%v removeMax=%v", cellStr(hasMin, o.ivMin, o.opMin), cellStr(hasMax, o.ivMax, o.opMax), tn, rmMin, rmMax)
				key := "cell " + cellStr(hasMin, o.ivMin, o.opMin) + " / " + cellStr(hasMax, o.ivMax, o.opMax)
				if T == nil {
					c.Fail("B-SIZED", "pkg/codegen.getMinIntType", "unknown type name "+tn, "", desc, nil)
					continue
				}
				var problems []string
				// representable integers of the cells
				minLo, minHi := cellLow(o.ivMin, o.opMin), cellHigh(o.ivMin, o.opMin)
				maxLo, maxHi := cellLow(o.ivMax, o.opMax), cellHigh(o.ivMax, o.opMax)
				if hasMin {
					if minLo < T.min {
						problems = append(problems, fmt.Sprintf("a minimum of %v is possible in this cell but %s starts at %v: valid values below the type's range cannot be decoded", minLo, tn, T.min))
					}
				} else if T.signed && T.width != 64 || !T.signed {
					problems = append(problems, "no lower bound is stated, so every negative integer is valid, but the chosen type is "+tn+" (must be int64)")
				}
				if hasMax {
					if maxHi > T.max {
						problems = append(problems, fmt.Sprintf("a maximum of %v is possible in this cell but %s ends at %v: valid values above the type's range cannot be decoded", maxHi, tn, T.max))
					}
				} else if T.width != 64 {
					problems = append(problems, "no upper bound is stated, so arbitrarily large integers are valid, but the chosen type is "+tn+" (must be 64 bits wide)")
				}
				// signedness
				wantUnsigned := hasMin && minLo >= 0
				if wantUnsigned != !T.signed && len(problems) == 0 {
					problems = append(problems, fmt.Sprintf("lower bound known non-negative=%v but the chosen type %s is signed=%v (not the narrowest signed-or-unsigned type)", wantUnsigned, tn, T.signed))
				}
				// narrowest: the next narrower type of the same signedness must not fit
				if len(problems) == 0 && hasMin && hasMax {
					for i := range intTypes {
						N := &intTypes[i]
						if N.signed == T.signed && N.width == T.width/2 {
							if minHi >= N.min && maxLo <= N.max && minLo >= N.min && maxHi <= N.max {
								problems = append(problems, fmt.Sprintf("the narrower type %s already holds every admitted value, yet %s was chosen", N.name, tn))
							}
						}
					}
				}
				// removal flags
				if rmMin && hasMin && !(minLo == T.min && minHi == T.min) {
					problems = append(problems, fmt.Sprintf("the minimum check is dropped although the minimum (cell %s) is not known to equal the type's lower limit %v", cellStr(true, o.ivMin, o.opMin), T.min))
				}
				if rmMax && hasMax && !(maxLo == T.max && maxHi == T.max) {
					problems = append(problems, fmt.Sprintf("the maximum check is dropped although the maximum (cell %s) is not known to equal the type's upper limit %v", cellStr(true, o.ivMax, o.opMax), T.max))
				}
				if len(problems) == 0 {
					c.Pass("B-SIZED", "pkg/codegen.getMinIntType", key, desc)
					if worlds%23 == 1 {
						c.Sample(map[string]any{"rule": "B-SIZED", "world": desc})
					}
				} else {
					for _, p := range problems {
						c.Fail("B-SIZED", "pkg/codegen.getMinIntType", key, c.Prog.Pos(fn.Pos()), p+"  ["+desc+"]", nil)
					}
				}
			}
		}
	}
	c.Counts["B-SIZED:worlds"] = worlds
	c.Floor("B-SIZED", worlds, 40, "cells of the sized-int table")
}

// integer ends of a cell (lo/hi with open flags) — cells are bounded by integer constants
func cellLow(iv [2]float64, open [2]bool) float64 {
	if math.IsInf(iv[0], -1) {
		return math.Inf(-1)
	}
	if open[0] {
		return iv[0] + 1
	}
	return iv[0]
}

func cellHigh(iv [2]float64, open [2]bool) float64 {
	if math.IsInf(iv[1], 1) {
		return math.Inf(1)
	}
	if open[1] {
		return iv[1] - 1
	}
	return iv[1]
}

func cellStr(present bool, iv [2]float64, open [2]bool) string {
	if !present {
		return "absent"
	}
	l, r := "[", "]"
	if open[0] {
		l = "("
	}
	if open[1] {
		r = ")"
	}
	return fmt.Sprintf("%s%v,%v%s", l, iv[0], iv[1], r)
}
