package props

import (
	"fmt"

	"verif/checker/internal/absint"
	"verif/checker/internal/core"
	"verif/checker/internal/gen"
)

// ruleRuntimeTypesTotal (A-TOTAL): generated unmarshalers hand format values to the decoders of pkg/types, so those are part of
// "never panics". encoding/json calls an UnmarshalJSON method only with one complete, valid JSON value; the methods are
// interpreted abstractly on the classes of such values: a JSON string "X" with X symbolic and POSSIBLY EMPTY, and the tokens
// null, true, 0, {} and []. Every world must end in a return (nil or an error) — an interpreted index or slice panic is a
// violation.
func ruleRuntimeTypesTotal(c *core.Ctx) {
	n := 0
	for _, tn := range []string{"SerializableTime", "SerializableDate"} {
		fn := "(*pkg/types." + tn + ").UnmarshalJSON"
		docs := []struct {
			name string
			mk   func(g *gen.G) absint.Bytes
		}{
			{`a JSON string "X" (X any text, possibly empty)`, func(g *gen.G) absint.Bytes {
				return absint.Bytes{S: absint.Cat(absint.Lit("\""), g.Raw("text of the JSON string", false), absint.Lit("\""))}
			}},
			{"null", func(g *gen.G) absint.Bytes { return absint.JSONLit("null") }},
			{"true", func(g *gen.G) absint.Bytes { return absint.JSONLit("true") }},
			{"0", func(g *gen.G) absint.Bytes { return absint.JSONLit("0") }},
			{"{}", func(g *gen.G) absint.Bytes { return absint.JSONLit("{}") }},
			{"[]", func(g *gen.G) absint.Bytes { return absint.JSONLit("[]") }},
			// called directly (the property speaks of every byte sequence): inputs that are no complete JSON value
			{"the single byte \" (direct call)", func(g *gen.G) absint.Bytes { return absint.JSONLit("\"") }},
			{"the empty input (direct call)", func(g *gen.G) absint.Bytes { return absint.JSONLit("") }},
		}
		for _, d := range docs {
			n++
			key := "total on " + d.name
			runs, complete := absint.Explore(c.Prog, 64, func(m *absint.Machine) { gen.InstallStubs(m) }, func(m *absint.Machine) any {
				g := gen.New(m)
				T := g.Type("pkg/types", tn)
				target := m.NewPtr(m.Zero(T), "decode target")
				g.Method("pkg/types", tn, "UnmarshalJSON", target, d.mk(g))
				return true
			})
			noteRuns(c, runs)
			if !complete {
				c.Undecided("A-TOTAL", fn, key, "", "fork budget")
				continue
			}
			bad := false
			for _, r := range runs {
				if r.Err != nil && r.Err.Kind == "panic" {
					bad = true
					c.Fail("A-TOTAL", fn, key, r.Err.Pos, fmt.Sprintf("the method panics on %s: %s (reached through any generated type with a field of this format)", d.name, r.Err.Msg), nil)
					break
				}
			}
			for _, r := range runs {
				if !bad && r.Err != nil {
					bad = true
					c.Undecided("A-TOTAL", fn, key, r.Err.Pos, r.Err.Error())
				}
			}
			if !bad {
				c.Pass("A-TOTAL", fn, key, fmt.Sprintf("%d world(s), every one returns", len(runs)))
			}
		}
	}
	c.Floor("A-TOTAL", n, 12, "method × input class")
}
