package props

import (
	"fmt"

	"verif/checker/internal/absint"
	"verif/checker/internal/core"
	"verif/checker/internal/gen"
)

// ruleRefNames (A-REFNAMES): schemaGenerator.extractRefNames is interpreted abstractly on reference strings
// `<file>#<prefix><X>` for a SYMBOLIC definition name X and both pointer prefixes in several capitalisations: the
// definition name returned must be exactly X (untransformed) and the file part exactly <file>, with no error — so
// `#/definitions/X`, `#/Definitions/X`, `#/$defs/X`, `#/$DEFS/X` name the same definition of the same file.
func ruleRefNames(c *core.Ctx) {
	fn := "(*pkg/generator.schemaGenerator).extractRefNames"
	cases := []struct{ file, prefix string }{
		{"", "/$defs/"}, {"", "/definitions/"}, {"", "/$Defs/"}, {"", "/$DEFS/"}, {"", "/Definitions/"}, {"", "/DEFINITIONS/"},
		{"other.json", "/$defs/"}, {"dir/other.yaml", "/Definitions/"}, {"../x", "/$Defs/"},
	}
	for _, cs := range cases {
		type outT struct {
			def, file absint.Str
			errNil    bool
			x         *absint.Atom
		}
		runs, complete := absint.Explore(c.Prog, 64, func(m *absint.Machine) { gen.InstallStubs(m) }, func(m *absint.Machine) any {
			g := gen.New(m)
			x := g.Raw("definition name", true)
			ref := absint.Cat(absint.Lit(cs.file+"#"+cs.prefix), x)
			t := g.Node(map[string]gen.V{"Ref": ref})
			sg := g.Obj("pkg/generator", "schemaGenerator", map[string]gen.V{})
			r := g.Method("pkg/generator", "schemaGenerator", "extractRefNames", sg, t).(absint.Tuple)
			o := &outT{errNil: absint.IsNilValue(r[2]), x: x.P[0].Hole.A}
			o.def, _ = r[0].(absint.Str)
			o.file, _ = r[1].(absint.Str)
			return o
		})
		key := fmt.Sprintf("$ref %q + <name>", cs.file+"#"+cs.prefix)
		noteRuns(c, runs)
		if !complete {
			c.Undecided("A-REFNAMES", fn, key, "", "fork budget")
			continue
		}
		for _, r := range runs {
			if r.Err != nil {
				c.Undecided("A-REFNAMES", fn, key, r.Err.Pos, r.Err.Error())
				continue
			}
			o := r.Out.(*outT)
			okDef := len(o.def.P) == 1 && o.def.P[0].Hole != nil && o.def.P[0].Hole.A == o.x && len(o.def.P[0].Hole.Tr) == 0
			fileTxt, fileConcrete := o.file.Concrete()
			okFile := fileConcrete && fileTxt == cs.file
			if o.errNil && okDef && okFile {
				c.Pass("A-REFNAMES", fn, fmt.Sprintf("%s world%v", key, r.Script), "definition name = <name>, file = "+fmt.Sprintf("%q", cs.file))
			} else {
				c.Fail("A-REFNAMES", fn, key, "", fmt.Sprintf("returns definition name %s, file %s, error nil=%v; expected the bare name and file %q: this spelling of the pointer prefix does not reach the same definition as the lower-case one", o.def.Debug(), o.file.Debug(), o.errNil, cs.file), nil)
			}
		}
	}
}
