package props

import (
	"verif/checker/internal/core"
	"verif/checker/internal/engb"
)

func init() {
	Registry["C10"] = C10
	Registry["C20"] = C20
}

func emit(c *core.Ctx, rs []engb.RuleResult) {
	for _, r := range rs {
		if r.OK {
			c.Pass(r.Rule, r.Func, r.Construct, r.Detail)
			c.Sample(map[string]any{"rule": r.Rule, "func": r.Func, "construct": r.Construct, "at": r.Pos, "detail": r.Detail})
		} else {
			c.Fail(r.Rule, r.Func, r.Construct, r.Pos, r.Detail, nil)
		}
	}
}

// C10 — $ref is transparent, resolves relative to its document, and may recurse.
func C10(c *core.Ctx) {
	c.Explanation = "B-MEMO: CachedLoader.Load is checked as a memo table on its SSA: a comma-ok lookup whose hit branch returns the cached schema with a nil error and " +
		"cannot reach the inner loader; the miss path forwards (uri, parentURI) unchanged, stores the loaded schema under the same key expression and returns it; " +
		"B-MEMO:key: the key must be derived from the resolved location (QualifiedFileName), because one *Schema object per file is what definition identity, " +
		"type sharing and cross-file recursion rest on. B-CYCLE: generateDeclaredType writes declsBySchema and declsByName on a path dominating the recursive " +
		"generateType call; at each detectCycle call site the returned cleanup is deferred before any call that can recurse into generation; the cleanup " +
		"closure deletes the very key that was inserted into inScope. B-PARENT: the file name registered through addFile (the base for nested relative $refs) " +
		"is the command-line path or a QualifiedFileName result at every call site. " +
		"Decided: these cache/identity/recursion-bookkeeping conditions. Not decided here: inline-vs-ref equality of generated validation (covered for same-file " +
		"refs by the ref positions of the abstract-interpretation families when those checks are present), symlink/extension probing, type reuse via cmp.Equal."
	c.Trust("filepath.Join/Dir/EvalSymlinks behave as documented")
	a := engb.New(c.Prog)
	emit(c, a.Memo("(*pkg/schemas.CachedLoader).Load"))
	emit(c, a.Cycle())
	emit(c, a.ParentPath())
	emit(c, a.RefCacheScope())
}

// C20 — each schema's code lands once, in the file and package mapped to its id.
func C20(c *core.Ctx) {
	c.Explanation = "B-ROUTE: every newSchemaGenerator call receives the output returned by findOutputFileForSchemaID(<schema>.ID) for the same schema value " +
		"(id field identified by its json tag $id); the id -> output map is written only in beginOutput; file names are unique among outputs (the uniqueness " +
		"fact derived for C12: each insertion is dominated by the no-match exit of the same-file search), hence Sources' per-file concatenation has one piece " +
		"per file and the same-file/different-package conflict is detected independently of map order. " +
		"Decided: routing of each schema to the output looked up for its own id and single ownership of the routing table. " +
		"B-XPKG: in generateReferencedType the branch between the unqualified and the package-qualified result compares the two outputs' Package.QualifiedName " +
		"(not the outputs themselves), the qualified NamedType takes its package from the target's output and the import is added to the referrer's package. " +
		"B-ROUTE:keys: the id list main builds the mappings from is appended to an initially empty slice (no phantom empty-id mapping). " +
		"Not decided: main's mapping assembly beyond these, argument-order independence of the root-type-name check, building the emitted packages together."
	a := engb.New(c.Prog)
	emit(c, a.Route())
	emit(c, a.CrossPackage("(*pkg/generator.schemaGenerator).generateReferencedType"))
	emit(c, a.AccumulatorStartsEmpty("main.allKeys"))
	facts := a.UniqueFacts()
	ok := false
	for _, f := range facts {
		if f.MapField == "outputs" && f.Path == "file.FileName" {
			ok = true
			c.Pass("B-ROUTE:unique", "field outputs", "file names unique among outputs", f.Proof)
		}
	}
	if !ok {
		c.Fail("B-ROUTE:unique", "field outputs", "file names unique among outputs", "", "no proof that two outputs never share a file name: Sources() would concatenate them in map order and a same-file/different-package conflict could go unnoticed", nil)
	}
}
