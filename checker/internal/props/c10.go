package props

import (
	"fmt"
	"os"
	"path/filepath"
	"strings"

	"verif/checker/internal/core"
	"verif/checker/internal/engb"
	"verif/checker/internal/fam"
	"verif/checker/internal/gen"
	"verif/checker/internal/skel"
)

func init() {
	Registry["C10"] = C10
	Registry["C20"] = C20
}

func emit(c *core.Ctx, rs []engb.RuleResult) {
	for _, r := range rs {
		if r.OK {
			c.Pass(r.Rule, r.Func, r.Construct, r.Detail)
			c.Sample(map[string]any{"rule": r.Rule, "func": r.Func, "construct": r.Construct, "at": r.Pos, "detail": r.Detail})
		} else {
			c.Fail(r.Rule, r.Func, r.Construct, r.Pos, r.Detail, nil)
		}
	}
}

// C10 — $ref is transparent, resolves relative to its document, and may recurse.
func C10(c *core.Ctx) {
	c.Explanation = "A-MEMO (semantic): CachedLoader.Load is interpreted abstractly around a recording in-memory inner loader: the same reference twice = one inner load and the SAME schema object; two different " +
		"references (also differing only after the last dot, or the same relative spelling used from two directories) = different objects, each loaded once; a failed load is reported and not remembered — " +
		"one *Schema object per file is what definition identity, type sharing and cross-file recursion rest on. " +
		"B-QUALIFIED: QualifiedFileName joins a relative name to the directory of the referring file and returns the EvalSymlinks result (possibly through pure path normalisation) on every success path. " +
		"A-DEDUP: output.getDeclByEqualSchema interpreted on an output with three declarations under one name returns the one whose schema equals the query. " +
		"B-CYCLE: generateDeclaredType writes declsBySchema and declsByName on a path dominating the recursive generateType call; at each detectCycle call site the returned cleanup is deferred before any call " +
		"that can recurse into generation; the cleanup closure deletes the very key that was inserted into inScope. B-PARENT: the file name registered through addFile (the base for nested relative $refs) is the " +
		"command-line path or a QualifiedFileName result at every call site. B-REFCACHE: the cache keyed by the raw $ref text belongs to the per-file generator and is created afresh in newSchemaGenerator. " +
		"Engine A: every broad-family member at a reference position ($defs, definitions; arrays, enums, compositions as definitions) with the inline-twin filter (an issue counts only if the inlined form does not " +
		"show it); one definition referenced by two properties yields ONE type (A-SHARE) generated once; multi-file scenarios (cross-file references under three routings, cycles, a typeless self-referential root, " +
		"same-named definitions in two files differing in one keyword or in a nested reference target). Not decided: symlink/extension probing on a real file system."
	c.Trust("filepath.Join/Dir/EvalSymlinks behave as documented")
	a := engb.New(c.Prog)
	ruleMemo(c) // A-MEMO (semantic); the SSA shape rule B-MEMO fired on an equivalent rewrite of the memo table and was retired
	emit(c, a.Cycle())
	emit(c, a.ParentPath())
	emit(c, a.RefCacheScope())
	emit(c, a.QualifiedResolution())
	ruleDedup(c)
	ruleDefsAsWritten(c)
	// both pointer prefixes, in any capitalisation, name the definition written after them (A-REFNAMES, shared with C13)
	ruleRefNames(c)
	// "each definition yields one Go type": a declaration reached twice (a document reached through two spellings, the alias of a
	// referenced branch) is kept once (A-DECLSET)
	ruleDeclSet(c)
	skel.DepsDir = filepath.Join(c.VerifDir, "checker", "testdata", "emitdeps")
	// ONE definition reached from three kinds of places — a property, the items of an array, the values of a map: one Go type, generated
	// once, with its checks, whichever referrer is visited first
	for _, d := range []*fam.Spec{{Kind: "object", Props: []*fam.Prop{{Label: "q", Spec: &fam.Spec{Kind: "string", Kw: []string{"minLength"}}, Required: true}}}, {Kind: "string", Kw: []string{"maxLength"}}} {
		dd := d.Clone()
		dd.Ref = "$defs"
		mb := member{name: "one definition referenced from a property, array items and map values (" + d.String() + ")", cfg: gen.DefaultConfig(),
			root: &fam.Spec{Kind: "object", Props: []*fam.Prop{
				{Label: "m", Spec: &fam.Spec{Kind: "object", AddPropsSpec: dd}},
				{Label: "p", Spec: dd, Required: true},
				{Label: "xs", Spec: &fam.Spec{Kind: "array", Items: dd}}}}}
		runMember(c, mb, ruleSet("A-MAP", "A-REJ", "A-REQ", "A-NOEXTRA", "A-NILG", "A-TYP", "A-SHARE"), 64, func(w *fam.World, fm *fam.FileModel) []fam.Issue {
			var keep []fam.Issue
			for _, is := range append(checkRoot(w, fm), w.TypIssues(c.Prog.Repo)...) {
				if is.Rule != "A-REJ:chars" { // the byte-length measure is C06's listed finding, the same inline
					keep = append(keep, is)
				}
			}
			return keep
		})
	}
	// a chain of two references is as transparent as one: a property that refers to a definition whose whole content is a $ref to the
	// real definition gets that definition's type and checks
	for _, sp := range []*fam.Spec{{Kind: "string", Kw: []string{"minLength"}}, {Kind: "integer", Kw: []string{"maximum"}},
		{Kind: "object", Props: []*fam.Prop{{Label: "q", Spec: &fam.Spec{Kind: "string"}, Required: true}}}} {
		for _, req := range []bool{true, false} {
			d := sp.Clone()
			d.Ref, d.RefVia = "$defs", true
			mb := member{name: fmt.Sprintf("reference to a definition that is only a reference (%s) required=%v", sp.String(), req), cfg: gen.DefaultConfig(), tag: "definition that is only a $ref",
				root: &fam.Spec{Kind: "object", Props: []*fam.Prop{{Label: "p", Spec: d, Required: req}}}}
			runMember(c, mb, ruleSet("A-MAP", "A-REJ", "A-REQ", "A-NOEXTRA", "A-NILG"), 64, checkRoot)
		}
	}
	// Engine A: the same oracles that decide the inline forms decide the referenced forms ("replacing a reference by an inline copy of its
	// target does not change which documents are accepted"): value families at the $defs / definitions positions, a definition referenced twice
	// (one shared type), and the cross-file forms.
	skel.DepsDir = filepath.Join(c.VerifDir, "checker", "testdata", "emitdeps")
	rules := ruleSet("A-REJ", "A-REQ", "A-NOEXTRA", "A-NILG", "A-DEF", "A-TYP", "A-SHARE")
	cfg := gen.DefaultConfig()
	n := 0
	for _, mb := range broadMembers(c.Tier, cfg) {
		if !strings.Contains(mb.name, " def-") && !strings.Contains(mb.name, "behind a definition") && !strings.Contains(mb.name, "referenced") {
			continue
		}
		n++
		if c.Tier != "thorough" && n%3 != 0 {
			continue
		}
		inline := inlineIssues(c, mb)
		runMember(c, mb, rules, 256, func(w *fam.World, fm *fam.FileModel) []fam.Issue {
			return notIn(inline, append(checkRoot(w, fm), w.TypIssues(c.Prog.Repo)...))
		})
	}
	for _, mb := range sharedRefMembers(cfg) {
		inline := inlineIssues(c, mb)
		runMember(c, mb, rules, 256, func(w *fam.World, fm *fam.FileModel) []fam.Issue {
			out := notIn(inline, append(checkRoot(w, fm), w.TypIssues(c.Prog.Repo)...))
			return append(out, sharedTypeIssues(w, fm)...)
		})
	}
	c.Floor("families", c.Counts["members"], 30, "family members at reference positions")
	ruleMulti(c, ruleSet("A-ROUTE", "A-XPKG", "A-TYP", "A-DEF", "A-REQ", "A-REJ", "A-NOEXTRA", "A-NILG", "A-MAP"))
}

// inlineIssues runs the INLINE twin of a member (every reference replaced by a copy of its target) and returns the (rule, construct)
// pairs of the issues found on it. C10 is about transparency: a defect of a value keyword that shows inline as well (byte-length
// minLength, truncated fractional bounds, inner array levels) is decided under that keyword's own property, not here.
func inlineIssues(c *core.Ctx, mb member) map[string]bool {
	twin := mb.root.Clone()
	var strip func(s *fam.Spec)
	seen := map[*fam.Spec]bool{}
	strip = func(s *fam.Spec) {
		if s == nil || seen[s] {
			return
		}
		seen[s] = true
		s.Ref, s.RefFile, s.DefLabel, s.DefSameAs = "", "", "", ""
		strip(s.Items)
		for _, p := range s.Props {
			strip(p.Spec)
		}
		for _, x := range s.AnyOf {
			strip(x)
		}
		for _, x := range s.AllOf {
			strip(x)
		}
	}
	strip(twin)
	out := map[string]bool{}
	worlds, _ := fam.Run(c.Prog, mb.cfg, twin, 64, nil)
	c.Counts["inline_twins"]++
	for _, w := range worlds {
		if w.Err != nil || w.GenErr != "" {
			continue
		}
		fm := w.Models["out.go"]
		if fm == nil {
			continue
		}
		for _, is := range append(checkRoot(w, fm), w.TypIssues(c.Prog.Repo)...) {
			out[twinKey(is)] = true
		}
	}
	if os.Getenv("VCHECK_DEBUG") != "" && strings.Contains(mb.name, os.Getenv("VCHECK_DEBUG")) {
		fmt.Printf("TWIN %s: %d worlds, keys %v\n", twin.String(), len(worlds), out)
	}
	return out
}

// twinKey identifies an issue across the two forms.
func twinKey(is fam.Issue) string {
	return is.Rule + "|" + is.Construct
}

func notIn(inline map[string]bool, issues []fam.Issue) []fam.Issue {
	var out []fam.Issue
	for _, is := range issues {
		if !inline[twinKey(is)] {
			out = append(out, is)
		}
	}
	return out
}

// sharedRefMembers: one definition referenced from two properties (must yield ONE Go type used by both).
func sharedRefMembers(cfg gen.Config) []member {
	var out []member
	for _, ref := range []string{"$defs", "definitions"} {
		for _, kind := range []string{"object", "string", "integer", "array"} {
			mk := func() *fam.Spec {
				var s *fam.Spec
				switch kind {
				case "object":
					s = objSpec(&fam.Prop{Label: "in", Spec: &fam.Spec{Kind: "string", Kw: []string{"minLength"}}, Required: true})
				case "string":
					s = &fam.Spec{Kind: "string", Kw: []string{"maxLength", "pattern"}}
				case "integer":
					s = &fam.Spec{Kind: "integer", Kw: []string{"minimum", "multipleOf"}}
				default:
					s = &fam.Spec{Kind: "array", Items: &fam.Spec{Kind: "string"}, Kw: []string{"minItems"}}
				}
				s.Ref, s.DefLabel = ref, "shared"
				return s
			}
			shared := mk()
			root := objSpec(&fam.Prop{Label: "p1", Spec: shared, Required: true}, &fam.Prop{Label: "p2", Spec: shared})
			out = append(out, member{name: "one " + kind + " definition in " + ref + " referenced by two properties", cfg: cfg, root: root})
		}
	}
	return out
}

// sharedTypeIssues: both referrers of the one definition have the same declared type.
func sharedTypeIssues(w *fam.World, fm *fam.FileModel) []fam.Issue {
	if len(w.Spec.Props) < 2 {
		return nil
	}
	var ts []string
	for _, p := range w.Spec.Props {
		_, F := fm.FindField(p.Name, "json")
		if F == nil {
			return nil
		}
		ts = append(ts, strings.TrimPrefix(F.Type, "*"))
	}
	if ts[0] != ts[1] {
		return []fam.Issue{{Rule: "A-SHARE", Construct: "two referrers of one definition get different Go types", Msg: fmt.Sprintf("p1 is %s, p2 is %s", ts[0], ts[1])}}
	}
	return nil
}

// C20 — each schema's code lands once, in the file and package mapped to its id.
func C20(c *core.Ctx) {
	c.Explanation = "B-ROUTE: every newSchemaGenerator call receives the output returned by findOutputFileForSchemaID(<schema>.ID) for the same schema value " +
		"(id field identified by its json tag $id); the id -> output map is written only in beginOutput; file names are unique among outputs (the uniqueness " +
		"fact derived for C12: each insertion is dominated by the no-match exit of the same-file search), hence Sources' per-file concatenation has one piece " +
		"per file and the same-file/different-package conflict is detected independently of map order. " +
		"Decided: routing of each schema to the output looked up for its own id and single ownership of the routing table. " +
		"B-XPKG: in generateReferencedType the branch between the unqualified and the package-qualified result compares the two outputs' Package.QualifiedName " +
		"(not the outputs themselves), the qualified NamedType takes its package from the target's output and the import is added to the referrer's package. " +
		"B-ROUTE:keys: the id list main builds the mappings from is appended to an initially empty slice (no phantom empty-id mapping). " +
		"Multi-file families (Engine A): several in-memory schema files with cross-file references are generated in ONE abstract generator run, behind the module's own CachedLoader (the file system is replaced by " +
		"an in-memory loader and 'path joined to the referring file's directory'), under routing configurations (two packages; one package in two output files; the single default output; plus an unrelated file; " +
		"same-named definitions in two files; a reference cycle across files) and several argument orders: every reached schema's root type is declared exactly once, in the output file and package mapped to its id; " +
		"a reference is package-qualified and imported iff the packages differ (A-XPKG); ALL emitted packages type-check together (A-TYP); the referenced definition is validated where it lands; and the " +
		"normalised output of a file is the same for every argument order and with or without unrelated files (A-ORDER). " +
		"Not decided: main's mapping assembly beyond the key-list rule; real file-system resolution."
	a := engb.New(c.Prog)
	emit(c, a.Route())
	emit(c, a.CrossPackage("(*pkg/generator.schemaGenerator).generateReferencedType"))
	emit(c, a.AccumulatorStartsEmpty("main.allKeys"))
	// "emitted exactly once": a declaration reached twice in one run (a document reached through two spellings) is kept once (A-DECLSET)
	ruleDeclSet(c)
	// "(or the defaults)": a mapping given only some of the three per-id flags takes the defaults for the others
	emit(c, a.MappingDefaults("main.init$1", "generator.SchemaMapping", []string{"PackageName", "OutputName"}))
	// ... and a value that IS given for an id is used verbatim, the empty string included (`--schema-output=ID=` means "no output")
	emit(c, a.MappingUsesPresence("main.init$1"))
	facts := a.UniqueFacts()
	ok := false
	for _, f := range facts {
		if f.MapField == "outputs" && f.Path == "file.FileName" {
			ok = true
			c.Pass("B-ROUTE:unique", "field outputs", "file names unique among outputs", f.Proof)
		}
	}
	if !ok {
		c.Fail("B-ROUTE:unique", "field outputs", "file names unique among outputs", "", "no proof that two outputs never share a file name: Sources() would concatenate them in map order and a same-file/different-package conflict could go unnoticed", nil)
	}
	// the id that routing compares with the --schema-package/--schema-output/--schema-root-type keys is the id AS WRITTEN in the document:
	// Schema.ID receives only the decoded "$id" (or the legacy "id" when "$id" is absent) and nothing rewrites it
	legacyPair(c, legacySemantic(c), "Schema", "id", "$id", func() (bool, string, string) {
		r := a.LegacyFold(engb.LegacyPair{Func: "(*pkg/schemas.Schema).UnmarshalJSON", CurTag: "$id", LegacyTag: "id"})
		if r.OK {
			return true, r.How, r.Pos
		}
		return false, strings.Join(r.Problems, "; "), r.Pos
	})
	// B-PARENT: the file name under which a referenced file is processed (the base of ITS relative refs) is the resolved location
	emit(c, a.ParentPath())
	// B-REFCACHE: a cache keyed by the file-relative text of a $ref must live and die with one file's generator, or the code for a
	// schema depends on which other files were processed before it
	emit(c, a.RefCacheScope())
	ruleMulti(c, ruleSet("A-ROUTE", "A-XPKG", "A-TYP", "A-ORDER", "A-DEF", "A-REQ", "A-REJ", "A-NOEXTRA", "A-MAP", "A-NILG"))
}
