package props

import (
	"fmt"
	"strings"

	"verif/checker/internal/core"
	"verif/checker/internal/engb"
)

func init() { Registry["C13"] = C13 }

// C13 — equivalent spellings of a schema generate identical code.
func C13(c *core.Ctx) {
	c.Explanation = "A-LEGACY (semantic): for each legacy/current keyword pair (id/$id and definitions/$defs in Schema.UnmarshalJSON; definitions/$defs and " +
		"dependencies/dependentSchemas in Type.UnmarshalJSON) the decoder is interpreted abstractly on four documents — the legacy spelling, the current spelling, and both keywords present in either order — " +
		"with symbolic member values, on a stated flat-object model of encoding/json.Unmarshal: all must succeed, legacy and current must leave the same model (the raw LegacyID field apart) and the current " +
		"keyword must win when both are present. If the decoder itself does not fold, the SSA discipline B-LEGACY is the fallback (legacy copied only where the current keyword is absent, every read of the " +
		"current field outside the accessor reported); only when both fail is it a violation. " +
		"A-TYPEFORM: TypeList.UnmarshalJSON interpreted on `\"X\"` and on `[\"X\"]` (symbolic X) must leave equal lists; Type.UnmarshalJSON on `true` and on `{}` must leave equal types. " +
		"A-REFNAMES: extractRefNames interpreted on `<file>#<prefix><X>` for both pointer prefixes in six capitalisations, with and without a file part: the definition name is exactly X, the file part exactly <file>. " +
		"Single decoder (B-LEGACY:decoder): every *Schema built in pkg/schemas is filled only through encoding/json, and the YAML reader is the pipeline YAML decode -> FixMapKeys -> json.Marshal -> json.Unmarshal " +
		"in dominance order on one map. B-LEGACY:refcmp: structural type comparison (cmputil.Opts) ignores the raw $ref text or compares it by a custom rule. " +
		"B-PARSER: the name whose extension selects the YAML or JSON parser in the file loader is the first result of QualifiedFileName (directly or through parameters at all call sites), i.e. the file that is opened. " +
		"A-FIDELITY: (*Type).UnmarshalJSON interpreted on the one-keyword document {kw: v} leaves exactly what plain encoding/json makes of it — the stated value is neither normalised nor dropped (a zero is a stated value). " +
		"Not decided: byte equality of outputs, YAML scalar typing, YAML documents with non-string mapping keys (goccy's behaviour)."
	c.Trust("encoding/json decodes by struct tag", "goccy/go-yaml yields generic maps")
	a := engb.New(c.Prog)
	pairs := []engb.LegacyPair{
		{Func: "(*pkg/schemas.Schema).UnmarshalJSON", CurTag: "$id", LegacyTag: "id"},
		{Func: "(*pkg/schemas.Schema).UnmarshalJSON", CurTag: "$defs", LegacyTag: "definitions"},
		{Func: "(*pkg/schemas.Type).UnmarshalJSON", CurTag: "$defs", LegacyTag: "definitions"},
		{Func: "(*pkg/schemas.Type).UnmarshalJSON", CurTag: "dependentSchemas", LegacyTag: "dependencies"},
	}
	sem := legacySemantic(c)
	for _, p := range pairs {
		p := p
		typ := "Schema"
		if strings.Contains(p.Func, ".Type)") {
			typ = "Type"
		}
		legacyPair(c, sem, typ, p.LegacyTag, p.CurTag, func() (bool, string, string) {
			r := a.LegacyFold(p)
			if r.OK {
				return true, r.How, r.Pos
			}
			return false, strings.Join(r.Problems, "; "), r.Pos
		})
	}
	// A-FIXKEYS: the YAML bridge changes keys only
	ruleFixMapKeys(c)
	// B-RAWPEEK: the decoders never SEARCH the raw text of a document (formatting-dependent)
	emit(c, a.NoTextSearchInDocuments())
	// B-PARSER: "YAML chosen by file extension" — of the file that is opened, i.e. after extension resolution and symlinks
	emit(c, a.ParserChoice())
	// A-TYPEFORM: "type" as string or one-element list; true and {} as the anything-schema (semantic, on a model of encoding/json)
	ruleTypeForm(c)
	// A-REFNAMES: both pointer prefixes, case-insensitively, name the same definition
	ruleRefNames(c)
	ruleFidelity(c, "pattern", "format", "title", "description", "$ref", "default", "minimum", "maximum", "multipleOf", "exclusiveMinimum", "exclusiveMaximum", "minLength", "maxLength", "minItems", "maxItems", "enum")
	n, probs, notes := a.SchemaProducers()
	c.Floor("B-LEGACY:decoder", n, 2, "functions that build a *Schema")
	if len(probs) == 0 {
		c.Pass("B-LEGACY:decoder", "pkg/schemas", "single JSON decoder for all readers", strings.Join(notes, "; "))
		c.Sample(map[string]any{"rule": "B-LEGACY:decoder", "notes": notes})
	} else {
		for i, p := range probs {
			c.Fail("B-LEGACY:decoder", "pkg/schemas", fmt.Sprintf("single JSON decoder #%d", i), "", p, nil)
		}
	}
	if ok, why := a.CmpIgnoresRef(); ok {
		c.Pass("B-LEGACY:refcmp", "pkg/cmputil.Opts", "structural comparison ignores Ref", why)
	} else {
		c.Fail("B-LEGACY:refcmp", "pkg/cmputil.Opts", "structural comparison ignores Ref", "", why, nil)
	}
}
