// Package props wires rules into per-property checks.
package props

import "verif/checker/internal/core"

// Registry maps a property id to its check.
var Registry = map[string]func(*core.Ctx){}
