package props

import (
	"fmt"

	"verif/checker/internal/absint"
	"verif/checker/internal/core"
	"verif/checker/internal/gen"
)

// ruleMemo (A-MEMO): (*CachedLoader).Load is interpreted abstractly around an in-memory inner loader that records its
// calls and hands out a distinct schema object per file. "One *Schema object per file" is what definition identity, type
// sharing and cross-file recursion rest on, so:
//   - the same reference loaded twice reaches the inner loader once and yields the SAME object;
//   - two different references yield different objects, each loaded once — also when they differ only after the last
//     dot (contact.v1 / contact.v2) and when the same relative spelling is used from two different directories;
//   - the same file referenced by two different documents (two parents in one directory) is still ONE object, loaded once;
//   - a failed load is reported and not remembered.
//
// Insensitive to how the memo table is written (early return, if !ok {...}, helper).
func ruleMemo(c *core.Ctx) {
	fn := "(*pkg/schemas.CachedLoader).Load"
	type call struct{ uri, parent string }
	scen := []struct {
		name      string
		calls     []call
		wantLoads int
		same      bool // the two results are the same object
		wantErr   bool
	}{
		{"the same reference twice", []call{{"a.json", ""}, {"a.json", ""}}, 1, true, false},
		{"two different references", []call{{"a.json", ""}, {"b.json", ""}}, 2, false, false},
		{"two references that differ only after the last dot", []call{{"contact.v1", ""}, {"contact.v2", ""}}, 2, false, false},
		{"the same relative spelling from two different directories", []call{{"b.json", "x/a.json"}, {"b.json", "y/a.json"}}, 2, false, false},
		{"the same file referenced by two different documents of one directory", []call{{"b.json", "x/a.json"}, {"b.json", "x/c.json"}}, 1, true, false},
		{"a reference that cannot be loaded, twice", []call{{"missing.json", ""}, {"missing.json", ""}}, 2, false, true},
	}
	for _, sc := range scen {
		type outT struct {
			loads    int
			same     bool
			errs     []bool
			nilFirst bool
		}
		runs, complete := absint.Explore(c.Prog, 64, func(m *absint.Machine) { gen.InstallStubs(m) }, func(m *absint.Machine) any {
			g := gen.New(m)
			files := map[string]gen.V{}
			for _, n := range []string{"a.json", "b.json", "contact.v1", "contact.v2", "x/b.json", "y/b.json"} {
				files[n] = g.Schema(g.Node(map[string]gen.V{"Type": g.Types("object"), "Description": absint.Lit("file " + n)}), absint.Lit("id:"+n), absint.Str{}, nil)
			}
			g.StubLoader(files)
			newCL := m.P.Func("pkg/schemas.NewCachedLoader")
			if newCL == nil {
				panic(&absint.RunError{Kind: "undecided", Msg: "pkg/schemas.NewCachedLoader not found"})
			}
			cl := m.CallFunction(newCL, []absint.Value{g.Loader, &absint.Map{}}, nil)
			o := &outT{}
			var res []absint.Value
			for _, cc := range sc.calls {
				r := g.Method("pkg/schemas", "CachedLoader", "Load", cl, absint.Lit(cc.uri), absint.Lit(cc.parent)).(absint.Tuple)
				res = append(res, r[0])
				o.errs = append(o.errs, !absint.IsNilValue(r[1]))
			}
			o.loads = len(g.Loads)
			o.same = absint.SamePointer(res[0], res[1])
			o.nilFirst = absint.IsNilValue(res[0])
			return o
		})
		key := sc.name
		noteRuns(c, runs)
		if !complete || len(runs) != 1 {
			c.Undecided("A-MEMO", fn, key, "", fmt.Sprintf("%d worlds, complete=%v", len(runs), complete))
			continue
		}
		if runs[0].Err != nil {
			c.Undecided("A-MEMO", fn, key, runs[0].Err.Pos, runs[0].Err.Error())
			continue
		}
		o := runs[0].Out.(*outT)
		var problems []string
		if o.loads != sc.wantLoads {
			problems = append(problems, fmt.Sprintf("the inner loader is called %d time(s), expected %d", o.loads, sc.wantLoads))
		}
		if sc.wantErr {
			if !o.errs[0] || !o.errs[1] {
				problems = append(problems, fmt.Sprintf("a failed load is not reported (errors: %v)", o.errs))
			}
		} else {
			if o.errs[0] || o.errs[1] || o.nilFirst {
				problems = append(problems, fmt.Sprintf("a successful load returns an error or no schema (errors: %v)", o.errs))
			}
			if o.same != sc.same {
				problems = append(problems, fmt.Sprintf("the two results are the same object = %v, expected %v", o.same, sc.same))
			}
		}
		if len(problems) == 0 {
			c.Pass("A-MEMO", fn, key, fmt.Sprintf("%d inner load(s), same object = %v", o.loads, o.same))
		} else {
			c.Fail("A-MEMO", fn, key, "", fmt.Sprintf("%v: two different documents are conflated, or one document is parsed into two unrelated schema objects", problems), nil)
		}
	}
}
