package props

import (
	"fmt"

	"verif/checker/internal/absint"
	"verif/checker/internal/core"
	"verif/checker/internal/gen"
)

// ruleTypeForm (A-TYPEFORM): the two decoders that make spellings equivalent are interpreted abstractly on both
// spellings, on a stated model of encoding/json for five tiny document shapes:
//   - (*TypeList).UnmarshalJSON on `"X"` and on `["X"]` for a symbolic X must succeed and leave EQUAL lists;
//   - (*Type).UnmarshalJSON on `true` and on `{}` must succeed and leave EQUAL types (compared field by field).
//
// Unlike a shape rule on the SSA this is insensitive to how the functions are written.
func ruleTypeForm(c *core.Ctx) {
	type res struct {
		errNil bool
		val    absint.Value
	}
	run := func(fnRecv, typeName string, doc func(g *gen.G) absint.Bytes) ([]res, string) {
		var out []res
		runs, complete := absint.Explore(c.Prog, 64, func(m *absint.Machine) { gen.InstallStubs(m) }, func(m *absint.Machine) any {
			g := gen.New(m)
			target := m.NewPtr(m.Zero(g.Type("pkg/schemas", typeName)), "decode target")
			r := g.Method("pkg/schemas", typeName, "UnmarshalJSON", target, doc(g))
			return &res{errNil: absint.IsNilValue(r), val: *target.P}
		})
		noteRuns(c, runs)
		if !complete {
			return nil, "fork budget"
		}
		for _, r := range runs {
			if r.Err != nil {
				return nil, r.Err.Error()
			}
			out = append(out, *r.Out.(*res))
		}
		return out, ""
	}
	check := func(fn, typeName, what string, docA, docB func(g *gen.G) absint.Bytes, la, lb string) {
		ra, ea := run(fn, typeName, docA)
		rb, eb := run(fn, typeName, docB)
		key := what
		if ea != "" || eb != "" {
			c.Undecided("A-TYPEFORM", fn, key, "", "interpretation undecided: "+ea+" "+eb)
			return
		}
		if len(ra) != 1 || len(rb) != 1 {
			c.Undecided("A-TYPEFORM", fn, key, "", fmt.Sprintf("%d / %d worlds", len(ra), len(rb)))
			return
		}
		a, b := ra[0], rb[0]
		switch {
		case !a.errNil || !b.errNil:
			c.Fail("A-TYPEFORM", fn, key, "", fmt.Sprintf("decoding %s returns error nil=%v, decoding %s returns error nil=%v: one spelling is rejected", la, a.errNil, lb, b.errNil), nil)
		case absint.DebugValue(a.val) != absint.DebugValue(b.val):
			c.Fail("A-TYPEFORM", fn, key, "", fmt.Sprintf("%s decodes to %s but %s decodes to %s: the two spellings give different schema models", la, absint.DebugValue(a.val), lb, absint.DebugValue(b.val)), nil)
		default:
			c.Pass("A-TYPEFORM", fn, key, "both decode to "+absint.DebugValue(a.val))
		}
	}
	x := func(g *gen.G) absint.Str { return g.Raw("type name", true) }
	check("(*pkg/schemas.TypeList).UnmarshalJSON", "TypeList", `"type": "T" and "type": ["T"] decode to the same list`,
		func(g *gen.G) absint.Bytes { return absint.JSONString(x(g)) }, func(g *gen.G) absint.Bytes { return absint.JSONList1(x(g)) }, `"T"`, `["T"]`)
	// a two-element list keeps the written order. This clause is a necessary condition only while the generator is sensitive to the
	// order, so it is ARMED by interpretation: schemas.MergeTypes on the one-branch list [{type:[null,object], properties}] and on
	// [{type:[object,null], properties}] — if both give the same model the generator does not read positions there and the clause is
	// recorded as not armed instead of being enforced.
	armed, why := typeOrderMatters(c)
	if !armed {
		c.Pass("A-TYPEFORM", "pkg/schemas.MergeTypes", "order clause not armed", why)
	}
	c.Sample(map[string]any{"rule": "A-TYPEFORM", "order_clause_armed": armed, "because": why})
	for _, pair := range [][2]string{{"object", "null"}, {"null", "object"}, {"string", "null"}, {"null", "integer"}} {
		if !armed {
			break
		}
		pair := pair
		key := fmt.Sprintf(`"type": ["%s","%s"] decodes to the list as written`, pair[0], pair[1])
		rs, e := run("(*pkg/schemas.TypeList).UnmarshalJSON", "TypeList", func(g *gen.G) absint.Bytes { return absint.JSONList(absint.Lit(pair[0]), absint.Lit(pair[1])) })
		want := fmt.Sprintf(`["%s" "%s"]`, pair[0], pair[1])
		switch {
		case e != "" || len(rs) != 1:
			c.Undecided("A-TYPEFORM", "(*pkg/schemas.TypeList).UnmarshalJSON", key, "", fmt.Sprintf("interpretation undecided: %s (%d worlds)", e, len(rs)))
		case !rs[0].errNil:
			c.Fail("A-TYPEFORM", "(*pkg/schemas.TypeList).UnmarshalJSON", key, "", "decoding the two-element list returns an error", nil)
		case absint.DebugValue(rs[0].val) != want:
			c.Fail("A-TYPEFORM", "(*pkg/schemas.TypeList).UnmarshalJSON", key, "", fmt.Sprintf("decodes to %s, expected %s: the order (or content) of the written type list is changed by the decoder", absint.DebugValue(rs[0].val), want), nil)
		default:
			c.Pass("A-TYPEFORM", "(*pkg/schemas.TypeList).UnmarshalJSON", key, "decodes to "+want)
		}
	}
	check("(*pkg/schemas.Type).UnmarshalJSON", "Type", "true and {} decode to the same schema",
		func(g *gen.G) absint.Bytes { return absint.JSONLit("true") }, func(g *gen.G) absint.Bytes { return absint.JSONLit("{}") }, "true", "{}")
}

// typeOrderMatters interprets schemas.MergeTypes on a single nullable-object branch in both type-list orders.
func typeOrderMatters(c *core.Ctx) (bool, string) {
	fn, err := c.Prog.MustFunc("pkg/schemas.MergeTypes")
	if err != nil {
		return true, "anchor pkg/schemas.MergeTypes not found (" + err.Error() + "): the clause stays armed"
	}
	render := func(order [2]string) (string, string) {
		runs, complete := absint.Explore(c.Prog, 64, func(m *absint.Machine) { gen.InstallStubs(m) }, func(m *absint.Machine) any {
			g := gen.New(m)
			name := g.Raw("property name", true)
			n := g.Node(map[string]gen.V{"Type": g.Types(order[0], order[1]),
				"Properties": g.Map([]gen.V{name}, []gen.V{g.Node(map[string]gen.V{"Type": g.Types("string")})}), "Required": g.Strs(name)})
			r := m.CallFunction(fn, []absint.Value{g.Nodes(n)}, nil)
			if t, ok := r.(absint.Tuple); ok && len(t) > 0 {
				if p, isP := t[0].(absint.Ptr); isP && p.P != nil {
					return absint.DebugValue(*p.P)
				}
				return absint.DebugValue(t[0])
			}
			return absint.DebugValue(r)
		})
		noteRuns(c, runs)
		if !complete || len(runs) != 1 || runs[0].Err != nil {
			e := "fork budget / several worlds"
			if len(runs) > 0 && runs[0].Err != nil {
				e = runs[0].Err.Error()
			}
			return "", e
		}
		return runs[0].Out.(string), ""
	}
	a, ea := render([2]string{"null", "object"})
	b, eb := render([2]string{"object", "null"})
	if ea != "" || eb != "" {
		return true, "MergeTypes could not be interpreted on the probe (" + ea + " " + eb + "): the clause stays armed"
	}
	if a != b {
		return true, "MergeTypes gives " + a + " for [null,object] and " + b + " for [object,null]: positions in the type list are read"
	}
	return false, "MergeTypes gives the same model for [null,object] and [object,null]: " + a
}
