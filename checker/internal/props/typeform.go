package props

import (
	"fmt"

	"verif/checker/internal/absint"
	"verif/checker/internal/core"
	"verif/checker/internal/gen"
)

// ruleTypeForm (A-TYPEFORM): the two decoders that make spellings equivalent are interpreted abstractly on both
// spellings, on a stated model of encoding/json for five tiny document shapes:
//   - (*TypeList).UnmarshalJSON on `"X"` and on `["X"]` for a symbolic X must succeed and leave EQUAL lists;
//   - (*Type).UnmarshalJSON on `true` and on `{}` must succeed and leave EQUAL types (compared field by field).
//
// Unlike a shape rule on the SSA this is insensitive to how the functions are written.
func ruleTypeForm(c *core.Ctx) {
	type res struct {
		errNil bool
		val    absint.Value
	}
	run := func(fnRecv, typeName string, doc func(g *gen.G) absint.Bytes) ([]res, string) {
		var out []res
		runs, complete := absint.Explore(c.Prog, 64, func(m *absint.Machine) { gen.InstallStubs(m) }, func(m *absint.Machine) any {
			g := gen.New(m)
			target := m.NewPtr(m.Zero(g.Type("pkg/schemas", typeName)), "decode target")
			r := g.Method("pkg/schemas", typeName, "UnmarshalJSON", target, doc(g))
			return &res{errNil: absint.IsNilValue(r), val: *target.P}
		})
		noteRuns(c, runs)
		if !complete {
			return nil, "fork budget"
		}
		for _, r := range runs {
			if r.Err != nil {
				return nil, r.Err.Error()
			}
			out = append(out, *r.Out.(*res))
		}
		return out, ""
	}
	check := func(fn, typeName, what string, docA, docB func(g *gen.G) absint.Bytes, la, lb string) {
		ra, ea := run(fn, typeName, docA)
		rb, eb := run(fn, typeName, docB)
		key := what
		if ea != "" || eb != "" {
			c.Undecided("A-TYPEFORM", fn, key, "", "interpretation undecided: "+ea+" "+eb)
			return
		}
		if len(ra) != 1 || len(rb) != 1 {
			c.Undecided("A-TYPEFORM", fn, key, "", fmt.Sprintf("%d / %d worlds", len(ra), len(rb)))
			return
		}
		a, b := ra[0], rb[0]
		switch {
		case !a.errNil || !b.errNil:
			c.Fail("A-TYPEFORM", fn, key, "", fmt.Sprintf("decoding %s returns error nil=%v, decoding %s returns error nil=%v: one spelling is rejected", la, a.errNil, lb, b.errNil), nil)
		case absint.DebugValue(a.val) != absint.DebugValue(b.val):
			c.Fail("A-TYPEFORM", fn, key, "", fmt.Sprintf("%s decodes to %s but %s decodes to %s: the two spellings give different schema models", la, absint.DebugValue(a.val), lb, absint.DebugValue(b.val)), nil)
		default:
			c.Pass("A-TYPEFORM", fn, key, "both decode to "+absint.DebugValue(a.val))
		}
	}
	x := func(g *gen.G) absint.Str { return g.Raw("type name", true) }
	check("(*pkg/schemas.TypeList).UnmarshalJSON", "TypeList", `"type": "T" and "type": ["T"] decode to the same list`,
		func(g *gen.G) absint.Bytes { return absint.JSONString(x(g)) }, func(g *gen.G) absint.Bytes { return absint.JSONList1(x(g)) }, `"T"`, `["T"]`)
	check("(*pkg/schemas.Type).UnmarshalJSON", "Type", "true and {} decode to the same schema",
		func(g *gen.G) absint.Bytes { return absint.JSONLit("true") }, func(g *gen.G) absint.Bytes { return absint.JSONLit("{}") }, "true", "{}")
}
