package props

import (
	"fmt"

	"verif/checker/internal/absint"
	"verif/checker/internal/core"
	"verif/checker/internal/gen"
)

// ruleDedup (A-DEDUP): (*output).getDeclByEqualSchema is interpreted abstractly on an output that already holds three
// declarations competing for one name (X, X_1, X_2, with three different schemas): asked for a schema EQUAL to the
// k-th one (a separate copy) it must return exactly the k-th declaration, and nil for a schema equal to none. The type
// a reference is bound to decides which constraints validate it, so a wrong pick silently validates a value against
// another definition (needs three same-named definitions to show: no golden has them).
func ruleDedup(c *core.Ctx) {
	fn := "(*pkg/generator.output).getDeclByEqualSchema"
	for q := 0; q <= 3; q++ {
		runs, complete := absint.Explore(c.Prog, 64, func(m *absint.Machine) { gen.InstallStubs(m) }, func(m *absint.Machine) any {
			g := gen.New(m)
			mkType := func(i int) gen.V {
				return g.Node(map[string]gen.V{"Type": g.Types("string"), "MinLength": int64(i + 1), "Description": absint.Lit(fmt.Sprintf("schema %d", i))})
			}
			var decls []gen.V
			var keys, vals []gen.V
			for i, name := range []string{"X", "X_1", "X_2"} {
				d := g.Obj("pkg/codegen", "TypeDecl", map[string]gen.V{"Name": absint.Lit(name), "SchemaType": mkType(i)})
				decls = append(decls, d)
				keys = append(keys, absint.Lit(name))
				vals = append(vals, d)
			}
			out := g.Obj("pkg/generator", "output", map[string]gen.V{"declsByName": g.Map(keys, vals)})
			query := mkType(q) // q == 3: equal to none
			res := g.Method("pkg/generator", "output", "getDeclByEqualSchema", out, absint.Lit("X"), query)
			for i, d := range decls {
				if absint.SamePointer(res, d) {
					return i
				}
			}
			if absint.IsNilValue(res) {
				return -1
			}
			return -2
		})
		key := fmt.Sprintf("three declarations under one name, query equal to #%d", q)
		if q == 3 {
			key = "three declarations under one name, query equal to none"
		}
		noteRuns(c, runs)
		if !complete {
			c.Undecided("A-DEDUP", fn, key, "", "fork budget")
			continue
		}
		for _, r := range runs {
			if r.Err != nil {
				c.Undecided("A-DEDUP", fn, key, r.Err.Pos, r.Err.Error())
				continue
			}
			got := r.Out.(int)
			want := q
			if q == 3 {
				want = -1
			}
			if got == want {
				c.Pass("A-DEDUP", fn, fmt.Sprintf("%s world%v", key, r.Script), fmt.Sprintf("returns declaration #%d", got))
			} else {
				c.Fail("A-DEDUP", fn, key, "", fmt.Sprintf("returns declaration #%d (−1 = nil, −2 = something else) instead of #%d: a reference is bound to the type of a different schema of the same name", got, want), nil)
			}
		}
	}
}
