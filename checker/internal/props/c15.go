package props

import (
	"verif/checker/internal/core"
	"verif/checker/internal/engb"
)

func init() { Registry["C15"] = C15 }

// C15 — --min-sized-ints never changes which documents are accepted.
func C15(c *core.Ctx) {
	c.Explanation = "B-ROLE: bound roles originate at the json struct tags of schemas.Type (minimum, maximum, exclusiveMinimum, exclusiveMaximum) and are followed " +
		"through loads, address-of, struct-literal fields and parameter binding to a fixpoint; every call of NormalizeBounds / getMinIntType must pass the four " +
		"keywords in the contract order, the (lower, upper) results must feed the two type tables in that order, and in each table row the min-removal flag may " +
		"depend only on the lower bound and the max-removal flag only on the upper bound. B-PAIR: in the caller, stores of nil under the remove-lower flag may hit only " +
		"minimum/exclusiveMinimum, under the remove-upper flag only maximum/exclusiveMaximum. B-ALIAS: getMinIntType (a type chooser) must not store through a pointer that " +
		"may be its caller's own data, directly or handed back by NormalizeBounds. " +
		"Decided: which keyword each argument/flag/store refers to, and absence of in-place mutation. Not decided here: the arithmetic of the type tables (planned: region-domain " +
		"abstract interpretation), float64 rounding at the 64-bit limits."
	a := engb.New(c.Prog)
	r := a.BoundRoles()
	emit(c, r.Results)
	c.Floor("B-ROLE", r.Sites, 6, "role-checked call sites and flags")
	emit(c, a.WritesThroughInput("pkg/codegen.getMinIntType"))
}
