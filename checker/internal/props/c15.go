package props

import (
	"verif/checker/internal/core"
	"verif/checker/internal/engb"
	"verif/checker/internal/fam"
	"verif/checker/internal/gen"
)

func init() { Registry["C15"] = C15 }

// C15 — --min-sized-ints never changes which documents are accepted.
func C15(c *core.Ctx) {
	c.Explanation = "B-ROLE: bound roles originate at the json struct tags of schemas.Type (minimum, maximum, exclusiveMinimum, exclusiveMaximum) and are followed " +
		"through loads, address-of, struct-literal fields and parameter binding to a fixpoint; every call of NormalizeBounds / getMinIntType must pass the four " +
		"keywords in the contract order, the (lower, upper) results must feed the two type tables in that order, and in each table row the min-removal flag may " +
		"depend only on the lower bound and the max-removal flag only on the upper bound. B-PAIR: in the caller, stores of nil under the remove-lower flag may hit only " +
		"minimum/exclusiveMinimum, under the remove-upper flag only maximum/exclusiveMaximum. B-ALIAS: getMinIntType (a type chooser) must not store through a pointer that " +
		"may be its caller's own data, directly or handed back by NormalizeBounds. " +
		"B-SIZED: getMinIntType (with both type tables) is interpreted abstractly over the region domain — each bound a symbolic integer, every comparison with a constant splitting the world, so the " +
		"worlds are exactly the cells of the line cut by the constants the code mentions; in every feasible cell the chosen type must hold the whole cell of each stated bound, be 64 bits wide on a side " +
		"without bound, be unsigned iff the lower bound is known non-negative, be the narrowest such type, and a removal flag may be set only where the cell is the single point equal to the type's own limit. " +
		"Decided: which keyword each argument/flag/store refers to, absence of in-place mutation, and the width/sign/removal table for integral bounds (exhaustive over cells). " +
		"Not decided: float64 rounding at the 64-bit limits, fractional bounds, the ±1 adjustment for exclusive bounds inside getMinIntType (exclusive kinds are passed as absent here)."
	a := engb.New(c.Prog)
	r := a.BoundRoles()
	emit(c, r.Results)
	c.Floor("B-ROLE", r.Sites, 6, "role-checked call sites and flags")
	emit(c, a.WritesThroughInput("pkg/codegen.getMinIntType"))
	ruleSizedTable(c)
	ruleSizedFamilies(c, []string{"required", "optional", "def-required"}, 30)
}

// ruleSizedFamilies: the whole generator under --min-sized-ints on integer properties with integral bounds in every form; in every world
// (= cell of each bound between the type limits) each stated bound is either enforced by an emitted branch or implied by the range of the
// Go type of the field, no unstated bound is enforced, and the type holds every admitted integer (A-SIZED).
func ruleSizedFamilies(c *core.Ctx, poss []string, floor int) {
	cfg := gen.DefaultConfig()
	cfg.MinSizedInts = true
	rules := ruleSet("A-SIZED", "A-REJ", "A-NOEXTRA", "A-NILG")
	type form struct {
		kws        []string
		emin, emax string
	}
	forms := []form{
		{[]string{"minimum"}, "", ""}, {[]string{"maximum"}, "", ""}, {[]string{"minimum", "maximum"}, "", ""},
		{nil, "num", ""}, {nil, "", "num"}, {[]string{"maximum"}, "num", ""}, {[]string{"minimum"}, "", "num"},
		{[]string{"minimum"}, "true", ""}, {[]string{"maximum"}, "", "true"}, {[]string{"minimum", "maximum"}, "true", ""}, {[]string{"minimum", "maximum"}, "", "true"},
		{[]string{"minimum"}, "false", ""},
	}
	if c.Tier == "thorough" {
		forms = append(forms, form{nil, "num", "num"}, form{[]string{"minimum", "maximum"}, "true", "true"}, form{[]string{"minimum"}, "num", ""}, form{[]string{"maximum"}, "", "num"})
	}
	for _, pos := range poss {
		for _, f := range forms {
			sp := &fam.Spec{Kind: "integer", Kw: f.kws, EMin: f.emin, EMax: f.emax, IntBounds: true}
			mb := member{name: "sized integer " + pos + " " + sp.String(), cfg: cfg, root: place(sp, pos)}
			runMemberOpt(c, mb, rules, 4000, true, checkRoot)
			// the same form with FRACTIONAL limits (a limit of 254.6 admits 254, one of -0.5 admits 0): the cells of the limit are
			// then cut where the smallest / largest admitted integer changes
			has := func(k string) bool { return len(f.kws) > 0 && (f.kws[0] == k || f.kws[len(f.kws)-1] == k) }
			if (f.emin == "num" && has("minimum")) || (f.emax == "num" && has("maximum")) {
				continue
			}
			fs := &fam.Spec{Kind: "integer", Kw: f.kws, EMin: f.emin, EMax: f.emax, FracBounds: true}
			runMemberOpt(c, member{name: "sized integer " + pos + " " + fs.String(), cfg: cfg, root: place(fs, pos)}, rules, 8000, true, checkRoot)
		}
	}
	if floor <= 30 {
		// a definition with bounded integers that is used on its own AND as an allOf branch: the type chosen and the checks kept
		// for the second visit of the same schema nodes must be the ones of the first
		ib := func(kws ...string) *fam.Spec { return &fam.Spec{Kind: "integer", Kw: kws, IntBounds: true} }
		shared := objSpec(&fam.Prop{Label: "n", Spec: ib("minimum", "maximum")}, &fam.Prop{Label: "m", Spec: ib("maximum")})
		shared.Ref = "$defs"
		comp := &fam.Spec{Kind: "object", AllOf: []*fam.Spec{shared, objSpec(&fam.Prop{Label: "x", Spec: &fam.Spec{Kind: "string"}})}}
		mb := member{name: "sized integers in a definition used on its own and as an allOf branch", cfg: cfg,
			root: objSpec(&fam.Prop{Label: "plain", Spec: shared}, &fam.Prop{Label: "comp", Spec: comp})}
		runMemberOpt(c, mb, rules, 8000, true, func(w *fam.World, fm *fam.FileModel) []fam.Issue {
			is := checkRoot(w, fm)
			for i := range is {
				is[i].Construct = "[second visit of a definition's integers through allOf] " + is[i].Construct
			}
			return is
		})
	}
	if floor <= 30 {
		for _, pos := range []string{"required", "optional"} {
			sp := &fam.Spec{Kind: "array", Items: &fam.Spec{Kind: "integer", Kw: []string{"minimum", "maximum"}, IntBounds: true}}
			runMemberOpt(c, member{name: "sized integers as array elements " + pos, cfg: cfg, root: place(sp, pos)}, rules, 4000, true, checkRoot)
		}
	}
	if floor <= 30 {
		// the flag is a property of the RUN: an integer generated after a map-typed property (and after a nested object, an array, an
		// enum) is sized like one generated first
		for _, before := range []*fam.Spec{{Kind: "object", AddProps: "integer"}, {Kind: "object", AddProps: "string"}, {Kind: "array", Items: &fam.Spec{Kind: "string"}}, {Kind: "string", Enum: "strings"}} {
			sp := &fam.Spec{Kind: "object", Props: []*fam.Prop{{Label: "a", Concrete: "aaFirst", Spec: before.Clone()},
				{Label: "z", Concrete: "zzLast", Spec: &fam.Spec{Kind: "integer", Kw: []string{"minimum", "maximum"}, IntBounds: true}, Required: true}}}
			runMemberOpt(c, member{name: "sized integer generated after " + before.String(), cfg: cfg, root: sp}, rules, 4000, true, checkRoot)
		}
	}
	c.Floor("sized families", c.Counts["members"], floor, "sized-integer family members")
}
