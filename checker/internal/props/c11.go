package props

import (
	"fmt"
	"path/filepath"
	"strings"
	"verif/checker/internal/skel"

	"verif/checker/internal/core"
	"verif/checker/internal/engb"
	"verif/checker/internal/fam"
	"verif/checker/internal/gen"
)

func init() { Registry["C11"] = C11 }

func allOfMembers(cfg gen.Config) []member {
	var out []member
	str := func(kws ...string) *fam.Spec { return &fam.Spec{Kind: "string", Kw: kws} }
	obj := func(ps ...*fam.Prop) *fam.Spec { return &fam.Spec{Kind: "object", Props: ps} }
	wrap := func(name string, all *fam.Spec) {
		// as the root, and as a (required / optional) property
		out = append(out, member{name: "allOf root: " + name, cfg: cfg, root: all.Clone()})
		out = append(out, member{name: "allOf property: " + name, cfg: cfg, root: obj(&fam.Prop{Label: "w", Spec: all.Clone(), Required: true})})
		// as a definition that two properties refer to (one type, generated once)
		d := all.Clone()
		d.Ref = "$defs"
		out = append(out, member{name: "allOf definition referenced twice: " + name, cfg: cfg, root: obj(&fam.Prop{Label: "w1", Spec: d, Required: true}, &fam.Prop{Label: "w2", Spec: d})})
	}
	// disjoint properties, each branch with its own required and constraints
	wrap("disjoint", &fam.Spec{Kind: "object", AllOf: []*fam.Spec{
		obj(&fam.Prop{Label: "a", Spec: str("minLength"), Required: true}),
		obj(&fam.Prop{Label: "b", Spec: &fam.Spec{Kind: "integer", Kw: []string{"maximum"}}}, &fam.Prop{Label: "c", Spec: str(), Required: true}),
	}})
	// the same property declared by two branches with different keywords (conjunction)
	wrap("overlap, different keywords", &fam.Spec{Kind: "object", AllOf: []*fam.Spec{
		obj(&fam.Prop{Label: "s", Spec: str("minLength")}),
		obj(&fam.Prop{Label: "s2", SameAs: "s", Spec: str("maxLength"), Required: true}),
	}})
	// the same property typed integer by the first branch and number by the second: the conjunction is an integer
	wrap("overlap, integer then number", &fam.Spec{Kind: "object", AllOf: []*fam.Spec{
		obj(&fam.Prop{Label: "n", Spec: &fam.Spec{Kind: "integer", Kw: []string{"minimum"}}, Required: true}),
		obj(&fam.Prop{Label: "n2", SameAs: "n", Spec: &fam.Spec{Kind: "number", Kw: []string{"maximum"}}}),
	}})
	// an object-valued property declared by the first branch and refined by the second with further required members
	wrap("overlap, nested object refined by a later branch", &fam.Spec{Kind: "object", AllOf: []*fam.Spec{
		obj(&fam.Prop{Label: "target", Spec: obj(&fam.Prop{Label: "host", Spec: str(), Required: true}), Required: true}),
		obj(&fam.Prop{Label: "target2", SameAs: "target", Spec: obj(&fam.Prop{Label: "region", Spec: str(), Required: true}, &fam.Prop{Label: "note", Spec: str("maxLength")})}),
	}})
	// the same keyword stated by two branches: both limits must hold
	wrap("overlap, same keyword twice", &fam.Spec{Kind: "object", AllOf: []*fam.Spec{
		obj(&fam.Prop{Label: "s", Spec: str("maxLength")}),
		obj(&fam.Prop{Label: "s2", SameAs: "s", Spec: str("maxLength")}),
	}})
	// a constraint-only branch: required for a property declared by a sibling
	wrap("constraint-only branch adds required", &fam.Spec{Kind: "object", AllOf: []*fam.Spec{
		obj(&fam.Prop{Label: "note", Spec: str()}, &fam.Prop{Label: "id", Spec: &fam.Spec{Kind: "integer"}, Required: true}),
		{Kind: "any", ReqOnly: []string{"note"}},
	}})
	// a referenced branch
	base := obj(&fam.Prop{Label: "note", Spec: str("minLength")}, &fam.Prop{Label: "id", Spec: &fam.Spec{Kind: "integer"}, Required: true})
	base.Ref = "$defs"
	wrap("referenced branch + constraint-only branch", &fam.Spec{Kind: "object", AllOf: []*fam.Spec{base, {Kind: "any", ReqOnly: []string{"note"}}}})
	// one definition as the first branch of two compositions that extend it differently (the merge must not write into the shared base)
	{
		shared := obj(&fam.Prop{Label: "nm", Spec: str("minLength"), Required: true})
		shared.Ref = "$defs"
		cat := &fam.Spec{Kind: "object", AllOf: []*fam.Spec{shared, obj(&fam.Prop{Label: "tag", Spec: &fam.Spec{Kind: "integer", Kw: []string{"minimum"}}}, &fam.Prop{Label: "lives", Spec: &fam.Spec{Kind: "integer"}, Required: true})}}
		dog := &fam.Spec{Kind: "object", AllOf: []*fam.Spec{shared, obj(&fam.Prop{Label: "tag2", SameAs: "tag", Spec: str("maxLength")}, &fam.Prop{Label: "tricks", Spec: str()})}}
		out = append(out, member{name: "allOf: one base definition extended by two compositions", cfg: cfg, root: obj(&fam.Prop{Label: "cat", Spec: cat, Required: true}, &fam.Prop{Label: "dog", Spec: dog}, &fam.Prop{Label: "plain", Spec: shared})})
	}
	// a composition re-declares properties of the referenced base with further keywords: the base's own type keeps exactly its own
	{
		arr := func(kws ...string) *fam.Spec { return &fam.Spec{Kind: "array", Items: str(), Kw: kws} }
		shared := obj(&fam.Prop{Label: "code", Spec: str("minLength")}, &fam.Prop{Label: "hosts", Spec: arr("maxItems")}, &fam.Prop{Label: "n", Spec: &fam.Spec{Kind: "integer", Kw: []string{"minimum"}}})
		shared.Ref = "$defs"
		comp := &fam.Spec{Kind: "object", AllOf: []*fam.Spec{shared, obj(&fam.Prop{Label: "code2", SameAs: "code", Spec: str("maxLength", "pattern")}, &fam.Prop{Label: "hosts2", SameAs: "hosts", Spec: arr("minItems")},
			&fam.Prop{Label: "n2", SameAs: "n", Spec: &fam.Spec{Kind: "integer", Kw: []string{"maximum"}}})}}
		out = append(out, member{name: "allOf: a composition tightens properties of its referenced base; the base is also used on its own", cfg: cfg,
			root: obj(&fam.Prop{Label: "comp", Spec: comp, Required: true}, &fam.Prop{Label: "plain", Spec: shared})})
	}
	// two compositions over one base; the FIRST restates a base property with a further keyword: the second must not inherit it
	{
		shared := obj(&fam.Prop{Label: "n", Spec: &fam.Spec{Kind: "integer", Kw: []string{"minimum"}}})
		shared.Ref = "$defs"
		first := &fam.Spec{Kind: "object", AllOf: []*fam.Spec{shared, obj(&fam.Prop{Label: "n1", SameAs: "n", Spec: &fam.Spec{Kind: "integer", Kw: []string{"maximum"}}})}}
		second := &fam.Spec{Kind: "object", AllOf: []*fam.Spec{shared, obj(&fam.Prop{Label: "x", Spec: str()})}}
		out = append(out, member{name: "allOf pollution: the first of two compositions over one base restates a base property", cfg: cfg, tag: "second composition over a base that an earlier composition restated",
			root: obj(&fam.Prop{Label: "first", Spec: first, Required: true}, &fam.Prop{Label: "second", Spec: second})})
	}
	// a branch without a "type" keyword FIRST (properties only / required only), followed by a typed or referenced object branch
	{
		untyped := obj(&fam.Prop{Label: "u", Spec: str("minLength"), Required: true})
		untyped.NoType = true
		wrap("untyped branch first", &fam.Spec{Kind: "object", AllOf: []*fam.Spec{untyped, obj(&fam.Prop{Label: "v", Spec: &fam.Spec{Kind: "integer", Kw: []string{"maximum"}}, Required: true})}})
		base2 := obj(&fam.Prop{Label: "note", Spec: str("minLength")}, &fam.Prop{Label: "id", Spec: &fam.Spec{Kind: "integer"}, Required: true})
		base2.Ref = "$defs"
		wrap("required-only branch first, then a referenced branch", &fam.Spec{Kind: "object", AllOf: []*fam.Spec{{Kind: "any", ReqOnly: []string{"note"}}, base2}})
	}
	// a referenced base whose `required` names, BEFORE its own property, one that only the sibling branch declares
	{
		ev := obj(&fam.Prop{Label: "id", Spec: str(), Required: true})
		ev.Ref, ev.ReqAlso = "$defs", []string{"kind"}
		wrap("referenced base also requires a sibling's property (listed first)", &fam.Spec{Kind: "object", AllOf: []*fam.Spec{ev,
			obj(&fam.Prop{Label: "kind", Spec: str()}, &fam.Prop{Label: "x", Spec: &fam.Spec{Kind: "integer"}})}})
	}
	// a constraint-only branch given BY REFERENCE (a "mixin" definition that only lists required names): the generator may refuse it,
	// but it must not report success with the branch's required names dropped
	{
		mixin := &fam.Spec{Kind: "any", ReqOnly: []string{"note"}, Ref: "$defs"}
		out = append(out, member{name: "allOf: referenced required-only branch", cfg: cfg, mayFail: true, root: obj(&fam.Prop{Label: "c", Required: true, Spec: &fam.Spec{Kind: "object", AllOf: []*fam.Spec{
			obj(&fam.Prop{Label: "note", Spec: str()}, &fam.Prop{Label: "id", Spec: &fam.Spec{Kind: "integer"}, Required: true}), mixin}}})})
	}
	// branches that are NULLABLE objects (type: ["object","null"]): still object branches — the composition is a struct with the
	// union of their properties, not the empty schema
	{
		nb := obj(&fam.Prop{Label: "nm", Spec: str("minLength"), Required: true})
		nb.Null = "after"
		nb.Ref = "$defs"
		wrap("nullable-object referenced branch + object branch", &fam.Spec{Kind: "object", AllOf: []*fam.Spec{nb, obj(&fam.Prop{Label: "x", Spec: &fam.Spec{Kind: "integer", Kw: []string{"maximum"}}, Required: true})}})
		n1 := obj(&fam.Prop{Label: "a", Spec: str(), Required: true})
		n1.Null = "after"
		n2 := obj(&fam.Prop{Label: "b", Spec: &fam.Spec{Kind: "integer"}, Required: true})
		n2.Null = "after"
		wrap("two inline nullable-object branches", &fam.Spec{Kind: "object", AllOf: []*fam.Spec{n1, n2}})
	}
	// two branches that each require a property of their own whose names differ only in CASE (url / URL): two names, both required
	wrap("required names that differ only in case", &fam.Spec{Kind: "object", AllOf: []*fam.Spec{
		obj(&fam.Prop{Label: "lo", Concrete: "url", Spec: str(), Required: true}),
		obj(&fam.Prop{Label: "up", Concrete: "URL", Spec: str(), Required: true})}})
	// three and four branches
	for n := 3; n <= 4; n++ {
		var bs []*fam.Spec
		for i := 0; i < n; i++ {
			bs = append(bs, obj(&fam.Prop{Label: fmt.Sprintf("p%d", i), Spec: str(), Required: i%2 == 0}))
		}
		wrap(fmt.Sprintf("%d disjoint branches", n), &fam.Spec{Kind: "object", AllOf: bs})
	}
	return out
}

// runCompositions runs the composition members in which a referenced definition is merged with branches that restate its
// properties, and keeps the issues about the given keywords: the constraints emitted for a type are the ones ITS schema states,
// whatever was merged from it elsewhere (validators must not read schema nodes that a later merge wrote to).
func runCompositions(c *core.Ctx, rules map[string]bool, words ...string) {
	for _, mb := range allOfMembers(gen.DefaultConfig()) {
		if !strings.HasPrefix(mb.name, "allOf: ") {
			continue
		}
		runMember(c, mb, rules, 256, func(w *fam.World, fm *fam.FileModel) []fam.Issue {
			var keep []fam.Issue
			for _, is := range checkRoot(w, fm) {
				for _, wd := range words {
					if strings.Contains(is.Msg, wd) || strings.Contains(is.Construct, wd) {
						keep = append(keep, is)
						break
					}
				}
			}
			return keep
		})
	}
}

// C11 — allOf is conjunction and anyOf is disjunction for object schemas.
func C11(c *core.Ctx) {
	c.Explanation = engineAText +
		"C11. anyOf (A-ANYOF): for 1..4 object branches, as root and as a property, plus map-only branches: the merged type's Unmarshal methods try every branch type (one attempt per branch), fail iff " +
		"len(errs) equals the number of branches, every branch type has the unmarshaler that is called on it and enforces its own required/constraints (the C04/C05/C06 oracles applied per branch), the merged " +
		"type exposes the union of the properties. allOf: the branch merge is delegated to mergo, which is MODELLED (summary stated in the assumptions); on that model the emitted single struct is compared " +
		"with the specification of allOf — union of properties, a property declared by several branches carries the constraints of all of them, union of required (also from a constraint-only branch and through " +
		"a referenced branch, a branch in another file whose properties refer by fragment into that file), 2..4 branches, as root and as a property. B-ERR instance: an unresolvable branch reference is an error. " +
		"B-REFCACHE: the branch-resolution cache keyed by the raw $ref string belongs to the per-file generator object. " +
		"Not decided: branch-order dependence beyond these families; non-object branches; the fidelity of the mergo model itself."
	rules := ruleSet("A-ANYOF", "A-REQ", "A-REJ", "A-NOEXTRA", "A-NILG", "A-TAG", "A-MAP", "A-TYP")
	skel.DepsDir = filepath.Join(c.VerifDir, "checker", "testdata", "emitdeps")
	cfg := gen.DefaultConfig()
	ms := anyOfMembers(c.Tier, cfg)
	ms = append(ms, allOfMembers(cfg)...)
	for _, mb := range ms {
		runMember(c, mb, rules, 256, func(w *fam.World, fm *fam.FileModel) []fam.Issue {
			var keep []fam.Issue
			for _, is := range checkRoot(w, fm) {
				switch is.Rule {
				case "A-REJ:chars", "A-REJ:lossy", "A-ERRDROP2":
					continue // value-level findings that belong to C05/C06
				}
				keep = append(keep, is)
			}
			// the composed types must be declared once and compile (a definition referenced twice is generated once)
			return append(keep, w.TypIssues(c.Prog.Repo)...)
		})
	}
	// branches given by reference into ANOTHER file: the merged struct is built by the referring file's generator from the other
	// document's nodes, whose fragment-only references still mean their own document
	ruleMultiSel(c, ruleSet("A-GENERR", "A-REQ", "A-REJ", "A-NOEXTRA", "A-MAP", "A-TYP"), 2, "an allOf branch in another file", "allOf branch in two files", "recursive through #")
	// the alias of a referenced anyOf branch is built anew on every visit: Package.AddDecl keeps one (A-DECLSET)
	ruleDeclSet(c)
	c.Floor("families", c.Counts["members"], 24, "family members")
	a := engb.New(c.Prog)
	emit(c, a.RefCacheScope())
	// the in-scope marker set around an anyOf branch is released on every path: a leaked marker makes every later anyOf over that
	// definition look cyclic (interface{}, no branch tried)
	emit(c, a.Cycle())
	emit(c, a.MergoModelAssumptions())
	ruleBErr(c, a, func(s *engb.ErrSite) bool {
		fn := c.Prog.FuncName(s.Fn)
		return fn == "(*pkg/generator.schemaGenerator).resolveRefs" || fn == "(*pkg/generator.schemaGenerator).generateAnyOfType" || fn == "(*pkg/generator.schemaGenerator).generateAllOfType"
	})
}
