package props

import (
	"verif/checker/internal/core"
	"verif/checker/internal/fam"
	"verif/checker/internal/gen"
)

// numericMembers: integer/number × positions × keyword subsets × exclusive-bound kinds.
func numericMembers(tier string, cfg gen.Config) []member {
	var out []member
	poss := positions
	emaxs := []string{"", "true", "false", "num"}
	if tier != "thorough" {
		poss = []string{"required", "optional", "def-optional"}
		emaxs = []string{"", "num"}
	}
	for _, kind := range []string{"integer", "number"} {
		for _, pos := range poss {
			for _, kws := range subsets([]string{"minimum", "maximum", "multipleOf"}) {
				for _, emin := range []string{"", "true", "false", "num"} {
					for _, emax := range emaxs {
						sp := &fam.Spec{Kind: kind, Kw: kws, EMin: emin, EMax: emax}
						out = append(out, member{name: kind + " " + pos + " " + sp.String(), cfg: cfg, root: place(sp, pos)})
					}
				}
			}
		}
	}
	return out
}

func c05Families(c *core.Ctx) {
	rules := ruleSet("A-REJ", "A-NOEXTRA", "A-NILG", "A-DEF")
	ms := numericMembers(c.Tier, gen.DefaultConfig())
	// bounded numerics that also carry a default: an absent value must be checked as the default, i.e. after it is applied
	for _, kind := range []string{"integer", "number"} {
		for _, kws := range [][]string{{"minimum"}, {"maximum", "multipleOf"}, {"minimum", "maximum"}} {
			for _, pos := range []string{"optional", "required"} {
				sp := &fam.Spec{Kind: kind, Kw: kws, Default: "scalar"}
				ms = append(ms, member{name: kind + " with default " + pos + " " + sp.String(), cfg: gen.DefaultConfig(), root: place(sp, pos)})
			}
		}
	}
	// a width-hint format (OpenAPI: float, double, int32, int64) is an annotation: the bounds stay enforced whatever it is
	for _, kf := range [][2]string{{"number", "float"}, {"number", "double"}, {"integer", "int32"}, {"integer", "int64"}} {
		for _, pos := range []string{"required", "optional"} {
			sp := &fam.Spec{Kind: kf[0], Format: kf[1], Kw: []string{"minimum", "maximum", "multipleOf"}}
			ms = append(ms, member{name: kf[0] + " with width-hint format " + pos + " " + sp.String(), cfg: gen.DefaultConfig(), root: place(sp, pos)})
		}
	}
	// numerics whose field is only renamed by a goJSONSchema.identifier block keep every check
	for _, kind := range []string{"integer", "number"} {
		for _, pos := range []string{"ext-required", "ext-optional"} {
			for _, kws := range [][]string{{"minimum"}, {"maximum", "multipleOf"}} {
				sp := &fam.Spec{Kind: kind, Kw: kws}
				ms = append(ms, member{name: kind + " " + pos + " " + sp.String(), cfg: gen.DefaultConfig(), root: place(sp, pos)})
			}
		}
	}
	// the nullable positions (type lists with null in either order) are part of the full product in the thorough tier; the quick
	// tier keeps a cross-section of them, because a nullable primitive reaches the validators through a different type (pointer) path
	if c.Tier != "thorough" {
		for _, kind := range []string{"integer", "number"} {
			for _, pos := range []string{"nullable-required", "nullable-optional"} {
				for _, kws := range [][]string{{"minimum"}, {"maximum"}, {"minimum", "maximum", "multipleOf"}} {
					for _, emin := range []string{"", "num"} {
						sp := &fam.Spec{Kind: kind, Kw: kws, EMin: emin}
						ms = append(ms, member{name: kind + " " + pos + " " + sp.String(), cfg: gen.DefaultConfig(), root: place(sp, pos)})
					}
				}
			}
		}
	}
	for _, mb := range ms {
		runMember(c, mb, rules, 256, func(w *fam.World, fm *fam.FileModel) []fam.Issue {
			return w.CheckObject(fm, w.Spec, "", "root")
		})
	}
}
