package props

import (
	"strings"

	"verif/checker/internal/core"
	"verif/checker/internal/engb"
	"verif/checker/internal/fam"
	"verif/checker/internal/gen"
)

func init() { Registry["C02"] = C02 }

// C02 — valid documents are accepted and decoded without loss.
func C02(c *core.Ctx) {
	c.Explanation = engineAText +
		"C02 decides necessary conditions only. A-TAG: over the type, required, array, default and additionalProperties families under three tag lists (default, json only, json+mapstructure) every configured " +
		"tag of every field carries the raw property-name atom untransformed, omitempty exactly for optional properties. A-MAP: the Go type chosen for each (schema type, format, nullability, position) is the " +
		"oracle's, so decoding neither truncates nor coerces. A-NOEXTRA: over the broad union of families no emitted unmarshaler contains a reject branch that is not attributable to a keyword stated in the " +
		"abstract schema, and no presence test for an optional or defaulted property (valid documents are not over-rejected by construction). A-OVERREJ: a branch that IS attributable to a keyword rejects no more than the keyword does — " +
		"the operator is not weaker-than-strict where the schema is strict and not the other direction, and a limit that was rounded before printing pairs with the operator that makes it exact for fractional limits " +
		"(value < ceil(b) = value <= floor(b) is the reject set of both value < b and value <= b). B-SIZED: with --min-sized-ints the chosen integer type holds every " +
		"admitted value in every cell of the width table (region-domain interpretation, shared with C15), and A-SIZED decides the same end to end on optional integer properties in every bound form. B-LAYOUT: in pkg/types each MarshalJSON prints with the layout constant its sibling UnmarshalJSON parses " +
		"with, on every return path. B-ADDPROPS: both emitters delete the declared keys from the raw map before collecting the remainder; A-SHADOW: in the emitted block the declared keys are enumerated by reflection over the shadow type of the decoded value, also when the schema declares a type of that very name. " +
		"Not decided: value equality after a round trip, numeric precision, RFC 3339 conformance of the layouts, encoding/json's case-insensitive key matching — runtime quantities."
	rules := ruleSet("A-TAG", "A-MAP", "A-NOEXTRA", "A-OVERREJ", "A-SHADOW", "A-COLLECT", "A-REJ")
	d := gen.DefaultConfig()
	j := d
	j.Tags = []string{"json"}
	jm := d
	jm.Tags = []string{"json", "mapstructure"}
	for ci, cfg := range []gen.Config{d, j, jm} {
		var ms []member
		ms = append(ms, typeMembers(c.Tier, cfg)...)
		ms = append(ms, requiredMembers(c.Tier, cfg)...)
		if ci == 0 {
			ms = append(ms, broadMembers(c.Tier, cfg)...)
		}
		for i, mb := range ms {
			if ci > 0 && c.Tier != "thorough" && i%2 == 1 {
				continue
			}
			runMember(c, mb, rules, 256, func(w *fam.World, fm *fam.FileModel) []fam.Issue {
				var keep []fam.Issue
				keep = append(keep, unionTypeIssues(mb.name, fm)...)
				for _, is := range checkRoot(w, fm) {
					if is.Rule == "A-REJ" && strings.Contains(is.Construct, "nested check does not measure") {
						// a check that indexes another array than the one being iterated refuses valid documents (or panics on them)
						keep = append(keep, is)
					}
					if is.Rule == "A-NOEXTRA" || is.Rule == "A-TAG" || is.Rule == "A-MAP" || is.Rule == "A-OVERREJ" {
						// nested-array limits (C07) surface here as extra branches as well: they are listed under C07
						if is.Rule == "A-NOEXTRA" && strings.Contains(is.Msg, "Items") && !strings.Contains(is.Construct, "declared array type") {
							continue
						}
						keep = append(keep, is)
					}
				}
				for _, is := range fam.MethodIssues(fm) {
					if is.Rule == "A-SHADOW" || is.Rule == "A-COLLECT" {
						keep = append(keep, is)
					}
				}
				return keep
			})
		}
	}
	// a value the document states is never replaced by the default: the default is assigned only under "the property's own key is absent
	// or null" (A-DEF guard clauses on the default members, shared with C09)
	for _, mb := range defaultMembers(c.Tier, gen.DefaultConfig()) {
		runMember(c, mb, ruleSet("A-DEF"), 256, func(w *fam.World, fm *fam.FileModel) []fam.Issue {
			var out []fam.Issue
			for _, is := range checkRoot(w, fm) {
				// (null for a non-nullable defaulted property is not a VALID document: that clause is C09's alone)
				if is.Rule == "A-DEF" && strings.Contains(is.Construct, "guard") {
					out = append(out, is)
				}
			}
			return out
		})
	}
	// a composition is built from THIS file's definitions also when another file of the run uses the same reference text
	ruleMultiSel(c, ruleSet("A-MAP", "A-TAG", "A-REQ", "A-NOEXTRA", "A-REJ"), 2, "allOf branch in two files")
	// a value lands in its field only if the field is exported (A-IDENT, shared with C14)
	ruleIdent(c)
	c.Floor("families", c.Counts["members"], 600, "family members")
	a := engb.New(c.Prog)
	// the tag list decides which key each field is bound to: the CLI hands the generator the list the user wrote (B-FLAG)
	emit(c, a.FlagWiring("main.main", "main.init$1", "generator.Config"))
	emit(c, a.Layout())
	emit(c, a.AddPropsBlock())
	// a valid document is judged by the definitions its schema states under "$defs" (a legacy "definitions" entry of the same name
	// does not replace them)
	ruleDefsAsWritten(c)
	ruleSizedTable(c)
	// ... and end to end: the generator under --min-sized-ints on integer properties with integral bounds in every form never picks a
	// type that cannot hold an admitted value and never enforces an unstated bound (A-SIZED families, shared with C15/C05)
	ruleSizedFamilies(c, []string{"optional"}, 600)
}
