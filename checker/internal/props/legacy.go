package props

import (
	"fmt"
	"go/types"
	"os"
	"reflect"
	"strings"
	"verif/checker/internal/engb"

	"verif/checker/internal/absint"
	"verif/checker/internal/core"
	"verif/checker/internal/gen"
)

// ruleLegacySemantic (A-LEGACY): Schema.UnmarshalJSON and Type.UnmarshalJSON are interpreted abstractly on the legacy and
// the current spelling of one document (flat objects with symbolic member values, on the stated model of
// encoding/json): both must succeed and leave the same model (the raw legacy field LegacyID apart), and when both
// keywords are present the current one wins. Insensitive to how the fold is written (if/else, cmp.Or, an accessor).
type legacyVerdict struct {
	ok, undecided bool
	msg           string
	// overrides: the decoder itself lets the legacy keyword change what the current one stated (both present): no fold discipline
	// elsewhere can repair that, so the SSA fallback does not apply
	overrides bool
}

// legacySemantic returns the verdict per "<Type>|<legacy keyword>".
func legacySemantic(c *core.Ctx) map[string]legacyVerdict {
	out := map[string]legacyVerdict{}
	type res struct {
		errNil bool
		val    string
	}
	run := func(typeName string, mk func(g *gen.G) absint.JSONObj) (*res, string) {
		runs, complete := absint.Explore(c.Prog, 64, func(m *absint.Machine) { gen.InstallStubs(m) }, func(m *absint.Machine) any {
			g := gen.New(m)
			T := g.Type("pkg/schemas", typeName)
			target := m.NewPtr(m.Zero(T), "decode target")
			r := g.Method("pkg/schemas", typeName, "UnmarshalJSON", target, mk(g))
			v := *target.P
			// the raw legacy field is not part of the model the generator reads
			if st, ok := T.Underlying().(*types.Struct); ok {
				if sv, ok := v.(absint.Struct); ok {
					for i := 0; i < st.NumFields(); i++ {
						if st.Field(i).Name() == "LegacyID" {
							sv.F[i] = absint.Str{}
						}
					}
					v = sv
				}
			}
			return &res{errNil: absint.IsNilValue(r), val: absint.DebugValue(v)}
		})
		noteRuns(c, runs)
		if !complete || len(runs) != 1 {
			return nil, fmt.Sprintf("%d worlds, complete=%v", len(runs), complete)
		}
		if runs[0].Err != nil {
			return nil, runs[0].Err.Error()
		}
		return runs[0].Out.(*res), ""
	}
	str := func(name string) func(g *gen.G) absint.Value {
		return func(g *gen.G) absint.Value { return g.Raw(name, true) }
	}
	mem := func(name string) func(g *gen.G) absint.Value {
		return func(g *gen.G) absint.Value { return absint.JSONMember1{Name: g.Raw(name, true)} }
	}
	type pair struct {
		typ, legacy, current string
		val, other           func(g *gen.G) absint.Value
	}
	pairs := []pair{
		{"Schema", "id", "$id", str("identifier"), str("other identifier")},
		{"Schema", "definitions", "$defs", mem("definition name"), mem("other definition name")},
		{"Type", "definitions", "$defs", mem("definition name"), mem("other definition name")},
		{"Type", "dependencies", "dependentSchemas", mem("dependency name"), mem("other dependency name")},
	}
	for _, p := range pairs {
		fn := "(*pkg/schemas." + p.typ + ").UnmarshalJSON"
		one := func(key string) func(g *gen.G) absint.JSONObj {
			return func(g *gen.G) absint.JSONObj {
				return absint.JSONObj{Keys: []string{key}, Vals: []absint.Value{p.val(g)}}
			}
		}
		// atoms are numbered per run: build the documents so that "the value" is atom #1 in every run
		both := func(g *gen.G) absint.JSONObj {
			v := p.val(g)
			o := p.other(g)
			return absint.JSONObj{Keys: []string{p.current, p.legacy}, Vals: []absint.Value{v, o}}
		}
		bothRev := func(g *gen.G) absint.JSONObj {
			v := p.val(g)
			o := p.other(g)
			return absint.JSONObj{Keys: []string{p.legacy, p.current}, Vals: []absint.Value{o, v}}
		}
		cur, e1 := run(p.typ, one(p.current))
		leg, e2 := run(p.typ, one(p.legacy))
		b1, e3 := run(p.typ, both)
		b2, e4 := run(p.typ, bothRev)
		if os.Getenv("VCHECK_LEGACY_DEBUG") != "" && cur != nil && leg != nil {
			fmt.Printf("LEGACY %s %s: cur=%s\n   leg=%s\n", p.typ, p.legacy, cur.val, leg.val)
		}
		key := fmt.Sprintf("%q and %q spell the same thing", p.legacy, p.current)
		_, _ = fn, key
		k := p.typ + "|" + p.legacy
		if e1+e2+e3+e4 != "" {
			out[k] = legacyVerdict{undecided: true, msg: "interpretation undecided: " + e1 + " " + e2 + " " + e3 + " " + e4}
			continue
		}
		switch {
		case !cur.errNil || !leg.errNil || !b1.errNil || !b2.errNil:
			out[k] = legacyVerdict{msg: fmt.Sprintf("a spelling is rejected by the decoder (error nil: current=%v legacy=%v both=%v/%v)", cur.errNil, leg.errNil, b1.errNil, b2.errNil)}
		case cur.val != leg.val && otherFieldsDiffer(cur.val, leg.val, ownFields(c, p.typ, p.current, p.legacy)):
			// the two spellings leave different models in fields that are NOT the pair's own: no fold elsewhere explains that
			out[k] = legacyVerdict{overrides: true, msg: fmt.Sprintf("{%q: v} decodes to %s but {%q: v} decodes to %s — the spellings differ in a field other than the keyword's own", p.current, cur.val, p.legacy, leg.val)}
		case cur.val != leg.val:
			out[k] = legacyVerdict{msg: fmt.Sprintf("{%q: v} decodes to %s but {%q: v} decodes to %s", p.current, cur.val, p.legacy, leg.val)}
		case b1.val != cur.val || b2.val != cur.val:
			out[k] = legacyVerdict{overrides: true, msg: fmt.Sprintf("with both keywords present the current one does not win: {%q: v, %q: w} decodes to %s / %s, {%q: v} alone to %s", p.current, p.legacy, b1.val, b2.val, p.current, cur.val)}
		default:
			out[k] = legacyVerdict{ok: true, msg: "the legacy, the current and both mixed documents all decode to " + cur.val}
		}
	}
	return out
}

// legacyPair decides one keyword pair: the decoder itself folds the legacy spelling (A-LEGACY, semantic), or — when the
// fold lives elsewhere — the SSA discipline holds (B-LEGACY: legacy copied only where the current keyword is absent, and
// every read of the current field outside the accessor is reported). Only when both fail is it a violation.
func legacyPair(c *core.Ctx, sem map[string]legacyVerdict, typ, legacy, current string, b func() (bool, string, string)) {
	fn := "(*pkg/schemas." + typ + ").UnmarshalJSON"
	key := legacy + " -> " + current
	v := sem[typ+"|"+legacy]
	if v.ok {
		c.Pass("A-LEGACY", fn, key, v.msg)
		return
	}
	bok, how, pos := b()
	if bok && v.overrides {
		c.Fail("A-LEGACY", fn, key, pos, v.msg+" — the decoder writes the legacy entries over / next to the current ones (the SSA fold discipline sees only whole-field stores: "+how+")", nil)
		return
	}
	if bok {
		c.Pass("B-LEGACY", fn, key, "the decoder alone does not fold ("+v.msg+") but the fold discipline holds on the SSA: "+how)
		return
	}
	if v.undecided {
		c.Undecided("A-LEGACY", fn, key, pos, v.msg+"; and the SSA rule does not hold either: "+how)
		return
	}
	c.Fail("A-LEGACY", fn, key, pos, v.msg+" — and the fold is not found elsewhere either ("+how+")", nil)
}

// ruleDefsAsWritten: the definitions a `#/$defs/X` reference resolves to are the ones the document states under "$defs": the legacy
// "definitions" keyword is read only when "$defs" is absent and never changes an entry of "$defs" (both decoders; A-LEGACY + B-LEGACY).
func ruleDefsAsWritten(c *core.Ctx) {
	a := engb.New(c.Prog)
	sem := legacySemantic(c)
	for _, typ := range []string{"Schema", "Type"} {
		p := engb.LegacyPair{Func: "(*pkg/schemas." + typ + ").UnmarshalJSON", CurTag: "$defs", LegacyTag: "definitions"}
		legacyPair(c, sem, typ, p.LegacyTag, p.CurTag, func() (bool, string, string) {
			r := a.LegacyFold(p)
			if r.OK {
				return true, r.How, r.Pos
			}
			return false, strings.Join(r.Problems, "; "), r.Pos
		})
	}
}

// topFields splits a DebugValue struct dump "{ #i:v #j:w }" into its top-level entries.
func topFields(d string) map[string]string {
	out := map[string]string{}
	d = strings.TrimSpace(d)
	d = strings.TrimSuffix(strings.TrimPrefix(d, "{"), "}")
	depth, start, key := 0, -1, ""
	flush := func(end int) {
		if key != "" {
			out[key] = strings.TrimSpace(d[start:end])
		}
	}
	for i := 0; i < len(d); i++ {
		switch d[i] {
		case '{', '[', '(':
			depth++
		case '}', ']', ')':
			depth--
		case '#':
			if depth == 0 && (i == 0 || d[i-1] == ' ') {
				j := i + 1
				for j < len(d) && d[j] >= '0' && d[j] <= '9' {
					j++
				}
				if j > i+1 && j < len(d) && d[j] == ':' {
					flush(i)
					key, start = d[i:j], j+1
					i = j
				}
			}
		}
	}
	flush(len(d))
	return out
}

// ownFields: the dump keys ("#i") of the struct fields of pkg/schemas.<typ> whose json tags are the pair's own keywords.
func ownFields(c *core.Ctx, typ string, tags ...string) map[string]bool {
	out := map[string]bool{}
	pk := c.Prog.Pkg("pkg/schemas")
	if pk == nil {
		return out
	}
	o := pk.Types.Scope().Lookup(typ)
	if o == nil {
		return out
	}
	st, ok := o.Type().Underlying().(*types.Struct)
	if !ok {
		return out
	}
	for i := 0; i < st.NumFields(); i++ {
		name := strings.Split(reflect.StructTag(st.Tag(i)).Get("json"), ",")[0]
		for _, t := range tags {
			if name == t {
				out[fmt.Sprintf("#%d", i)] = true
			}
		}
	}
	return out
}

// otherFieldsDiffer: the dumps of the current-spelling and the legacy-spelling run differ in a field that is not one of the pair's
// own (a fold that lives elsewhere shows only as: the current field filled in one run, the raw legacy field in the other).
func otherFieldsDiffer(cur, leg string, own map[string]bool) bool {
	a, b := topFields(cur), topFields(leg)
	for k, v := range a {
		if w, ok := b[k]; (!ok || w != v) && !own[k] {
			return true
		}
	}
	for k := range b {
		if _, ok := a[k]; !ok && !own[k] {
			return true
		}
	}
	return false
}
