package props

import (
	"fmt"
	"go/types"
	"os"
	"sort"
	"strings"
	"time"
	"verif/checker/internal/absint"

	"verif/checker/internal/core"
	"verif/checker/internal/fam"
	"verif/checker/internal/gen"
)

// position places a value spec in a root object in one of the standard positions.
var positions = []string{"required", "optional", "nullable-required", "nullable-optional", "def-required", "def-optional"}

func place(s *fam.Spec, pos string) *fam.Spec {
	v := s.Clone()
	p := &fam.Prop{Label: "p", Spec: v}
	switch pos {
	case "required":
		p.Required = true
	case "optional":
	case "nullable-required":
		v.Null = "after"
		p.Required = true
	case "nullable-optional":
		v.Null = "before"
	case "def-required":
		v.Ref = "$defs"
		p.Required = true
	case "def-optional":
		v.Ref = "definitions"
	case "ext-required":
		// a goJSONSchema block that only renames the field (identifier): the Go type and every constraint stay what they are
		p.Required = true
		p.ExtIdent = true
	case "ext-optional":
		p.ExtIdent = true
	}
	return &fam.Spec{Kind: "object", Props: []*fam.Prop{p}}
}

func subsets(kws []string) [][]string {
	var out [][]string
	for m := 0; m < 1<<len(kws); m++ {
		var s []string
		for i, k := range kws {
			if m&(1<<i) != 0 {
				s = append(s, k)
			}
		}
		out = append(out, s)
	}
	return out
}

// member is one family member under one configuration.
type member struct {
	name string
	cfg  gen.Config
	root *fam.Spec
	tag  string // when set, findings on this member are keyed by the scenario: "[tag] construct"
	// mayFail: the generator may refuse this schema (a loud failure satisfies the property); what is checked is that IF it reports
	// success the emitted code enforces the schema
	mayFail bool
	noTwin  bool // internal: this member is already the default-mode twin of another
}

// runMember explores a member and hands each world to check; bookkeeping of
// obligations, run failures and budgets is shared.
func runMember(c *core.Ctx, mb member, rules map[string]bool, budget int, check func(w *fam.World, fm *fam.FileModel) []fam.Issue) {
	runMemberOpt(c, mb, rules, budget, false, check)
}

func runMemberOpt(c *core.Ctx, mb member, rules map[string]bool, budget int, sized bool, check func(w *fam.World, fm *fam.FileModel) []fam.Issue) {
	// The CLI default is WITHOUT --extra-imports (JSON unmarshalers only); the drivers' base configuration has it on (both methods).
	// A cross-section of every driver's members (one in four, chosen by name; all of them in the thorough tier) is therefore run a
	// second time in the CLI's default mode, with the same rules and the same oracle.
	if mb.cfg.ExtraImports && !mb.noTwin && !c.NoDefaultModeTwin {
		h := 0
		for i := 0; i < len(mb.name); i++ {
			h = h*31 + int(mb.name[i])
		}
		if c.Tier == "thorough" || (h&0x7fffffff)%4 == 0 {
			tw := mb
			tw.cfg.ExtraImports = false
			tw.noTwin = true
			c.Counts["default_mode_twins"]++
			defer runMemberOpt(c, tw, rules, budget, sized, check)
		}
	}
	if d := os.Getenv("VCHECK_DUMP"); d != "" && strings.Contains(mb.name, d) {
		// developer aid: print the emitted text of the first world of the named member
		if ws, _ := fam.Run(c.Prog, mb.cfg, mb.root, budget, nil); len(ws) > 0 && ws[0].Files["out.go"] != nil {
			fmt.Fprintf(os.Stderr, "---- %s ----\n%s\n", mb.name, ws[0].Files["out.go"].R.Text)
		}
	}
	t0 := time.Now()
	worlds, complete := fam.Run(c.Prog, mb.cfg, mb.root, budget, nil)
	for _, w := range worlds {
		w.SizedCheck = sized
	}
	key := mb.name + " " + fam.CfgString(mb.cfg)
	if os.Getenv("VCHECK_TIMING") != "" {
		defer func() {
			if d := time.Since(t0); d > 300*time.Millisecond {
				fmt.Printf("TIMING %.1fs %d worlds %s\n", d.Seconds(), len(worlds), key)
			}
		}()
	}
	if !complete {
		c.Undecided("A-UNDECIDED", "(families)", "fork budget for "+mb.name, "", fmt.Sprintf("more than %d worlds for %s", budget, key))
	}
	c.Counts["worlds"] += len(worlds)
	c.Counts["members"]++
	for wi, w := range worlds {
		if os.Getenv("VCHECK_DEBUG") != "" && wi < 3 && strings.Contains(key, os.Getenv("VCHECK_DEBUG")) {
			fmt.Printf("DEBUG %s world %v err=%v generr=%q\n", key, w.Script, w.Err, w.GenErr)
			for _, f := range w.Forks {
				fmt.Printf("   fork %q n=%d %s at %s\n", f.Key, f.N, f.Note, f.Pos)
			}
			if fm := w.Models["out.go"]; fm != nil && wi == 0 {
				fmt.Println(fm.F.R.Text)
			}
		}
		c.Counts["interpreter_steps"] += w.Steps
		var issues []fam.Issue
		issues = append(issues, w.RunIssues()...)
		if w.Err == nil && w.GenErr != "" && !mb.mayFail {
			issues = append(issues, fam.Issue{Rule: "A-GENERR", Construct: "generator rejects a valid schema", Msg: "the generator returned an error for a supported schema: " + w.GenErr})
		}
		if w.Err == nil && w.GenErr == "" {
			issues = append(issues, w.SynIssues()...)
			fm := w.Models["out.go"]
			if fm != nil {
				c.Counts["skeleton_files"]++
				c.Counts["unmarshal_methods"] += len(fm.Methods)
				// vacuity guard, whatever the rule set: the first property of the root must have its field somewhere in the file;
				// otherwise the oracles would be comparing nothing with nothing (a dropped property, or a mis-executed interpreter)
				if sp := w.Spec; sp != nil && sp.Kind == "object" && len(sp.Props) > 0 && len(sp.AnyOf) == 0 && len(sp.AllOf) == 0 && len(mb.cfg.Tags) > 0 {
					if S, _ := fm.FindFieldText(sp.Props[0].Text(), mb.cfg.Tags[0]); S == nil {
						issues = append(issues, fam.Issue{Rule: "A-UNDECIDED", Construct: "the emitted file has no field for the first property of the root",
							Msg: "no struct field carries the name of property " + sp.Props[0].Label + ": the property was dropped by the generator or the interpretation is wrong; nothing can be certified on this member"})
					}
				}
				issues = append(issues, check(w, fm)...)
			}
		}
		wkey := fmt.Sprintf("%s world%v", key, w.Script)
		bad, knownHere := 0, 0
		for _, is := range issues {

			base := is.Rule
			if i := strings.IndexByte(base, ':'); i >= 0 {
				base = base[:i]
			}
			if !(rules[is.Rule] || rules[base] || is.Rule == "A-UNDECIDED" || is.Rule == "A-SYN" || is.Rule == "A-PANIC" || is.Rule == "A-GENERR" || is.Rule == "A-HANG") {
				continue
			}
			fn := is.Site
			if fn == "" {
				fn = "(emitted code)"
			}
			if !strings.HasPrefix(is.Rule, "A-CTX") {
				// only context findings are tied to one template; the others are identified by function + construct
				fn = strings.SplitN(fn, " :: ", 2)[0]
			}
			if mb.tag != "" && is.Rule != "A-UNDECIDED" && !c.IsKnown(is.Rule, fn, is.Construct) {
				// a scenario member: what is not already a listed finding is keyed by the scenario
				is.Construct = "[" + mb.tag + "] " + is.Construct
			}
			if c.IsKnown(is.Rule, fn, is.Construct) {
				knownHere++
			} else {
				bad++
			}
			kind := "violation"
			if is.Rule == "A-UNDECIDED" {
				kind = "undecided"
			}
			c.Report(core.Finding{Rule: is.Rule, Func: fn, Construct: is.Construct, Kind: kind, Msg: is.Msg + "  [first seen on: " + w.Describe() + "]"})
		}
		c.Obl("family", wkey, bad == 0, fmt.Sprintf("%d new issue(s), %d instance(s) of listed known findings", bad, knownHere))
		if len(c.Samples) < 6 && w.Err == nil && w.GenErr == "" {
			if fm := w.Models["out.go"]; fm != nil {
				excerpt := fm.F.R.Text
				if len(excerpt) > 1400 {
					excerpt = excerpt[:1400] + "…"
				}
				c.Sample(map[string]any{"family_member": wkey, "forks": len(w.Forks), "steps": w.Steps, "skeleton_excerpt": excerpt, "issues": bad})
			}
		}
		for _, a := range w.Assume {
			seenAssume(c, a)
		}
		for _, e := range w.Ext {
			c.Trust("summary: " + e)
		}
	}
}

// noteRuns carries the assumptions and the exercised library summaries of abstract unit runs into the evidence.
func noteRuns(c *core.Ctx, runs []absint.RunResult) {
	for _, r := range runs {
		for _, a := range r.Assumptions {
			seenAssume(c, a)
		}
		for _, e := range r.Externals {
			c.Trust("summary: " + e)
		}
	}
}

func seenAssume(c *core.Ctx, a string) {
	for _, x := range c.Assumptions {
		if x == a {
			return
		}
	}
	c.Assume(a)
}

func ruleSet(rs ...string) map[string]bool {
	m := map[string]bool{}
	for _, r := range rs {
		m[r] = true
	}
	return m
}

// ---- member generators -------------------------------------------------------------------

func stringMembers(tier string, cfg gen.Config) []member {
	var out []member
	for _, pos := range positions {
		for _, kws := range subsets([]string{"minLength", "maxLength", "pattern"}) {
			sp := &fam.Spec{Kind: "string", Kw: kws}
			out = append(out, member{name: "string " + pos + " " + sp.String(), cfg: cfg, root: place(sp, pos)})
		}
	}
	for _, pos := range []string{"ext-required", "ext-optional"} {
		for _, kws := range [][]string{{"minLength"}, {"pattern"}, {"minLength", "maxLength", "pattern"}} {
			sp := &fam.Spec{Kind: "string", Kw: kws}
			out = append(out, member{name: "string " + pos + " " + sp.String(), cfg: cfg, root: place(sp, pos)})
		}
	}
	return out
}

// arraySpec builds a depth-d array of elem with the given per-depth keyword sets.
func arraySpec(elem *fam.Spec, kws ...[]string) *fam.Spec {
	s := elem
	for i := len(kws) - 1; i >= 0; i-- {
		s = &fam.Spec{Kind: "array", Items: s, Kw: kws[i]}
	}
	return s
}

func arrayMembers(tier string, cfg gen.Config) []member {
	var out []member
	sets := [][]string{nil, {"minItems"}, {"maxItems"}, {"minItems", "maxItems"}}
	elems := []*fam.Spec{{Kind: "string"}, {Kind: "integer"}}
	poss := []string{"required", "optional", "nullable-optional", "def-required", "def-optional"}
	add := func(sp *fam.Spec, pos string) {
		out = append(out, member{name: "array " + pos + " " + sp.String(), cfg: cfg, root: place(sp, pos)})
	}
	// a REQUIRED array that may be null (the key is there, the value is null: nothing to measure), and arrays whose field is only
	// renamed by a goJSONSchema.identifier block
	for _, pos := range []string{"nullable-required", "ext-required", "ext-optional"} {
		for _, k1 := range sets[1:] {
			add(arraySpec(elems[0], k1), pos)
		}
		add(arraySpec(elems[1], sets[3], sets[1]), pos)
	}
	for _, pos := range poss {
		for _, el := range elems {
			for _, k1 := range sets {
				add(arraySpec(el, k1), pos)
				for _, k2 := range sets {
					if tier != "thorough" && pos != "required" && len(k2) == 1 {
						continue
					}
					add(arraySpec(el, k1, k2), pos)
					if tier == "thorough" {
						for _, k3 := range sets {
							add(arraySpec(el, k1, k2, k3), pos)
						}
					}
				}
			}
		}
		// depth 3 with distinct limits at every level, and limits only on inner levels
		add(arraySpec(&fam.Spec{Kind: "string"}, sets[3], sets[3], sets[3]), pos)
		add(arraySpec(&fam.Spec{Kind: "string"}, nil, nil, sets[3]), pos)
		add(arraySpec(&fam.Spec{Kind: "string"}, nil, sets[1], nil), pos)
	}
	return out
}

func nullMembers(tier string, cfg gen.Config) []member {
	var out []member
	for _, pos := range []string{"required", "optional"} {
		out = append(out, member{name: "null " + pos, cfg: cfg, root: place(&fam.Spec{Kind: "null"}, pos)})
		for d := 1; d <= 3; d++ {
			kws := make([][]string, d)
			out = append(out, member{name: fmt.Sprintf("array^%d of null %s", d, pos), cfg: cfg, root: place(arraySpec(&fam.Spec{Kind: "null"}, kws...), pos)})
		}
		// null items together with limits on the array
		out = append(out, member{name: "array{min,max} of null " + pos, cfg: cfg, root: place(arraySpec(&fam.Spec{Kind: "null"}, []string{"minItems", "maxItems"}), pos)})
		out = append(out, member{name: "array{min} of array of null " + pos, cfg: cfg, root: place(arraySpec(&fam.Spec{Kind: "null"}, []string{"minItems"}, nil), pos)})
	}
	return out
}

func typeMembers(tier string, cfg gen.Config) []member {
	var out []member
	specs := []*fam.Spec{{Kind: "string"}, {Kind: "integer"}, {Kind: "number"}, {Kind: "boolean"},
		{Kind: "string", Format: "date-time"}, {Kind: "string", Format: "date"}, {Kind: "string", Format: "time"}, {Kind: "string", Format: "ipv4"}, {Kind: "string", Format: "ipv6"},
		{Kind: "array", Items: &fam.Spec{Kind: "string"}}, {Kind: "array", Items: &fam.Spec{Kind: "number"}}, {Kind: "array"},
		{Kind: "object"}, {Kind: "object", Props: []*fam.Prop{{Label: "q", Spec: &fam.Spec{Kind: "string"}}}},
		{Kind: "array", Items: &fam.Spec{Kind: "object", Props: []*fam.Prop{{Label: "q", Spec: &fam.Spec{Kind: "integer"}, Required: true}}}},
		{Kind: "array", Items: &fam.Spec{Kind: "integer", Null: "after"}},
		// formats the generator has no type for (OpenAPI width hints, e-mail): annotations, the mapping is that of the bare type
		{Kind: "integer", Format: "int32"}, {Kind: "integer", Format: "int64"}, {Kind: "number", Format: "double"}, {Kind: "number", Format: "float"}, {Kind: "string", Format: "email"},
		// string formats the generator has no type for stay strings; a string format on a NON-string type is an annotation (the table
		// of library types belongs to strings only)
		{Kind: "string", Format: "duration"}, {Kind: "string", Format: "uri"}, {Kind: "string", Format: "uuid"},
		{Kind: "integer", Format: "date-time"}, {Kind: "number", Format: "time"}, {Kind: "boolean", Format: "ipv4"}, {Kind: "integer", Format: "date"},
		// the anything-schema ({} / true) as a property and as array items: every JSON value is valid, the Go type is interface{}
		{Kind: "any"}, {Kind: "array", Items: &fam.Spec{Kind: "any"}},
	}
	// goJSONSchema.type overrides (with imports / nillable), required and optional, next to a plain sibling
	for _, ov := range []struct {
		typ      string
		imports  []string
		nillable bool
	}{{"time.Duration", []string{"time"}, false}, {"[]byte", nil, true}, {"json.RawMessage", []string{"encoding/json"}, true}, {"netip.Prefix", []string{"net/netip"}, false}} {
		for _, req := range []bool{true, false} {
			root := &fam.Spec{Kind: "object", Props: []*fam.Prop{
				{Label: "o", Spec: &fam.Spec{Kind: "string"}, Required: req, ExtType: ov.typ, ExtImports: ov.imports, ExtNillable: ov.nillable},
				{Label: "s", Spec: &fam.Spec{Kind: "string", Kw: []string{"minLength"}}, Required: true}}}
			out = append(out, member{name: fmt.Sprintf("goJSONSchema.type %s required=%v nillable=%v", ov.typ, req, ov.nillable), cfg: cfg, root: root})
		}
	}
	// a referring node that also states the target's type (or a description) next to the $ref: the reference still decides the Go type
	for _, sib := range []string{"type", "description"} {
		for _, req := range []bool{true, false} {
			od := &fam.Spec{Kind: "object", Ref: "$defs", RefSibling: sib, Props: []*fam.Prop{{Label: "q", Spec: &fam.Spec{Kind: "integer"}, Required: true}}}
			sd := &fam.Spec{Kind: "string", Ref: "$defs", RefSibling: sib, Kw: []string{"minLength"}}
			out = append(out, member{name: fmt.Sprintf("reference with a sibling %s required=%v", sib, req), cfg: cfg, root: &fam.Spec{Kind: "object", Props: []*fam.Prop{
				{Label: "o", Spec: od, Required: req}, {Label: "s", Spec: sd, Required: req},
				{Label: "xs", Spec: &fam.Spec{Kind: "array", Items: &fam.Spec{Kind: "object", Ref: "$defs", RefSibling: sib, Props: []*fam.Prop{{Label: "w", Spec: &fam.Spec{Kind: "boolean"}}}}}}}}})
		}
	}
	out = append(out, mapRefMembers(cfg)...)
	for _, sp := range specs {
		for _, pos := range positions {
			if sp.Kind == "object" && len(sp.Props) == 0 && pos[:3] == "def" {
				continue
			}
			if sp.Kind == "any" && (strings.HasPrefix(pos, "nullable") || pos[:3] == "def") {
				continue // "anything or null" is anything; an anything-definition is the listed interface{} shortcut
			}
			if sp.Kind == "array" && sp.Items == nil && pos[:3] == "def" {
				continue // generation fails loudly for an item-less array behind a definition (observation, DESIGN.md §7)
			}
			out = append(out, member{name: "type " + pos + " " + sp.String(), cfg: cfg, root: place(sp, pos)})
		}
	}
	return out
}

// mapRefMembers: maps whose value schema is given by reference.
func mapRefMembers(cfg gen.Config) []member {
	var out []member
	// a map (object without properties) whose VALUE schema is a reference to an object definition with a required property, or
	// to a constrained string definition: the value type is that definition's type, not interface{}
	for _, req := range []bool{true, false} {
		vo := &fam.Spec{Kind: "object", Ref: "$defs", Props: []*fam.Prop{{Label: "host", Spec: &fam.Spec{Kind: "string"}, Required: true}, {Label: "port", Spec: &fam.Spec{Kind: "integer"}}}}
		vs := &fam.Spec{Kind: "string", Ref: "$defs", Kw: []string{"minLength"}}
		out = append(out, member{name: fmt.Sprintf("map with values given by reference required=%v", req), cfg: cfg, root: &fam.Spec{Kind: "object", Props: []*fam.Prop{
			{Label: "servers", Spec: &fam.Spec{Kind: "object", AddPropsSpec: vo}, Required: req}, {Label: "labels", Spec: &fam.Spec{Kind: "object", AddPropsSpec: vs}, Required: req}}}})
	}
	// a map whose value schema has NO "type" keyword of its own: it is typed through an enum / through a composition of objects
	{
		ev := &fam.Spec{Kind: "any", Enum: "strings"}
		av := &fam.Spec{Kind: "object", NoType: true, AllOf: []*fam.Spec{
			{Kind: "object", Props: []*fam.Prop{{Label: "host", Spec: &fam.Spec{Kind: "string"}, Required: true}}},
			{Kind: "object", Props: []*fam.Prop{{Label: "port", Spec: &fam.Spec{Kind: "integer"}}}}}}
		out = append(out, member{name: "map with an untyped enum as value schema", cfg: cfg, root: &fam.Spec{Kind: "object", Props: []*fam.Prop{
			{Label: "modes", Spec: &fam.Spec{Kind: "object", AddPropsSpec: ev}, Required: true}}}})
		out = append(out, member{name: "map with a composition of objects as value schema", cfg: cfg, root: &fam.Spec{Kind: "object", Props: []*fam.Prop{
			{Label: "servers", Spec: &fam.Spec{Kind: "object", AddPropsSpec: av}, Required: true}}}})
	}
	// a map whose value schema is typed and ALSO carries a "not" keyword (which the generator does not translate): the value type is
	// still the one its "type" states
	for _, vt := range []string{"string", "integer"} {
		out = append(out, member{name: "map with a typed value schema that also has a not keyword (" + vt + ")", cfg: cfg, root: &fam.Spec{Kind: "object", Props: []*fam.Prop{
			{Label: "labels", Spec: &fam.Spec{Kind: "object", AddPropsSpec: &fam.Spec{Kind: vt, NotKw: true}}, Required: true},
			{Label: "plain", Spec: &fam.Spec{Kind: "object", AddProps: vt}}}}})
	}
	return out
}

func requiredMembers(tier string, cfg gen.Config) []member {
	var out []member
	mk := func(mask int, deflt bool, nullable bool) *fam.Spec {
		inner := &fam.Spec{Kind: "object", Props: []*fam.Prop{{Label: "n", Spec: &fam.Spec{Kind: "string"}, Required: mask&8 != 0}, {Label: "m", Spec: &fam.Spec{Kind: "integer"}}}}
		a := &fam.Spec{Kind: "string"}
		if nullable {
			a.Null = "after"
		}
		b := &fam.Spec{Kind: "integer"}
		if deflt {
			b.Default = "scalar"
		}
		return &fam.Spec{Kind: "object", Props: []*fam.Prop{
			{Label: "a", Spec: a, Required: mask&1 != 0},
			{Label: "b", Spec: b, Required: mask&2 != 0},
			{Label: "c", Spec: inner, Required: mask&4 != 0},
		}}
	}
	for mask := 0; mask < 16; mask++ {
		for _, d := range []bool{false, true} {
			for _, n := range []bool{false, true} {
				if tier != "thorough" && d && n && mask%3 != 0 {
					continue
				}
				sp := mk(mask, d, n)
				out = append(out, member{name: fmt.Sprintf("required mask=%d default=%v nullable=%v", mask, d, n), cfg: cfg, root: sp})
			}
		}
	}
	// formats / objects with typed additionalProperties / arrays as required properties
	for _, v := range []*fam.Spec{{Kind: "string", Format: "date-time", Null: "after"}, {Kind: "object", AddProps: "string"}, {Kind: "object", AddProps: "integer"},
		{Kind: "array", Items: &fam.Spec{Kind: "string"}}, {Kind: "string", Format: "ipv4"}, {Kind: "boolean"}, {Kind: "number", Null: "before"}} {
		for _, req := range []bool{true, false} {
			out = append(out, member{name: fmt.Sprintf("required=%v %s", req, v.String()), cfg: cfg, root: &fam.Spec{Kind: "object", Props: []*fam.Prop{{Label: "p", Spec: v.Clone(), Required: req}}}})
		}
	}
	// a name in required without a property; required inside array elements; behind a reference
	out = append(out, member{name: "required name without property", cfg: cfg, root: &fam.Spec{Kind: "object", ReqNoProp: true, Props: []*fam.Prop{{Label: "a", Spec: &fam.Spec{Kind: "string"}}}}})
	elem := &fam.Spec{Kind: "object", Props: []*fam.Prop{{Label: "e", Spec: &fam.Spec{Kind: "string"}, Required: true}, {Label: "f", Spec: &fam.Spec{Kind: "number"}}}}
	out = append(out, member{name: "required in array element", cfg: cfg, root: &fam.Spec{Kind: "object", Props: []*fam.Prop{{Label: "xs", Spec: &fam.Spec{Kind: "array", Items: elem}}}}})
	out = append(out, member{name: "required in array^2 element", cfg: cfg, root: &fam.Spec{Kind: "object", Props: []*fam.Prop{{Label: "xs", Spec: arraySpec(elem.Clone(), nil, nil), Required: true}}}})
	refd := elem.Clone()
	refd.Ref = "$defs"
	out = append(out, member{name: "required in referenced object", cfg: cfg, root: &fam.Spec{Kind: "object", Props: []*fam.Prop{{Label: "r", Spec: refd}}}})
	return out
}

func defaultMembers(tier string, cfg gen.Config) []member {
	var out []member
	type dv struct {
		sp *fam.Spec
	}
	var specs []*fam.Spec
	for _, k := range []string{"string", "integer", "number", "boolean"} {
		specs = append(specs, &fam.Spec{Kind: k, Default: "scalar"})
	}
	specs = append(specs,
		&fam.Spec{Kind: "string", Default: "scalar", Kw: []string{"minLength"}},
		&fam.Spec{Kind: "string", Default: "scalar", Kw: []string{"pattern", "maxLength"}},
		&fam.Spec{Kind: "integer", Default: "scalar", Kw: []string{"minimum"}},
		&fam.Spec{Kind: "number", Default: "scalar", Kw: []string{"maximum", "multipleOf"}, EMin: "num"},
		&fam.Spec{Kind: "array", Items: &fam.Spec{Kind: "string"}, Default: "slice"},
		&fam.Spec{Kind: "array", Items: &fam.Spec{Kind: "string"}, Default: "emptyslice"},
		&fam.Spec{Kind: "array", Items: &fam.Spec{Kind: "string"}, Default: "slice", Kw: []string{"minItems"}},
		&fam.Spec{Kind: "object", Default: "map", Props: []*fam.Prop{{Label: "k", Spec: &fam.Spec{Kind: "string"}}}},
		&fam.Spec{Kind: "object", AddProps: "string", Default: "map"},
		&fam.Spec{Kind: "object", AddProps: "object", Default: "mapmap"},
		&fam.Spec{Kind: "object", Default: "map"}, // a property-less object: a named map type with an object default
		&fam.Spec{Kind: "string", Enum: "strings", Default: "scalar"},
	)
	for _, sp := range specs {
		for _, pos := range []string{"optional", "required", "nullable-optional"} {
			if pos == "nullable-optional" && (sp.Kind == "array" || sp.Kind == "object" || sp.Enum != "") {
				continue
			}
			out = append(out, member{name: "default " + pos + " " + sp.String(), cfg: cfg, root: place(sp, pos)})
		}
	}
	// an object default that lists only SOME of the declared properties (the others keep their zero value / their own default)
	out = append(out, member{name: "default listing some of the declared properties", cfg: cfg, root: &fam.Spec{Kind: "object", Props: []*fam.Prop{{Label: "size", Spec: &fam.Spec{Kind: "object", Default: "partial",
		Props: []*fam.Prop{{Label: "w", Concrete: "width", Spec: &fam.Spec{Kind: "integer"}, Required: true}, {Label: "h", Concrete: "height", Spec: &fam.Spec{Kind: "integer"}, Required: true}, {Label: "u", Concrete: "unit", Spec: &fam.Spec{Kind: "string", Default: "scalar"}}}}}}}})
	// an object default on a reference that points BACK to a definition still being generated (Alpha -> Beta -> Alpha): the literal is
	// the struct literal of the finished type all the same
	{
		beta := &fam.Spec{Kind: "object", Ref: "$defs", ConcreteDef: "Beta", Props: []*fam.Prop{{Label: "owner", Concrete: "owner", Spec: &fam.Spec{RefRootOf: "#/$defs/Alpha", Kind: "object", Default: "refname"}}}}
		alpha := &fam.Spec{Kind: "object", Ref: "$defs", ConcreteDef: "Alpha", Props: []*fam.Prop{{Label: "nm", Concrete: "name", Spec: &fam.Spec{Kind: "string"}, Required: true}, {Label: "b", Concrete: "beta", Spec: beta}}}
		out = append(out, member{name: "default on a reference back to a definition in progress", cfg: cfg, tag: "default on a cyclic reference",
			root: &fam.Spec{Kind: "object", Props: []*fam.Prop{{Label: "a", Spec: alpha, Required: true}}}})
	}
	// defaults of properties that sit INSIDE the branches of a composition: the merged allOf struct and each anyOf branch type decode
	// their own properties and apply their defaults like any other object
	dprop := func(l string) *fam.Prop {
		return &fam.Prop{Label: l, Spec: &fam.Spec{Kind: "integer", Default: "scalar"}}
	}
	sprop := func(l string, req bool) *fam.Prop {
		return &fam.Prop{Label: l, Spec: &fam.Spec{Kind: "string"}, Required: req}
	}
	out = append(out, member{name: "default inside an allOf branch", cfg: cfg, tag: "default inside an allOf branch", root: &fam.Spec{Kind: "object", Props: []*fam.Prop{{Label: "c", Required: true, Spec: &fam.Spec{Kind: "object",
		AllOf: []*fam.Spec{{Kind: "object", Props: []*fam.Prop{sprop("a", true)}}, {Kind: "object", Props: []*fam.Prop{dprop("n")}}}}}}}})
	out = append(out, member{name: "default inside an anyOf branch", cfg: cfg, tag: "default inside an anyOf branch", root: &fam.Spec{Kind: "object", Props: []*fam.Prop{{Label: "u", Required: true, Spec: &fam.Spec{Kind: "object",
		AnyOf: []*fam.Spec{{Kind: "object", Props: []*fam.Prop{sprop("a", true), dprop("n")}}, {Kind: "object", Props: []*fam.Prop{sprop("b", true)}}}}}}}})
	return out
}

func enumMembers(tier string, cfg gen.Config) []member {
	var out []member
	type ek struct{ kind, enum string }
	for _, e := range []ek{{"string", "strings"}, {"integer", "ints"}, {"number", "numbers"}, {"boolean", "bools"}, {"any", "strings"}, {"any", "numbers"}, {"any", "bools"}, {"any", "mixed"}, {"any", "null"}, {"null", "null"}} {
		sp := &fam.Spec{Kind: e.kind, Enum: e.enum}
		for _, pos := range []string{"required", "optional", "def-required"} {
			out = append(out, member{name: "enum " + pos + " " + sp.String(), cfg: cfg, root: place(sp, pos)})
		}
		out = append(out, member{name: "enum items " + sp.String(), cfg: cfg, root: place(&fam.Spec{Kind: "array", Items: sp.Clone()}, "required")})
		// ... of an array that is itself a definition (declared array type)
		out = append(out, member{name: "enum items of an array definition " + sp.String(), cfg: cfg, root: place(&fam.Spec{Kind: "array", Items: sp.Clone()}, "def-required")})
	}
	// a nullable string enum that lists null among its values, where the value is not behind a pointer
	for _, order := range []string{"after", "before"} {
		sp := &fam.Spec{Kind: "string", Null: order, Enum: "strings+null"}
		out = append(out, member{name: "enum required nullable(" + order + ") strings and null", cfg: cfg, root: place(sp, "required")})
		out = append(out, member{name: "enum items nullable(" + order + ") strings and null", cfg: cfg, root: place(&fam.Spec{Kind: "array", Items: sp.Clone()}, "required")})
	}
	// an integer enum that also carries a width hint: the carrier stays the type of the value table's elements
	for _, f := range []string{"int32", "int64"} {
		sp := &fam.Spec{Kind: "integer", Enum: "ints", Format: f}
		for _, pos := range []string{"required", "def-required"} {
			out = append(out, member{name: "enum " + pos + " " + sp.String() + " format " + f, cfg: cfg, root: place(sp, pos)})
		}
	}
	return out
}

func addPropsMembers(tier string, cfg gen.Config) []member {
	var out []member
	for _, ap := range []string{"true", "string", "integer", "number", "boolean", "array", "object", "false"} {
		for _, v := range []*fam.Spec{{Kind: "string"}, {Kind: "string", Kw: []string{"minLength"}}, {Kind: "integer", Kw: []string{"maximum"}}, {Kind: "string", Default: "scalar"}} {
			for _, req := range []bool{false, true} {
				root := &fam.Spec{Kind: "object", AddProps: ap, Props: []*fam.Prop{{Label: "p", Spec: v.Clone(), Required: req}}}
				out = append(out, member{name: fmt.Sprintf("additionalProperties=%s p req=%v %s", ap, req, v.String()), cfg: cfg, root: root})
			}
		}
	}
	return out
}

func anyOfMembers(tier string, cfg gen.Config) []member {
	var out []member
	branch := func(i int) *fam.Spec {
		c := &fam.Spec{Kind: "integer"}
		if i < 2 {
			c.Kw = []string{"minimum"} // bounded only in the first two branches: keeps the region product small under --min-sized-ints
		} else {
			c = &fam.Spec{Kind: "string", Kw: []string{"maxLength"}}
		}
		return &fam.Spec{Kind: "object", Props: []*fam.Prop{{Label: fmt.Sprintf("b%d", i), Spec: &fam.Spec{Kind: "string"}, Required: i%2 == 0}, {Label: fmt.Sprintf("c%d", i), Spec: c}}}
	}
	// a branch that is a map-only object (typed additionalProperties, no properties) gets an unmarshaler on a map type
	out = append(out, member{name: "anyOf with a map-only branch", cfg: cfg, root: &fam.Spec{Kind: "object", Props: []*fam.Prop{{Label: "u", Required: true,
		Spec: &fam.Spec{Kind: "object", AnyOf: []*fam.Spec{branch(0), {Kind: "object", AddProps: "integer"}}}}}}})
	out = append(out, member{name: "anyOf root with a map-only branch", cfg: cfg, root: &fam.Spec{Kind: "object", AnyOf: []*fam.Spec{{Kind: "object", AddProps: "string"}, branch(1)}}})
	for n := 1; n <= 4; n++ {
		var bs []*fam.Spec
		for i := 0; i < n; i++ {
			bs = append(bs, branch(i))
		}
		out = append(out, member{name: fmt.Sprintf("anyOf root N=%d", n), cfg: cfg, root: &fam.Spec{Kind: "object", AnyOf: bs}})
		var bs2 []*fam.Spec
		for i := 0; i < n; i++ {
			bs2 = append(bs2, branch(i))
		}
		out = append(out, member{name: fmt.Sprintf("anyOf property N=%d", n), cfg: cfg, root: &fam.Spec{Kind: "object", Props: []*fam.Prop{{Label: "u", Spec: &fam.Spec{Kind: "object", AnyOf: bs2}, Required: n%2 == 0}}}})
		if n == 2 {
			// a branch that is a reference to a definition WITHOUT any validation (no required, no constraint): it still needs the unmarshalers the validator calls
			plainDef := &fam.Spec{Kind: "object", Ref: "$defs", Props: []*fam.Prop{{Label: "a", Spec: &fam.Spec{Kind: "string"}}}}
			out = append(out, member{name: "anyOf property with a referenced branch without validation", cfg: cfg, root: &fam.Spec{Kind: "object", Props: []*fam.Prop{{Label: "u", Spec: &fam.Spec{Kind: "object", AnyOf: []*fam.Spec{plainDef, branch(1)}}}}}})
			// an object branch next to a primitive branch (valid JSON Schema; the merged type must at least compile)
			out = append(out, member{name: "anyOf mixing an object branch and a primitive branch", cfg: cfg, tag: "anyOf with an object and a primitive branch",
				root: &fam.Spec{Kind: "object", Props: []*fam.Prop{{Label: "u", Spec: &fam.Spec{Kind: "object", AnyOf: []*fam.Spec{branch(0), {Kind: "string"}}}}}}})
			// a branch that has properties AND collects additional properties (its unmarshaler uses reflect/strings/mapstructure)
			for _, ap := range []string{"true", "string"} {
				apb := &fam.Spec{Kind: "object", AddProps: ap, Props: []*fam.Prop{{Label: "k", Spec: &fam.Spec{Kind: "string"}, Required: true}}}
				out = append(out, member{name: "anyOf with a branch that has properties and additionalProperties=" + ap, cfg: cfg,
					root: &fam.Spec{Kind: "object", Props: []*fam.Prop{{Label: "u", Spec: &fam.Spec{Kind: "object", AnyOf: []*fam.Spec{apb, branch(1)}}}}}})
			}
			// a primitive-typed branch next to a branch that states no type: the union is not a string (or a boolean); it is
			// represented as interface{} and nothing is validated, so every document one branch admits is accepted
			out = append(out, member{name: "anyOf of a typed primitive branch and an untyped branch", cfg: cfg, root: &fam.Spec{Kind: "object", Props: []*fam.Prop{{Label: "u", Required: true,
				Spec: &fam.Spec{Kind: "any", AnyOf: []*fam.Spec{{Kind: "string", Kw: []string{"minLength"}}, {Kind: "integer", NoType: true, Kw: []string{"minimum"}}}}}}}})
			out = append(out, member{name: "anyOf of a boolean branch and an untyped object branch", cfg: cfg, root: &fam.Spec{Kind: "object", Props: []*fam.Prop{{Label: "u",
				Spec: &fam.Spec{Kind: "any", AnyOf: []*fam.Spec{{Kind: "boolean"}, {Kind: "object", NoType: true, Props: []*fam.Prop{{Label: "t", Spec: &fam.Spec{Kind: "integer"}}}}}}}}}})
			// two inline branches that declare the SAME property with different keywords: each branch type enforces its own branch's
			// keywords only (a value one branch accepts is accepted, whatever the merged view of that property looks like)
			out = append(out, member{name: "anyOf branches declaring one property with different keywords", cfg: cfg, root: &fam.Spec{Kind: "object", Props: []*fam.Prop{{Label: "u", Required: true,
				Spec: &fam.Spec{Kind: "object", AnyOf: []*fam.Spec{
					{Kind: "object", Props: []*fam.Prop{{Label: "text", Spec: &fam.Spec{Kind: "string", Kw: []string{"maxLength"}}, Required: true}}},
					{Kind: "object", Props: []*fam.Prop{{Label: "text2", SameAs: "text", Spec: &fam.Spec{Kind: "string", Kw: []string{"minLength"}}, Required: true}}}}}}}}})
			// THREE primitive branches of which the first and the last agree and the middle one differs (string, integer, string): the
			// union is not a string — every branch counts when the common type of the branches is looked for
			for _, pos := range []string{"required", "def-required"} {
				sp := &fam.Spec{Kind: "any", AnyOf: []*fam.Spec{{Kind: "string", Kw: []string{"maxLength"}}, {Kind: "integer"}, {Kind: "string"}}}
				out = append(out, member{name: "anyOf of three primitive branches, the middle one of another type " + pos, cfg: cfg, root: place(sp, pos)})
			}
			// an anyOf DEFINITION that two properties refer to (one type, generated once)
			var bs3 []*fam.Spec
			for i := 0; i < n; i++ {
				bs3 = append(bs3, branch(i))
			}
			d := &fam.Spec{Kind: "object", AnyOf: bs3, Ref: "$defs"}
			out = append(out, member{name: "anyOf definition referenced twice", cfg: cfg, root: &fam.Spec{Kind: "object", Props: []*fam.Prop{{Label: "u1", Spec: d, Required: true}, {Label: "u2", Spec: d}}}})
		}
	}
	return out
}

// broadMembers is the union used by the rules that need no per-keyword oracle
// (C01 syntax/types/contexts, C17 sibling equality, C19 totality).
func broadMembers(tier string, cfg gen.Config) []member {
	var out []member
	out = append(out, stringMembers(tier, cfg)...)
	nm := numericMembers(tier, cfg)
	if tier != "thorough" {
		// every 5th numeric member in the quick tier
		var s []member
		for i, m := range nm {
			if i%5 == 0 {
				s = append(s, m)
			}
		}
		nm = s
	}
	out = append(out, nm...)
	out = append(out, arrayMembers(tier, cfg)...)
	out = append(out, nullMembers(tier, cfg)...)
	out = append(out, typeMembers(tier, cfg)...)
	out = append(out, requiredMembers(tier, cfg)...)
	out = append(out, defaultMembers(tier, cfg)...)
	out = append(out, enumMembers(tier, cfg)...)
	out = append(out, addPropsMembers(tier, cfg)...)
	out = append(out, anyOfMembers(tier, cfg)...)
	out = append(out, allOfMembers(cfg)...)
	out = append(out, reservedNameMembers(cfg)...)
	return out
}

// reservedNameMembers: concrete names that coincide with identifiers the emitted code uses for itself (the shadow type
// `Plain`, the collector field `AdditionalProperties`, the local `raw`/`plain`/`value`).
func reservedNameMembers(cfg gen.Config) []member {
	var out []member
	t := cfg
	t.StructNameFromTitle = true
	str := func(kws ...string) *fam.Spec { return &fam.Spec{Kind: "string", Kw: kws} }
	for _, title := range []string{"plain", "Plain", "raw", "value"} {
		out = append(out, member{name: "root type named by the title " + title, cfg: t, root: &fam.Spec{Kind: "object", Title: true, ConcreteTitle: title,
			Props: []*fam.Prop{{Label: "s", Spec: str("minLength"), Required: true}, {Label: "n", Spec: &fam.Spec{Kind: "integer", Kw: []string{"maximum"}}}}}})
	}
	// a DEFINITION whose type is named Plain / Value next to another type that collects additional properties
	for _, dn := range []string{"plain", "value", "raw"} {
		d := &fam.Spec{Kind: "object", Ref: "$defs", ConcreteDef: dn, Props: []*fam.Prop{{Label: "t", Spec: str("minLength"), Required: true}}}
		out = append(out, member{name: "definition named " + dn + " next to a type with additionalProperties", cfg: cfg, root: &fam.Spec{Kind: "object", AddProps: "string",
			Props: []*fam.Prop{{Label: "d", Spec: d, Required: true}, {Label: "n", Spec: &fam.Spec{Kind: "integer", Kw: []string{"minimum"}}}}}})
	}
	// a property whose name is the decoders' skip marker
	for _, req := range []bool{true, false} {
		out = append(out, member{name: fmt.Sprintf("property named - required=%v", req), cfg: cfg, tag: "property named -", root: &fam.Spec{Kind: "object",
			Props: []*fam.Prop{{Label: "r", Concrete: "-", Spec: str("maxLength"), Required: req}, {Label: "s", Spec: str("minLength"), Required: true}}}})
	}
	for _, name := range []string{"additional_properties", "additionalProperties", "plain", "raw", "value"} {
		out = append(out, member{name: "property named " + name, cfg: cfg, root: &fam.Spec{Kind: "object",
			Props: []*fam.Prop{{Label: "r", Concrete: name, Spec: str("maxLength")}, {Label: "s", Spec: str("minLength"), Required: true}}}})
		out = append(out, member{name: "property named " + name + " next to additionalProperties", cfg: cfg, root: &fam.Spec{Kind: "object", AddProps: "string",
			Props: []*fam.Prop{{Label: "r", Concrete: name, Spec: str("maxLength")}, {Label: "s", Spec: str("minLength"), Required: true}}}})
	}
	return out
}

func typesStringSlice() types.Type { return types.NewSlice(types.Typ[types.String]) }

// unionTypeIssues: a member whose root property is a union of primitive branches of DIFFERENT types declares no named type with a
// primitive underlying type — such a type would refuse the values of the other branches (the union is interface{}).
func unionTypeIssues(name string, fm *fam.FileModel) []fam.Issue {
	if !strings.HasPrefix(name, "anyOf of three primitive branches") {
		return nil
	}
	var out []fam.Issue
	var names []string
	for tn := range fm.Types {
		names = append(names, tn)
	}
	sort.Strings(names)
	for _, tn := range names {
		td := fm.Types[tn]
		switch td.Type {
		case "string", "int", "int64", "float64", "bool":
			out = append(out, fam.Issue{Rule: "A-MAP", Construct: "a union of branches of different primitive types is declared as one of them", Msg: fmt.Sprintf("type %s is declared as %s although the schema is an anyOf of string, integer and string branches: a value the integer branch accepts cannot be decoded (every branch counts when the common type of the branches is looked for)", tn, td.Type)})
		}
	}
	return out
}
