package props

import (
	"fmt"
	"os"
	"strings"

	"verif/checker/internal/core"
	"verif/checker/internal/fam"
	"verif/checker/internal/gen"
)

// position places a value spec in a root object in one of the standard positions.
var positions = []string{"required", "optional", "nullable-required", "nullable-optional", "def-required", "def-optional"}

func place(s *fam.Spec, pos string) *fam.Spec {
	v := s.Clone()
	p := &fam.Prop{Label: "p", Spec: v}
	switch pos {
	case "required":
		p.Required = true
	case "optional":
	case "nullable-required":
		v.Null = "after"
		p.Required = true
	case "nullable-optional":
		v.Null = "before"
	case "def-required":
		v.Ref = "$defs"
		p.Required = true
	case "def-optional":
		v.Ref = "definitions"
	}
	return &fam.Spec{Kind: "object", Props: []*fam.Prop{p}}
}

func subsets(kws []string) [][]string {
	var out [][]string
	for m := 0; m < 1<<len(kws); m++ {
		var s []string
		for i, k := range kws {
			if m&(1<<i) != 0 {
				s = append(s, k)
			}
		}
		out = append(out, s)
	}
	return out
}

// member is one family member under one configuration.
type member struct {
	name string
	cfg  gen.Config
	root *fam.Spec
}

// runMember explores a member and hands each world to check; bookkeeping of
// obligations, run failures and budgets is shared.
func runMember(c *core.Ctx, mb member, rules map[string]bool, budget int, check func(w *fam.World, fm *fam.FileModel) []fam.Issue) {
	worlds, complete := fam.Run(c.Prog, mb.cfg, mb.root, budget, nil)
	key := mb.name + " " + fam.CfgString(mb.cfg)
	if !complete {
		c.Undecided("A-UNDECIDED", "(families)", "fork budget for "+mb.name, "", fmt.Sprintf("more than %d worlds for %s", budget, key))
	}
	c.Counts["worlds"] += len(worlds)
	c.Counts["members"]++
	for wi, w := range worlds {
		if os.Getenv("VCHECK_DEBUG") != "" && wi < 3 && strings.Contains(key, os.Getenv("VCHECK_DEBUG")) {
			fmt.Printf("DEBUG %s world %v err=%v generr=%q\n", key, w.Script, w.Err, w.GenErr)
			for _, f := range w.Forks {
				fmt.Printf("   fork %q n=%d %s at %s\n", f.Key, f.N, f.Note, f.Pos)
			}
			if fm := w.Models["out.go"]; fm != nil && wi == 0 {
				fmt.Println(fm.F.R.Text)
			}
		}
		c.Counts["interpreter_steps"] += w.Steps
		var issues []fam.Issue
		issues = append(issues, w.RunIssues()...)
		if w.Err == nil && w.GenErr != "" {
			issues = append(issues, fam.Issue{Rule: "A-GENERR", Construct: "generator rejects a valid schema", Msg: "the generator returned an error for a supported schema: " + w.GenErr})
		}
		if w.Err == nil && w.GenErr == "" {
			issues = append(issues, w.SynIssues()...)
			fm := w.Models["out.go"]
			if fm != nil {
				c.Counts["skeleton_files"]++
				c.Counts["unmarshal_methods"] += len(fm.Methods)
				issues = append(issues, check(w, fm)...)
			}
		}
		wkey := fmt.Sprintf("%s world%v", key, w.Script)
		bad := 0
		for _, is := range issues {
			base := is.Rule
			if i := strings.IndexByte(base, ':'); i >= 0 {
				base = base[:i]
			}
			if !(rules[is.Rule] || rules[base] || is.Rule == "A-UNDECIDED" || is.Rule == "A-SYN" || is.Rule == "A-PANIC" || is.Rule == "A-GENERR") {
				continue
			}
			bad++
			fn := is.Site
			if fn == "" {
				fn = "(emitted code)"
			}
			kind := "violation"
			if is.Rule == "A-UNDECIDED" {
				kind = "undecided"
			}
			c.Report(core.Finding{Rule: is.Rule, Func: fn, Construct: is.Construct, Kind: kind, Msg: is.Msg + "  [first seen on: " + w.Describe() + "]"})
		}
		c.Obl("family", wkey, bad == 0, fmt.Sprintf("%d issue(s)", bad))
		if len(c.Samples) < 6 && w.Err == nil && w.GenErr == "" {
			if fm := w.Models["out.go"]; fm != nil {
				excerpt := fm.F.R.Text
				if len(excerpt) > 1400 {
					excerpt = excerpt[:1400] + "…"
				}
				c.Sample(map[string]any{"family_member": wkey, "forks": len(w.Forks), "steps": w.Steps, "skeleton_excerpt": excerpt, "issues": bad})
			}
		}
		for _, a := range w.Assume {
			seenAssume(c, a)
		}
		for _, e := range w.Ext {
			c.Trust("summary: " + e)
		}
	}
}

func seenAssume(c *core.Ctx, a string) {
	for _, x := range c.Assumptions {
		if x == a {
			return
		}
	}
	c.Assume(a)
}

func ruleSet(rs ...string) map[string]bool {
	m := map[string]bool{}
	for _, r := range rs {
		m[r] = true
	}
	return m
}
