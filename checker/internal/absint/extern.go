package absint

import (
	"fmt"
	"go/types"
	"math"
	"path/filepath"
	"strconv"
	"strings"
	"unicode"
	"unicode/utf8"

	"golang.org/x/tools/go/ssa"
)

// ExtFn is the summary of a function outside the module: the trusted base.
type ExtFn func(m *Machine, args []Value) Value

// ErrVal is the payload of an abstract error value.
type ErrVal struct {
	Msg     Str
	Wrapped []Value
	Name    string // sentinel name, if any
}

var errNamed = types.NewNamed(types.NewTypeName(0, nil, "abstractError", nil), types.NewStruct(nil, nil), nil)

func mkErr(msg Str, wrapped ...Value) Value {
	return Iface{T: errNamed, V: ErrVal{Msg: msg, Wrapped: wrapped}}
}

// MergoOpt models a mergo option value produced by a call.
type MergoOpt struct{ Name string }

// IgnoreOpt models a cmpopts option.
type IgnoreOpt struct{ Fields []string }

// ReflectVal models reflect.Value of an interface value.
type ReflectVal struct{ X Value }

// Event is something noteworthy the summaries observed (e.g. symbolic text used
// as a format string).
type Event struct {
	Kind string
	Msg  string
	Pos  string
}

func (m *Machine) event(kind, msg string) {
	m.Events = append(m.Events, Event{kind, msg, m.modulePos()})
}

// modulePos: position in the innermost module frame.
func (m *Machine) modulePos() string {
	for i := len(m.stack) - 1; i >= 0; i-- {
		if m.P.InModule(m.stack[i].fn) && m.stack[i].pos.IsValid() {
			return m.P.Pos(m.stack[i].pos)
		}
	}
	return "?"
}

// UsedExternals lists the summaries that were exercised (for the evidence).
func (m *Machine) UsedExternals() []string {
	var out []string
	for k := range m.usedExt {
		out = append(out, k)
	}
	return out
}

func (m *Machine) external(fn *ssa.Function, args []Value) Value {
	name := fn.String()
	if o := fn.Origin(); o != nil {
		name = o.String()
	}
	if m.usedExt == nil {
		m.usedExt = map[string]bool{}
	}
	if f, ok := m.ext[name]; ok {
		m.usedExt[name] = true
		return f(m, args)
	}
	// a synthetic wrapper / bound method / generic instance OF A MODULE FUNCTION is interpreted; an instance of a library generic
	// (slices.Sorted, maps.Keys, cmp.Or ...) is not: library code is only ever entered through a summary
	if fn.Synthetic != "" && fn.Blocks != nil && (m.P.InModule(fn) || interpretableLibraryGeneric(fn, name)) {
		// wrappers for embedded-field promotion etc. are interpreted
		fr := &frame{fn: fn, env: map[ssa.Value]Value{}, pos: fn.Pos()}
		for i, p := range fn.Params {
			fr.env[p] = args[i]
		}
		m.stack = append(m.stack, fr)
		defer func() { m.stack = m.stack[:len(m.stack)-1] }()
		return m.run(fr)
	}
	m.usedExt["(unsummarised) "+name] = true
	res := fn.Signature.Results()
	u := Unknown{Why: "no summary for " + name}
	switch res.Len() {
	case 0:
		return nil
	case 1:
		return u
	}
	t := make(Tuple, res.Len())
	for i := range t {
		t[i] = u
	}
	return t
}

// interpretableLibraryGeneric: instances of the plain-value helpers of slices / maps / cmp (standard library and x/exp) are
// executed exactly by the interpreter. Excluded: anything whose signature mentions an iterator (range-over-func is NOT
// interpreted) and the sorting / searching families (summarised or undecided).
func interpretableLibraryGeneric(fn *ssa.Function, name string) bool {
	pkg := name
	if i := strings.LastIndexByte(name, '.'); i >= 0 {
		pkg = name[:i]
	}
	switch pkg {
	case "slices", "golang.org/x/exp/slices", "maps", "golang.org/x/exp/maps", "cmp":
	default:
		return false
	}
	short := name[len(pkg)+1:]
	for _, p := range []string{"Sort", "Stable", "BinarySearch", "IsSorted", "Min", "Max", "Compact"} {
		if strings.HasPrefix(short, p) {
			return false
		}
	}
	mentionsIter := func(t *types.Tuple) bool {
		for i := 0; i < t.Len(); i++ {
			if strings.Contains(t.At(i).Type().String(), "iter.Seq") {
				return true
			}
			if sig, ok := t.At(i).Type().Underlying().(*types.Signature); ok {
				// a func(yield func(...) bool) parameter/result is an iterator in disguise
				if sig.Params().Len() == 1 {
					if _, isFn := sig.Params().At(0).Type().Underlying().(*types.Signature); isFn {
						return true
					}
				}
			}
		}
		return false
	}
	return !mentionsIter(fn.Signature.Params()) && !mentionsIter(fn.Signature.Results())
}

// Seq is the abstract value of an iter.Seq produced by maps.Keys / maps.Values / slices.Values: the elements in the
// interpreter's (insertion) order. Whether that order may reach the output is B-DET's business, as for range-over-map.
type Seq struct{ Vals []Value }

func strArg(m *Machine, v Value) Str {
	switch x := v.(type) {
	case Str:
		return x
	case Bytes:
		return x.S
	case Unknown:
		panic(m.undecided("string argument is unknown (%s)", x.Why))
	}
	panic(m.undecided("expected a string, got %T", v))
}

func concArg(m *Machine, v Value, what string) string {
	s := strArg(m, v)
	c, ok := s.Concrete()
	if !ok {
		panic(m.undecided("%s needs a concrete string, got %s", what, s.Debug()))
	}
	return c
}

func (m *Machine) builderOf(p Value) *Str {
	pp, ok := p.(Ptr)
	if !ok || pp.P == nil {
		panic(m.undecided("strings.Builder method on %T", p))
	}
	b, ok := m.builders[pp.P]
	if !ok {
		b = &Str{}
		m.builders[pp.P] = b
	}
	return b
}

func externals() map[string]ExtFn {
	e := map[string]ExtFn{}
	// ---- strings.Builder
	e["(*strings.Builder).WriteString"] = func(m *Machine, a []Value) Value {
		b := m.builderOf(a[0])
		*b = Cat(*b, strArg(m, a[1]))
		return Tuple{int64(0), Iface{}}
	}
	e["(*strings.Builder).WriteRune"] = func(m *Machine, a []Value) Value {
		b := m.builderOf(a[0])
		switch r := a[1].(type) {
		case int64:
			*b = Cat(*b, Lit(string(rune(r))))
		case Num:
			*b = Cat(*b, HoleStr(r.A))
		}
		return Tuple{int64(0), Iface{}}
	}
	e["(*strings.Builder).WriteByte"] = func(m *Machine, a []Value) Value {
		b := m.builderOf(a[0])
		*b = Cat(*b, Lit(string(rune(a[1].(int64)))))
		return Iface{}
	}
	e["(*strings.Builder).String"] = func(m *Machine, a []Value) Value { return *m.builderOf(a[0]) }
	e["(*strings.Builder).Len"] = func(m *Machine, a []Value) Value {
		b := *m.builderOf(a[0])
		if c, ok := b.Concrete(); ok {
			return int64(len(c))
		}
		return SymInt{S: b}
	}
	// ---- fmt
	e["fmt.Sprintf"] = func(m *Machine, a []Value) Value { return m.sprintf(strArg(m, a[0]), SliceValues(a[1])) }
	e["fmt.Errorf"] = func(m *Machine, a []Value) Value {
		args := SliceValues(a[1])
		var wrapped []Value
		for _, x := range args {
			if iv, ok := x.(Iface); ok && iv.T == errNamed {
				wrapped = append(wrapped, x)
			}
		}
		return mkErr(m.sprintf(strArg(m, a[0]), args), wrapped...)
	}
	e["fmt.Fprintf"] = func(m *Machine, a []Value) Value {
		w, ok := a[0].(Iface)
		if !ok || w.T == nil || w.T.String() != "*strings.Builder" {
			panic(m.undecided("fmt.Fprintf to a writer that is not a *strings.Builder (%v)", a[0]))
		}
		b := m.builderOf(w.V)
		*b = Cat(*b, m.sprintf(strArg(m, a[1]), SliceValues(a[2])))
		return Tuple{int64(0), Iface{}}
	}
	e["fmt.Sprint"] = func(m *Machine, a []Value) Value {
		var parts []Str
		for _, x := range SliceValues(a[0]) {
			parts = append(parts, m.formatVerb('v', "", x))
		}
		return Cat(parts...)
	}
	// ---- errors
	e["errors.New"] = func(m *Machine, a []Value) Value { return mkErr(strArg(m, a[0])) }
	// encoding/json.Unmarshal on the five document shapes of JSONDoc (see jsondoc.go); any other input stays unsummarised
	e["encoding/json.Unmarshal"] = jsonUnmarshalModel
	e["github.com/pkg/errors.New"] = e["errors.New"]
	e["errors.Join"] = func(m *Machine, a []Value) Value {
		var parts []Str
		var wr []Value
		for _, x := range SliceValues(a[0]) {
			if iv, ok := x.(Iface); ok && iv.T != nil {
				wr = append(wr, x)
				if ev, ok := iv.V.(ErrVal); ok {
					parts = append(parts, ev.Msg, Lit("\n"))
				}
			}
		}
		if len(wr) == 0 {
			return Iface{}
		}
		return mkErr(Cat(parts...), wr...)
	}
	e["errors.Is"] = func(m *Machine, a []Value) Value {
		var is func(x Value) bool
		is = func(x Value) bool {
			iv, ok := x.(Iface)
			if !ok || iv.T == nil {
				return false
			}
			if t, _ := m.Equal(x, a[1]); t == Yes {
				return true
			}
			if ev, ok := iv.V.(ErrVal); ok {
				for _, w := range ev.Wrapped {
					if is(w) {
						return true
					}
				}
			}
			return false
		}
		return is(a[0])
	}
	// ---- strings
	e["strings.Join"] = func(m *Machine, a []Value) Value {
		sep := strArg(m, a[1])
		var parts []Str
		for i, x := range SliceValues(a[0]) {
			if i > 0 {
				parts = append(parts, sep)
			}
			parts = append(parts, strArg(m, x))
		}
		return Cat(parts...)
	}
	e["strings.ToUpper"] = func(m *Machine, a []Value) Value {
		return strArg(m, a[0]).MapHoles("upper", strings.ToUpper)
	}
	e["strings.ToLower"] = func(m *Machine, a []Value) Value {
		return strArg(m, a[0]).MapHoles("lower", strings.ToLower)
	}
	e["strings.TrimSpace"] = func(m *Machine, a []Value) Value {
		s := strArg(m, a[0])
		if c, ok := s.Concrete(); ok {
			return Lit(strings.TrimSpace(c))
		}
		// trim only the literal ends; holes keep a marker
		out := append([]Piece{}, s.P...)
		if len(out) > 0 && out[0].Hole == nil {
			out[0] = Piece{Lit: strings.TrimLeft(out[0].Lit, " \t\r\n")}
		}
		if n := len(out); n > 0 && out[n-1].Hole == nil {
			out[n-1] = Piece{Lit: strings.TrimRight(out[n-1].Lit, " \t\r\n")}
		}
		// a symbolic part at either end loses its own outer white space: it is no longer the text that was written
		mark := func(i int) {
			if h := out[i].Hole; h != nil {
				for _, t := range h.Tr {
					if t == "trimspace" {
						return
					}
				}
				nh := *h
				nh.Tr = append(append([]string{}, h.Tr...), "trimspace")
				out[i] = Piece{Hole: &nh}
			}
		}
		if len(out) > 0 {
			mark(0)
			mark(len(out) - 1)
		}
		return Cat(Str{P: out})
	}
	e["(reflect.Value).IsZero"] = func(m *Machine, a []Value) Value {
		rv := a[0].(ReflectVal)
		var z func(v Value) bool
		z = func(v Value) bool {
			switch x := v.(type) {
			case nil:
				return true
			case bool:
				return !x
			case int64:
				return x == 0
			case float64:
				return x == 0
			case Str:
				if c, ok := x.Concrete(); ok {
					return c == ""
				}
				for _, p := range x.P {
					if p.Hole != nil && p.Hole.A.NonEmpty {
						return false
					}
				}
				panic(m.undecided("reflect IsZero of a symbolic string that may be empty"))
			case Iface:
				if x.T == nil {
					return true
				}
				return z(x.V)
			case Ptr:
				return x.P == nil
			case Slice:
				return x.Back == nil
			case *Map:
				return x == nil || x.Nil
			}
			panic(m.undecided("reflect IsZero of %T", v))
		}
		return z(rv.X)
	}
	e["strings.Contains"] = func(m *Machine, a []Value) Value {
		s, sub := strArg(m, a[0]), concArg(m, a[1], "strings.Contains substring")
		if c, ok := s.Concrete(); ok {
			return strings.Contains(c, sub)
		}
		for _, p := range s.P {
			if p.Hole == nil && strings.Contains(p.Lit, sub) {
				return true
			}
		}
		return m.Decide("contains:"+strKey(s)+":"+sub, 2, "substring of a symbolic string") == 1
	}
	e["strings.ContainsAny"] = func(m *Machine, a []Value) Value {
		s, chars := strArg(m, a[0]), concArg(m, a[1], "strings.ContainsAny chars")
		if c, ok := s.Concrete(); ok {
			return strings.ContainsAny(c, chars)
		}
		for _, p := range s.P {
			if p.Hole == nil && strings.ContainsAny(p.Lit, chars) {
				return true
			}
		}
		return m.Decide("containsany:"+strKey(s)+":"+chars, 2, "character class of a symbolic string") == 1
	}
	e["strings.HasPrefix"] = func(m *Machine, a []Value) Value {
		s, pre := strArg(m, a[0]), concArg(m, a[1], "strings.HasPrefix prefix")
		lead := leadingLit(s)
		if c, ok := s.Concrete(); ok {
			return strings.HasPrefix(c, pre)
		}
		if len(lead) >= len(pre) {
			return strings.HasPrefix(lead, pre)
		}
		if !strings.HasPrefix(pre, lead) {
			return false
		}
		// a synthesised identifier starts with an upper-case letter
		if lead == "" && len(s.P) > 0 && s.P[0].Hole != nil && s.P[0].Hole.A.Kind == "Ident" && len(s.P[0].Hole.Tr) == 0 && pre != "" {
			if r := rune(pre[0]); r < 'A' || r > 'Z' {
				return false
			}
		}
		return m.Decide("hasprefix:"+strKey(s)+":"+pre, 2, "prefix of a symbolic string") == 1
	}
	e["strings.HasSuffix"] = func(m *Machine, a []Value) Value {
		s, suf := strArg(m, a[0]), concArg(m, a[1], "strings.HasSuffix suffix")
		if c, ok := s.Concrete(); ok {
			return strings.HasSuffix(c, suf)
		}
		if n := len(s.P); n > 0 && s.P[n-1].Hole == nil && len(s.P[n-1].Lit) >= len(suf) {
			return strings.HasSuffix(s.P[n-1].Lit, suf)
		}
		return m.Decide("hassuffix:"+strKey(s)+":"+suf, 2, "suffix of a symbolic string") == 1
	}
	e["strings.TrimSuffix"] = func(m *Machine, a []Value) Value {
		s, suf := strArg(m, a[0]), concArg(m, a[1], "strings.TrimSuffix suffix")
		if c, ok := s.Concrete(); ok {
			return Lit(strings.TrimSuffix(c, suf))
		}
		if n := len(s.P); n > 0 && s.P[n-1].Hole == nil && len(s.P[n-1].Lit) >= len(suf) {
			out := append([]Piece{}, s.P...)
			out[n-1] = Piece{Lit: strings.TrimSuffix(out[n-1].Lit, suf)}
			return Cat(Str{P: out})
		}
		if m.Decide("hassuffix:"+strKey(s)+":"+suf, 2, "suffix of a symbolic string") == 1 {
			return s.MapHoles("trimsuffix:"+suf, func(x string) string { return x })
		}
		return s
	}
	e["strings.TrimPrefix"] = func(m *Machine, a []Value) Value {
		s, pre := strArg(m, a[0]), concArg(m, a[1], "strings.TrimPrefix prefix")
		if c, ok := s.Concrete(); ok {
			return Lit(strings.TrimPrefix(c, pre))
		}
		lead := leadingLit(s)
		if len(lead) >= len(pre) {
			if strings.HasPrefix(lead, pre) {
				return dropPrefix(s, len(pre))
			}
			return s
		}
		if !strings.HasPrefix(pre, lead) {
			return s
		}
		if lead == "" && len(s.P) > 0 && s.P[0].Hole != nil && s.P[0].Hole.A.Kind == "Ident" && len(s.P[0].Hole.Tr) == 0 && pre != "" {
			if r := rune(pre[0]); r < 'A' || r > 'Z' {
				return s
			}
		}
		if m.Decide("hasprefix:"+strKey(s)+":"+pre, 2, "prefix of a symbolic string") == 1 {
			return s.MapHoles("trimprefix:"+pre, func(x string) string { return x })
		}
		return s
	}
	e["strings.IndexRune"] = func(m *Machine, a []Value) Value {
		s := strArg(m, a[0])
		r := rune(a[1].(int64))
		if c, ok := s.Concrete(); ok {
			return int64(strings.IndexRune(c, r))
		}
		lead := leadingLit(s)
		if i := strings.IndexRune(lead, r); i >= 0 {
			return int64(i)
		}
		// not in the literal prefix: assume the symbolic part does not contain it (recorded)
		for _, p := range s.P {
			if p.Hole == nil && strings.ContainsRune(p.Lit, r) {
				panic(m.undecided("IndexRune hit after a symbolic part"))
			}
		}
		m.Assume(fmt.Sprintf("symbolic names do not contain %q", r))
		return int64(-1)
	}
	// strings.Cut(s, sep): decided like IndexRune — the separator is looked for in the literal prefix; a symbolic part is assumed
	// not to contain it (recorded), a hit after a symbolic part is undecided
	e["strings.Cut"] = func(m *Machine, a []Value) Value {
		s, sep := strArg(m, a[0]), concArg(m, a[1], "strings.Cut separator")
		if c, ok := s.Concrete(); ok {
			b, af, found := strings.Cut(c, sep)
			return Tuple{Lit(b), Lit(af), found}
		}
		lead := leadingLit(s)
		if i := strings.Index(lead, sep); i >= 0 {
			return Tuple{Lit(lead[:i]), dropPrefix(s, i+len(sep)), true}
		}
		for _, p := range s.P {
			if p.Hole == nil && sep != "" && strings.Contains(p.Lit, sep) {
				panic(m.undecided("strings.Cut: separator after a symbolic part"))
			}
		}
		m.Assume(fmt.Sprintf("symbolic names do not contain %q", sep))
		return Tuple{s, Lit(""), false}
	}
	e["strings.CutPrefix"] = func(m *Machine, a []Value) Value {
		has := e["strings.HasPrefix"](m, a).(bool)
		if !has {
			return Tuple{strArg(m, a[0]), false}
		}
		return Tuple{e["strings.TrimPrefix"](m, a), true}
	}
	e["strings.CutSuffix"] = func(m *Machine, a []Value) Value {
		has := e["strings.HasSuffix"](m, a).(bool)
		if !has {
			return Tuple{strArg(m, a[0]), false}
		}
		return Tuple{e["strings.TrimSuffix"](m, a), true}
	}
	e["strings.IndexByte"] = func(m *Machine, a []Value) Value {
		return e["strings.IndexRune"](m, []Value{a[0], a[1]})
	}
	e["strings.ContainsRune"] = func(m *Machine, a []Value) Value {
		return e["strings.IndexRune"](m, a).(int64) >= 0
	}
	// time.Parse: the parsed value is opaque; whether the text parses is a decision of the world
	e["time.Parse"] = func(m *Machine, a []Value) Value {
		if m.Decide("timeparse:"+strKey(strArg(m, a[1])), 2, "whether the text is a time in the given layout") == 1 {
			return Tuple{Unknown{Why: "zero time"}, mkErr(Lit("parsing time: cannot parse"))}
		}
		return Tuple{Unknown{Why: "a parsed time"}, Iface{}}
	}
	e["strings.Index"] = func(m *Machine, a []Value) Value {
		return int64(strings.Index(concArg(m, a[0], "strings.Index"), concArg(m, a[1], "strings.Index")))
	}
	e["strings.LastIndex"] = func(m *Machine, a []Value) Value {
		return int64(strings.LastIndex(concArg(m, a[0], "strings.LastIndex"), concArg(m, a[1], "strings.LastIndex")))
	}
	e["strings.EqualFold"] = func(m *Machine, a []Value) Value {
		x, y := strArg(m, a[0]), strArg(m, a[1])
		cx, okx := x.Concrete()
		cy, oky := y.Concrete()
		if okx && oky {
			return strings.EqualFold(cx, cy)
		}
		kx, ky := strKey(x), strKey(y)
		return m.Decide("equalfold:"+kx+"~"+ky, 2, "case-insensitive equality with a symbolic string") == 1
	}
	e["strings.Split"] = func(m *Machine, a []Value) Value {
		s, sep := strArg(m, a[0]), concArg(m, a[1], "strings.Split separator")
		strT := types.Typ[types.String]
		if c, ok := s.Concrete(); ok {
			var out []Value
			for _, part := range strings.Split(c, sep) {
				out = append(out, Lit(part))
			}
			return m.NewSliceOf(strT, out...)
		}
		// symbolic text: one representative element in which no piece contains the separator
		m.Assume("text split on " + strconv.Quote(sep) + " is represented by one generic line (every line is treated alike)")
		rep := s.MapHoles("no:"+sep, func(x string) string { return strings.ReplaceAll(x, sep, " ") })
		return m.NewSliceOf(strT, rep)
	}
	// unicode/utf8 on concrete text (symbolic text stays undecided: the code under analysis reads runes of schema text)
	e["unicode/utf8.DecodeRuneInString"] = func(m *Machine, a []Value) Value {
		if c, ok := strArg(m, a[0]).Concrete(); ok {
			r, n := utf8.DecodeRuneInString(c)
			return Tuple{int64(r), int64(n)}
		}
		panic(m.undecided("utf8.DecodeRuneInString of a symbolic string"))
	}
	e["unicode/utf8.DecodeLastRuneInString"] = func(m *Machine, a []Value) Value {
		if c, ok := strArg(m, a[0]).Concrete(); ok {
			r, n := utf8.DecodeLastRuneInString(c)
			return Tuple{int64(r), int64(n)}
		}
		panic(m.undecided("utf8.DecodeLastRuneInString of a symbolic string"))
	}
	e["unicode/utf8.RuneCountInString"] = func(m *Machine, a []Value) Value {
		if c, ok := strArg(m, a[0]).Concrete(); ok {
			return int64(utf8.RuneCountInString(c))
		}
		panic(m.undecided("utf8.RuneCountInString of a symbolic string"))
	}
	e["strings.Repeat"] = func(m *Machine, a []Value) Value {
		return Lit(strings.Repeat(concArg(m, a[0], "strings.Repeat"), int(a[1].(int64))))
	}
	// ---- unicode on concrete runes and rune classes
	uni := func(name string, f func(rune) bool) {
		e["unicode."+name] = func(m *Machine, a []Value) Value {
			switch r := a[0].(type) {
			case int64:
				return f(rune(r))
			case Num:
				return classPredicate(m, r.A, name)
			}
			panic(m.undecided("unicode.%s on %T", name, a[0]))
		}
	}
	uni("IsLower", unicode.IsLower)
	uni("IsUpper", unicode.IsUpper)
	uni("IsLetter", unicode.IsLetter)
	uni("IsNumber", unicode.IsNumber)
	uni("IsDigit", unicode.IsDigit)
	uni("IsPunct", unicode.IsPunct)
	uni("IsSymbol", unicode.IsSymbol)
	uni("IsSpace", unicode.IsSpace)
	uni("IsMark", unicode.IsMark)
	uni("IsControl", unicode.IsControl)
	uni("IsTitle", unicode.IsTitle)
	uni("IsGraphic", unicode.IsGraphic)
	uni("IsPrint", unicode.IsPrint)
	e["unicode.ToUpper"] = func(m *Machine, a []Value) Value {
		switch r := a[0].(type) {
		case int64:
			return int64(unicode.ToUpper(rune(r)))
		case Num:
			return Num{A: classToUpper(m, r.A)}
		}
		panic(m.undecided("unicode.ToUpper on %T", a[0]))
	}
	e["unicode.ToLower"] = func(m *Machine, a []Value) Value {
		switch r := a[0].(type) {
		case int64:
			return int64(unicode.ToLower(rune(r)))
		case Num:
			return Num{A: classToLower(m, r.A)}
		}
		panic(m.undecided("unicode.ToLower on %T", a[0]))
	}
	// ---- sort
	e["maps.Keys"] = func(m *Machine, a []Value) Value {
		mp, _ := a[0].(*Map)
		if mp == nil || mp.Nil {
			return Seq{}
		}
		return Seq{Vals: append([]Value{}, mp.Keys...)}
	}
	e["maps.Values"] = func(m *Machine, a []Value) Value {
		mp, _ := a[0].(*Map)
		if mp == nil || mp.Nil {
			return Seq{}
		}
		return Seq{Vals: append([]Value{}, mp.Vals...)}
	}
	e["slices.Values"] = func(m *Machine, a []Value) Value {
		s, _ := a[0].(Slice)
		return Seq{Vals: SliceValues(s)}
	}
	collect := func(m *Machine, fn string, a []Value, sorted bool) Value {
		sq, ok := a[0].(Seq)
		if !ok {
			panic(m.undecided("%s on %T (only sequences built by maps.Keys/Values, slices.Values are modelled)", fn, a[0]))
		}
		vs := append([]Value{}, sq.Vals...)
		var et types.Type = types.Typ[types.String]
		if sorted {
			for _, v := range vs {
				if _, isStr := v.(Str); !isStr {
					panic(m.undecided("%s of non-string elements", fn))
				}
			}
			m.sortStrs(vs)
		} else if len(vs) > 0 {
			if _, isStr := vs[0].(Str); !isStr {
				panic(m.undecided("%s of non-string elements (element type unknown to the model)", fn))
			}
		}
		return m.NewSliceOf(et, vs...)
	}
	e["slices.Sorted"] = func(m *Machine, a []Value) Value { return collect(m, "slices.Sorted", a, true) }
	e["slices.Collect"] = func(m *Machine, a []Value) Value { return collect(m, "slices.Collect", a, false) }
	e["sort.Strings"] = func(m *Machine, a []Value) Value {
		s := a[0].(Slice)
		if s.Back != nil {
			vs := SliceValues(s)
			m.sortStrs(vs)
			for i, v := range vs {
				*s.At(i) = v
			}
		}
		return nil
	}
	sortSlice := func(m *Machine, a []Value) Value {
		iv := a[0].(Iface)
		s := iv.V.(Slice)
		less := a[1]
		n := s.Len()
		// stable insertion sort calling the interpreted comparator
		for i := 1; i < n; i++ {
			for j := i; j > 0; j-- {
				r := m.Call(less, []Value{int64(j), int64(j - 1)})
				if b, ok := r.(bool); !ok || !b {
					break
				}
				x, y := *s.At(j), *s.At(j - 1)
				*s.At(j), *s.At(j - 1) = y, x
			}
		}
		return nil
	}
	e["sort.Slice"] = sortSlice
	e["sort.SliceStable"] = sortSlice
	e["golang.org/x/exp/slices.SortStableFunc"] = func(m *Machine, a []Value) Value {
		s := a[0].(Slice)
		cmp := a[1]
		n := s.Len()
		for i := 1; i < n; i++ {
			for j := i; j > 0; j-- {
				r := m.Call(cmp, []Value{Copy(*s.At(j)), Copy(*s.At(j - 1))})
				if c, ok := r.(int64); !ok || c >= 0 {
					break
				}
				x, y := *s.At(j), *s.At(j - 1)
				*s.At(j), *s.At(j - 1) = y, x
			}
		}
		return nil
	}
	e["slices.SortStableFunc"] = e["golang.org/x/exp/slices.SortStableFunc"]
	// ---- misc
	e["path/filepath.Base"] = func(m *Machine, a []Value) Value {
		s := strArg(m, a[0])
		if c, ok := s.Concrete(); ok {
			return Lit(filepath.Base(c))
		}
		return s.MapHoles("base", filepath.Base)
	}
	for _, n := range []string{"path.Ext", "path/filepath.Ext"} {
		n := n
		e[n] = func(m *Machine, a []Value) Value {
			s := strArg(m, a[0])
			if c, ok := s.Concrete(); ok {
				return Lit(filepath.Ext(c))
			}
			panic(m.undecided("%s of a symbolic name", n))
		}
	}
	for _, n := range []string{"path.Dir", "path/filepath.Dir", "path.Clean", "path/filepath.Clean"} {
		n := n
		if _, have := e[n]; have {
			continue
		}
		e[n] = func(m *Machine, a []Value) Value {
			s := strArg(m, a[0])
			if c, ok := s.Concrete(); ok {
				if strings.HasSuffix(n, "Dir") {
					return Lit(filepath.Dir(c))
				}
				return Lit(filepath.Clean(c))
			}
			panic(m.undecided("%s of a symbolic name", n))
		}
	}
	rounding := func(name string, f func(float64) float64) {
		e["math."+name] = func(m *Machine, a []Value) Value {
			switch x := a[0].(type) {
			case float64:
				return f(x)
			case Num:
				if m.Integral(x.A) {
					return x
				}
				// rounding an already rounded value (plus an integer offset) changes nothing
				if k := len(x.Tr); k > 0 && isRounding(x.Tr[k-1]) && x.Off == math.Trunc(x.Off) {
					return x
				}
				r := x
				r.Tr = append([]string{}, x.Tr...)
				if x.Off != 0 {
					// keep the order of operations: the offset was applied BEFORE this rounding
					r.Tr = append(r.Tr, fmt.Sprintf("%+g", x.Off))
					r.Off = 0
				}
				r.Tr = append(r.Tr, strings.ToLower(name))
				return r
			}
			panic(m.undecided("math.%s on %T", name, a[0]))
		}
	}
	rounding("Round", math.Round)
	rounding("Trunc", math.Trunc)
	rounding("Ceil", math.Ceil)
	rounding("Floor", math.Floor)
	e["math.Abs"] = func(m *Machine, a []Value) Value {
		if x, ok := a[0].(float64); ok {
			return math.Abs(x)
		}
		panic(m.undecided("math.Abs on %T", a[0]))
	}
	e["github.com/mitchellh/go-wordwrap.WrapString"] = func(m *Machine, a []Value) Value {
		s := strArg(m, a[0])
		if c, ok := s.Concrete(); ok {
			// wrapping inserts newlines at spaces; the generic-line abstraction of strings.Split covers it
			return Lit(c)
		}
		return s
	}
	e["github.com/sanity-io/litter.Sdump"] = func(m *Machine, a []Value) Value {
		var parts []Str
		for _, x := range SliceValues(a[0]) {
			parts = append(parts, m.goLiteral(x, 0))
		}
		return Cat(parts...)
	}
	e["go/format.Source"] = func(m *Machine, a []Value) Value {
		// gofmt is modelled as the identity on text that parses; whether the text parses is decided by A-SYN on the skeleton
		return Tuple{a[0], Iface{}}
	}
	e["dario.cat/mergo.Merge"] = func(m *Machine, a []Value) Value {
		di, _ := a[0].(Iface)
		si, _ := a[1].(Iface)
		dp, ok := di.V.(Ptr)
		if !ok || dp.P == nil || di.T == nil {
			panic(m.undecided("mergo.Merge destination is not a pointer"))
		}
		pt, ok := di.T.Underlying().(*types.Pointer)
		if !ok {
			panic(m.undecided("mergo.Merge destination is not a pointer type"))
		}
		var src Value = si.V
		if sp, ok := si.V.(Ptr); ok {
			if sp.P == nil {
				return Iface{}
			}
			src = *sp.P
		}
		// options: only the ones the model understands
		appendSlice, transformers := false, false
		m.mergoNoDeref = false
		for _, o := range SliceValues(a[2]) {
			switch x := o.(type) {
			case *ssa.Function:
				switch x.Name() {
				case "WithAppendSlice":
					appendSlice = true
				case "WithoutDereference":
					m.mergoNoDeref = true
				default:
					panic(m.undecided("mergo option %s is not modelled", x.Name()))
				}
			case MergoOpt:
				if x.Name == "transformers" {
					transformers = true
				}
			default:
				panic(m.undecided("a mergo option of kind %T is not modelled", o))
			}
		}
		if !appendSlice {
			panic(m.undecided("mergo.Merge without WithAppendSlice is not modelled"))
		}
		skip := func(t types.Type) bool {
			n, ok := t.(*types.Named)
			return transformers && ok && n.Obj().Name() == "TypeList" // the registered transformer does nothing for this type
		}
		m.Assume("mergo.Merge is modelled: empty destination fields take the source, slices are appended, maps merge key-wise (shared keys deep-merge), nil pointers are shared, TypeList is left to its (no-op) transformer")
		m.mergoMerge(dp.P, src, pt.Elem(), skip, 0)
		return Iface{}
	}
	e["dario.cat/mergo.WithTransformers"] = func(m *Machine, a []Value) Value { return MergoOpt{Name: "transformers"} }
	e["github.com/google/go-cmp/cmp.Equal"] = func(m *Machine, a []Value) Value {
		xi, _ := a[0].(Iface)
		yi, _ := a[1].(Iface)
		if xi.T == nil || yi.T == nil {
			return xi.T == nil && yi.T == nil
		}
		if !types.Identical(xi.T, yi.T) {
			return false
		}
		ign := map[string]bool{}
		for _, o := range SliceValues(a[2]) {
			if io, ok := o.(IgnoreOpt); ok {
				for _, f := range io.Fields {
					ign[f] = true
				}
			}
		}
		m.Assume("cmp.Equal with cmpopts.IgnoreUnexported/IgnoreFields is modelled as typed structural equality over exported, non-ignored fields")
		return m.typedEqual(xi.V, yi.V, xi.T, ign, 0)
	}
	e["github.com/google/go-cmp/cmp/cmpopts.IgnoreUnexported"] = func(m *Machine, a []Value) Value { return IgnoreOpt{} }
	e["github.com/google/go-cmp/cmp/cmpopts.IgnoreFields"] = func(m *Machine, a []Value) Value {
		var fs []string
		for _, n := range SliceValues(a[1]) {
			if s, ok := n.(Str); ok {
				if c, ok := s.Concrete(); ok {
					fs = append(fs, c)
				}
			}
		}
		return IgnoreOpt{Fields: fs}
	}
	e["reflect.ValueOf"] = func(m *Machine, a []Value) Value { return ReflectVal{a[0]} }
	e["(reflect.Value).Kind"] = func(m *Machine, a []Value) Value {
		rv := a[0].(ReflectVal)
		iv, _ := rv.X.(Iface)
		if iv.T == nil {
			return int64(0)
		}
		switch u := iv.T.Underlying().(type) {
		case *types.Slice:
			return int64(23)
		case *types.Map:
			return int64(21)
		case *types.Struct:
			return int64(25)
		case *types.Pointer:
			return int64(22)
		case *types.Basic:
			switch {
			case u.Info()&types.IsString != 0:
				return int64(24)
			case u.Info()&types.IsBoolean != 0:
				return int64(1)
			case u.Kind() == types.Float64:
				return int64(14)
			case u.Kind() == types.Int:
				return int64(2)
			}
		}
		panic(m.undecided("reflect Kind of %s", iv.T))
	}
	e["reflect.DeepEqual"] = func(m *Machine, a []Value) Value {
		return m.deepEqual(a[0], a[1], map[[2]*Value]bool{})
	}
	return e
}

// deepEqual mirrors reflect.DeepEqual on abstract values.
func (m *Machine) deepEqual(x, y Value, seen map[[2]*Value]bool) bool {
	switch a := x.(type) {
	case Iface:
		b, ok := y.(Iface)
		if !ok {
			return false
		}
		if a.T == nil || b.T == nil {
			return a.T == nil && b.T == nil
		}
		if !types.Identical(a.T, b.T) {
			return false
		}
		return m.deepEqual(a.V, b.V, seen)
	case Ptr:
		b, ok := y.(Ptr)
		if !ok {
			return false
		}
		if a.P == b.P {
			return true
		}
		if a.P == nil || b.P == nil {
			return false
		}
		k := [2]*Value{a.P, b.P}
		if seen[k] {
			return true
		}
		seen[k] = true
		return m.deepEqual(*a.P, *b.P, seen)
	case Struct:
		b, ok := y.(Struct)
		if !ok || len(a.F) != len(b.F) {
			return false
		}
		for i := range a.F {
			if !m.deepEqual(a.F[i], b.F[i], seen) {
				return false
			}
		}
		return true
	case Array:
		b, ok := y.(Array)
		if !ok || len(a.E) != len(b.E) {
			return false
		}
		for i := range a.E {
			if !m.deepEqual(a.E[i], b.E[i], seen) {
				return false
			}
		}
		return true
	case Slice:
		b, ok := y.(Slice)
		if !ok || a.IsNil() != b.IsNil() || a.Len() != b.Len() {
			return false
		}
		for i := 0; i < a.Len(); i++ {
			if !m.deepEqual(*a.At(i), *b.At(i), seen) {
				return false
			}
		}
		return true
	case *Map:
		b, ok := y.(*Map)
		if !ok {
			return false
		}
		if IsNilValue(a) != IsNilValue(b) {
			return false
		}
		if IsNilValue(a) {
			return true
		}
		if a == b {
			return true
		}
		if len(a.Keys) != len(b.Keys) {
			return false
		}
		for i, k := range a.Keys {
			v, ok := m.MapLookup(b, k)
			if !ok || !m.deepEqual(a.Vals[i], v, seen) {
				return false
			}
		}
		return true
	case *Closure:
		b, _ := y.(*Closure)
		return a == nil && b == nil
	case *ssa.Function:
		return a == nil && IsNilValue(y)
	case Str:
		b, ok := y.(Str)
		return ok && strKey(a) == strKey(b)
	case Num:
		b, ok := y.(Num)
		return ok && a.A == b.A && a.Off == b.Off && strings.Join(a.Tr, ",") == strings.Join(b.Tr, ",")
	case nil:
		return y == nil
	}
	t, _ := m.Equal(x, y)
	return t == Yes
}

// ---- fmt --------------------------------------------------------------------------

// fmtSite names the innermost module frame outside the Emitter: the place where
// text is being formatted.
func (m *Machine) fmtSite() (fn, pos string) {
	for i := len(m.stack) - 1; i >= 0; i-- {
		f := m.stack[i]
		if !m.P.InModule(f.fn) {
			continue
		}
		name := m.P.FuncName(f.fn)
		if strings.Contains(name, "codegen.Emitter).") {
			continue
		}
		return name, m.P.Pos(f.pos)
	}
	return "?", "?"
}

func (m *Machine) tagSite(s Str, format string, arg int) Str {
	fn, pos := m.fmtSite()
	out := make([]Piece, len(s.P))
	for i, p := range s.P {
		if p.Hole != nil && p.Hole.Site == "" {
			h := *p.Hole
			h.Site = fn + " :: " + strconv.Quote(format) + fmt.Sprintf(" arg%d", arg)
			h.SitePos = pos
			out[i] = Piece{Hole: &h}
		} else {
			out[i] = p
		}
	}
	return Str{P: out}
}

func (m *Machine) sprintf(format Str, args []Value) Str {
	fmtText := format.Debug()
	if format.HasHole() {
		m.event("symbolic-format", "schema-controlled text is used as a printf format string: "+format.Debug())
	}
	var out []Str
	argi := 0
	for _, p := range format.P {
		if p.Hole != nil {
			out = append(out, Str{P: []Piece{p}})
			continue
		}
		f := p.Lit
		for i := 0; i < len(f); {
			if f[i] != '%' {
				j := strings.IndexByte(f[i:], '%')
				if j < 0 {
					j = len(f) - i
				}
				out = append(out, Lit(f[i:i+j]))
				i += j
				continue
			}
			// parse verb
			j := i + 1
			for j < len(f) && strings.ContainsRune("+-# 0123456789.", rune(f[j])) {
				j++
			}
			if j >= len(f) {
				out = append(out, Lit("%!(NOVERB)"))
				break
			}
			verb := rune(f[j])
			flags := f[i+1 : j]
			i = j + 1
			if verb == '%' {
				out = append(out, Lit("%"))
				continue
			}
			if argi >= len(args) {
				out = append(out, Lit("%!"+string(verb)+"(MISSING)"))
				m.event("format-missing-arg", "format "+strconv.Quote(f)+" has more verbs than arguments")
				continue
			}
			out = append(out, m.tagSite(m.formatVerb(verb, flags, args[argi]), fmtText, argi))
			argi++
		}
	}
	if argi < len(args) {
		m.event("format-extra-arg", "format has fewer verbs than arguments: "+format.Debug())
	}
	return Cat(out...)
}

func (m *Machine) formatVerb(verb rune, flags string, v Value) Str {
	if iv, ok := v.(Iface); ok {
		if iv.T == nil {
			switch verb {
			case 'v', 's':
				return Lit("<nil>")
			case 'T':
				return Lit("<nil>")
			}
			return Lit("%!" + string(verb) + "(<nil>)")
		}
		if verb == 'T' {
			return Lit(types.TypeString(iv.T, func(p *types.Package) string { return p.Name() }))
		}
		if ev, ok := iv.V.(ErrVal); ok {
			return ev.Msg
		}
		// Stringer / error implemented in the module
		if fn := m.lookupStringer(iv.T); fn != nil && (verb == 'v' || verb == 's') {
			r := m.CallFunction(fn, []Value{iv.V}, nil)
			if s, ok := r.(Str); ok {
				return s
			}
		}
		return m.formatVerb(verb, flags, iv.V)
	}
	goFmt := "%" + flags + string(verb)
	switch x := v.(type) {
	case Str:
		switch verb {
		case 's', 'v':
			return x
		case 'q':
			return x.MapHoles("quoted", func(l string) string {
				q := strconv.Quote(l)
				return q[1 : len(q)-1]
			}).wrap(`"`, `"`)
		}
		if c, ok := x.Concrete(); ok {
			return Lit(fmt.Sprintf(goFmt, c))
		}
	case int64:
		return Lit(fmt.Sprintf(goFmt, x))
	case float64:
		return Lit(fmt.Sprintf(goFmt, x))
	case bool:
		return Lit(fmt.Sprintf(goFmt, x))
	case Num:
		tr := append(append([]string{}, x.Tr...), "fmt:"+goFmt)
		if x.Off != 0 {
			tr = append([]string{fmt.Sprintf("%+g", x.Off)}, tr...)
		}
		kind := "int"
		if x.IsFloat {
			kind = "float"
		}
		tr = append(tr, "kind:"+kind)
		return Str{P: []Piece{{Hole: &Hole{A: x.A, Tr: tr}}}}
	case SymInt:
		return Lit(fmt.Sprintf("<len%+d>", x.Off))
	case Ptr:
		if x.P == nil {
			return Lit("<nil>")
		}
		if verb == 'v' || verb == 's' {
			return Lit("&{...}")
		}
	case Struct:
		return Lit("{...}")
	case Slice:
		var parts []Str
		parts = append(parts, Lit("["))
		for i := 0; i < x.Len(); i++ {
			if i > 0 {
				parts = append(parts, Lit(" "))
			}
			parts = append(parts, m.formatVerb(verb, flags, *x.At(i)))
		}
		parts = append(parts, Lit("]"))
		return Cat(parts...)
	case *Map:
		if verb == 'v' {
			return Lit("map[...]")
		}
	case Unknown:
		panic(m.undecided("formatting an unknown value (%s)", x.Why))
	case nil:
		return Lit("<nil>")
	}
	panic(m.undecided("unsupported format verb %%%c for %T", verb, v))
}

func (s Str) wrap(l, r string) Str { return Cat(Lit(l), s, Lit(r)) }

func (m *Machine) lookupStringer(t types.Type) *ssa.Function {
	ms := m.P.SSA.MethodSets.MethodSet(t)
	for i := 0; i < ms.Len(); i++ {
		o := ms.At(i).Obj()
		if (o.Name() == "String" || o.Name() == "Error") && o.Exported() {
			if fn := m.P.SSA.MethodValue(ms.At(i)); fn != nil && m.P.InModule(fn) {
				return fn
			}
		}
	}
	return nil
}

// goLiteral renders an abstract value the way litter.Sdump does (trusted base:
// "a Go literal of the value's dynamic type"): strings quoted, ints as decimal,
// float64 with a decimal point, bool, nil, []interface{} and map literals.
func (m *Machine) goLiteral(v Value, depth int) Str {
	ind := strings.Repeat("  ", depth)
	switch x := v.(type) {
	case Iface:
		if x.T == nil {
			return Lit("nil")
		}
		return m.goLiteralTyped(x.V, x.T, depth)
	case Str:
		return m.formatVerb('q', "", x)
	case int64:
		return Lit(strconv.FormatInt(x, 10))
	case float64:
		s := strconv.FormatFloat(x, 'g', -1, 64)
		if !strings.ContainsAny(s, ".eE") {
			s += ".0"
		}
		return Lit(s)
	case bool:
		return Lit(strconv.FormatBool(x))
	case Num:
		kind := "int"
		if x.IsFloat {
			kind = "float"
		}
		return Str{P: []Piece{{Hole: &Hole{A: x.A, Tr: append(append([]string{}, x.Tr...), "golit", "kind:"+kind)}}}}
	case nil:
		return Lit("nil")
	}
	_ = ind
	panic(m.undecided("litter.Sdump of %T", v))
}

func (m *Machine) goLiteralTyped(v Value, t types.Type, depth int) Str {
	ind := strings.Repeat("  ", depth+1)
	qual := func(p *types.Package) string { return p.Name() }
	switch u := t.Underlying().(type) {
	case *types.Slice:
		s, _ := v.(Slice)
		head := types.TypeString(t, qual)
		if s.Len() == 0 {
			if s.IsNil() {
				return Lit(head + "(nil)")
			}
			return Lit(head + "{}")
		}
		parts := []Str{Lit(head + "{\n")}
		for i := 0; i < s.Len(); i++ {
			parts = append(parts, Lit(ind), m.goLiteralElem(*s.At(i), u.Elem(), depth+1), Lit(",\n"))
		}
		parts = append(parts, Lit(strings.Repeat("  ", depth)+"}"))
		return Cat(parts...)
	case *types.Map:
		mp, _ := v.(*Map)
		head := types.TypeString(t, qual)
		if mp == nil || mp.Nil || len(mp.Keys) == 0 {
			return Lit(head + "{}")
		}
		parts := []Str{Lit(head + "{\n")}
		for i, k := range mp.Keys {
			parts = append(parts, Lit(ind), m.goLiteralElem(k, u.Key(), depth+1), Lit(": "), m.goLiteralElem(mp.Vals[i], u.Elem(), depth+1), Lit(",\n"))
		}
		parts = append(parts, Lit(strings.Repeat("  ", depth)+"}"))
		return Cat(parts...)
	case *types.Basic:
		return m.goLiteral(v, depth)
	case *types.Interface:
		return m.goLiteral(v, depth)
	}
	panic(m.undecided("litter.Sdump of a value of type %s", t))
}

func (m *Machine) goLiteralElem(v Value, t types.Type, depth int) Str {
	if _, ok := t.Underlying().(*types.Interface); ok {
		return m.goLiteral(v, depth)
	}
	return m.goLiteralTyped(v, t, depth)
}
