package absint

import (
	"fmt"
	"go/token"
	"go/types"
	"math"
	"strings"
	"unicode/utf8"

	"golang.org/x/tools/go/ssa"
)

// ---- abstract numbers --------------------------------------------------------

// interval knowledge about an atom: lo/hi with open flags; NaN-free.
type interval struct {
	lo, hi         float64
	loOpen, hiOpen bool
}

func (m *Machine) ivOf(a *Atom) *interval {
	if a.Facts == nil {
		a.Facts = map[string]string{}
	}
	key := fmt.Sprintf("iv:%d", a.ID)
	if m.ivs == nil {
		m.ivs = map[string]*interval{}
	}
	if iv, ok := m.ivs[key]; ok {
		return iv
	}
	iv := &interval{lo: math.Inf(-1), hi: math.Inf(1), loOpen: true, hiOpen: true}
	if a.Kind == "PosInt" {
		iv.lo, iv.loOpen = 1, false
	}
	m.ivs[key] = iv
	return iv
}

// cmp3 returns the feasible relations of x to c given iv: subset of {-1,0,1}.
func (iv *interval) feasible(c float64) []int {
	var out []int
	// x < c feasible iff lo < c
	if iv.lo < c {
		out = append(out, -1)
	}
	// x == c feasible iff c within interval
	inLo := c > iv.lo || (c == iv.lo && !iv.loOpen)
	inHi := c < iv.hi || (c == iv.hi && !iv.hiOpen)
	if inLo && inHi {
		out = append(out, 0)
	}
	if iv.hi > c {
		out = append(out, 1)
	}
	return out
}

func (iv *interval) narrow(rel int, c float64) {
	switch rel {
	case -1:
		if c < iv.hi || (c == iv.hi && !iv.hiOpen) {
			iv.hi, iv.hiOpen = c, true
		}
	case 0:
		iv.lo, iv.hi, iv.loOpen, iv.hiOpen = c, c, false, false
	case 1:
		if c > iv.lo || (c == iv.lo && !iv.loOpen) {
			iv.lo, iv.loOpen = c, true
		}
	}
}

func intWidth(b *types.Basic) int {
	switch b.Kind() {
	case types.Int8, types.Uint8:
		return 1
	case types.Int16, types.Uint16:
		return 2
	case types.Int32, types.Uint32:
		return 4
	}
	return 8
}

// downSet is {x : x < a} (strict) or {x : x <= a}.
type downSet struct {
	a      float64
	strict bool
}

// preimage of the down-set d under one monotone transform t (y = t(x)): {x : t(x) in d} is again a down-set.
func preDown(t string, d downSet) (downSet, bool) {
	if math.IsInf(d.a, 0) {
		return d, true
	}
	// the largest integer inside d
	n := math.Floor(d.a)
	if d.strict && n == d.a {
		n--
	}
	switch {
	case t == "float64" || t == "int" || strings.HasPrefix(t, "narrow-"):
		// (a narrowing conversion is compared as the value itself: exact below the narrow type's limit; the emitted text keeps the
		// transform, which A-REJ:lossy reports)
		return d, true
	case strings.HasPrefix(t, "+") || (strings.HasPrefix(t, "-") && len(t) > 1):
		var k float64
		if _, err := fmt.Sscanf(t, "%g", &k); err != nil {
			return d, false
		}
		return downSet{d.a - k, d.strict}, true
	case t == "ceil": // ceil(x) <= n  <=>  x <= n
		return downSet{n, false}, true
	case t == "floor": // floor(x) <= n  <=>  x < n+1
		return downSet{n + 1, true}, true
	case t == "round": // half away from zero: round(x) <= n  <=>  x < n+0.5 (n >= 0), x <= n+0.5 (n < 0)
		return downSet{n + 0.5, n >= 0}, true
	case t == "trunc" || strings.HasPrefix(t, "trunc-"): // trunc(x) <= n  <=>  x < n+1 (n >= 0), x <= n (n < 0)
		if n >= 0 {
			return downSet{n + 1, true}, true
		}
		return downSet{n, false}, true
	}
	return d, false
}

func (iv interval) nonEmpty(integral string) bool {
	if iv.lo > iv.hi {
		return false
	}
	if iv.lo == iv.hi {
		if iv.loOpen || iv.hiOpen {
			return false
		}
		// a single integer point cannot be the value of a number known to be fractional
		return !(integral == "no" && iv.lo == math.Floor(iv.lo))
	}
	if integral == "no" || integral == "yes" {
		// an open cell between two neighbouring integers holds no integer; any proper interval holds a fraction
		if integral == "yes" {
			lo, hi := math.Floor(iv.lo)+1, math.Ceil(iv.hi)-1
			if !iv.loOpen && iv.lo == math.Floor(iv.lo) {
				lo = iv.lo
			}
			if !iv.hiOpen && iv.hi == math.Ceil(iv.hi) {
				hi = iv.hi
			}
			return lo <= hi
		}
	}
	return true
}

func (iv interval) meetDown(d downSet) interval {
	if d.a < iv.hi || (d.a == iv.hi && d.strict && !iv.hiOpen) {
		iv.hi, iv.hiOpen = d.a, d.strict
	}
	return iv
}

// meetUp intersects with the complement of d: {x >= a} for a strict d, {x > a} otherwise.
func (iv interval) meetUp(d downSet) interval {
	open := !d.strict
	if d.a > iv.lo || (d.a == iv.lo && open && !iv.loOpen) {
		iv.lo, iv.loOpen = d.a, open
	}
	return iv
}

// rel3 decides the relation (-1,0,1) of an abstract number to a constant,
// forking over the feasible alternatives. A transformed number t_k(...t_1(x)...)+Off (every t_i monotone: rounding,
// integer offsets, exact conversions) is decided exactly: {x : f(x) < c} and {x : f(x) <= c} are down-sets of the line
// computed by pulling the constant back through the chain, so the cells of x are bounded by the pulled-back constants
// (half-integers for math.Round).
func (m *Machine) rel3(n Num, c float64) int {
	c -= n.Off
	plain := true
	for _, t := range n.Tr {
		if t != "float64" && t != "int" && !strings.HasPrefix(t, "narrow-") {
			plain = false
		}
	}
	iv := m.ivOf(n.A)
	if plain || n.A.Facts["integral"] == "yes" || n.A.Kind == "PosInt" {
		for _, t := range n.Tr {
			if !(t == "float64" || t == "int" || isRounding(t) || strings.HasPrefix(t, "narrow-")) {
				panic(m.undecided("comparison of a transformed number (%s) with a constant", t))
			}
		}
		feas := iv.feasible(c)
		if len(feas) == 0 {
			panic(m.undecided("infeasible numeric state for %s", n.A))
		}
		choice := 0
		if len(feas) > 1 {
			choice = m.Decide(fmt.Sprintf("numcmp:%d:%v:%v", n.A.ID, c, feas), len(feas), fmt.Sprintf("%s vs %v", n.A, c))
		}
		rel := feas[choice]
		iv.narrow(rel, c)
		return rel
	}
	lt, le := downSet{c, true}, downSet{c, false}
	for i := len(n.Tr) - 1; i >= 0; i-- {
		var ok1, ok2 bool
		lt, ok1 = preDown(n.Tr[i], lt)
		le, ok2 = preDown(n.Tr[i], le)
		if !ok1 || !ok2 {
			panic(m.undecided("comparison of a transformed number (%s) with a constant", n.Tr[i]))
		}
	}
	integral := n.A.Facts["integral"]
	cand := map[int]interval{-1: iv.meetDown(lt), 0: iv.meetUp(lt).meetDown(le), 1: iv.meetUp(le)}
	var feas []int
	for _, r := range []int{-1, 0, 1} {
		if cand[r].nonEmpty(integral) {
			feas = append(feas, r)
		}
	}
	if len(feas) == 0 {
		panic(m.undecided("infeasible numeric state for %s", n.A))
	}
	choice := 0
	if len(feas) > 1 {
		choice = m.Decide(fmt.Sprintf("numcmpT:%d:%s:%v:%v", n.A.ID, strings.Join(n.Tr, ","), c, feas), len(feas), fmt.Sprintf("%s|%s vs %v", n.A, strings.Join(n.Tr, ","), c))
	}
	rel := feas[choice]
	*iv = cand[rel]
	return rel
}

func relHolds(rel int, op string) bool {
	switch op {
	case "==":
		return rel == 0
	case "!=":
		return rel != 0
	case "<":
		return rel < 0
	case "<=":
		return rel <= 0
	case ">":
		return rel > 0
	case ">=":
		return rel >= 0
	}
	panic("bad op " + op)
}

func (m *Machine) numCmpConst(n Num, c float64, op string) (Tri, string) {
	return triOf(relHolds(m.rel3(n, c), op)), ""
}

// numCmpNum: relation between two atoms: a 3-way order fact, decided once per pair.
// Integral decides (forking once per atom) whether a symbolic number is an integer.
func (m *Machine) Integral(a *Atom) bool {
	if a.Kind == "PosInt" || a.Facts["integral"] == "yes" {
		return true
	}
	if a.Facts["integral"] == "no" {
		return false
	}
	return m.Decide(fmt.Sprintf("integral:%d", a.ID), 2, "integrality of "+a.String()) == 0
}

func isRounding(t string) bool {
	switch t {
	case "round", "trunc", "ceil", "floor":
		return true
	}
	return strings.HasPrefix(t, "trunc-")
}

func (m *Machine) numRel(a, b Num) int {
	if a.A == b.A && strings.Join(a.Tr, ",") != strings.Join(b.Tr, ",") {
		// x against a rounded x: equal iff x is integral; otherwise the direction follows the rounding
		if m.Integral(a.A) {
			return 0
		}
		ra, rb := "", ""
		for _, t := range a.Tr {
			if isRounding(t) {
				ra = t
			}
		}
		for _, t := range b.Tr {
			if isRounding(t) {
				rb = t
			}
		}
		switch {
		case ra == "" && rb == "ceil":
			return -1
		case ra == "" && (rb == "floor"):
			return 1
		case ra == "ceil" && rb == "":
			return 1
		case ra == "floor" && rb == "":
			return -1
		}
		// trunc / round of a non-integral value differs from it, direction unknown
		return []int{-1, 1}[m.Decide(fmt.Sprintf("roundrel:%d:%s:%s", a.A.ID, ra, rb), 2, "direction of rounding")]
	}
	if a.A == b.A {
		d := a.Off - b.Off
		switch {
		case d < 0:
			return -1
		case d > 0:
			return 1
		}
		return 0
	}
	x, y, flip := a, b, 1
	if x.A.ID > y.A.ID {
		x, y, flip = b, a, -1
	}
	if a.Off != 0 || b.Off != 0 || len(a.Tr) != 0 || len(b.Tr) != 0 {
		// transformed values are ordered as pseudo-atoms of their own (an over-approximation: more worlds)
		key := fmt.Sprintf("ord:%d%+g|%s:%d%+g|%s", x.A.ID, x.Off, strings.Join(x.Tr, ","), y.A.ID, y.Off, strings.Join(y.Tr, ","))
		ch := m.Decide(key, 3, "order of two transformed symbolic numbers")
		return []int{-1, 0, 1}[ch] * flip
	}
	ch := m.Decide(fmt.Sprintf("ord:%d:%d", x.A.ID, y.A.ID), 3, fmt.Sprintf("order of %s and %s", x.A, y.A))
	return []int{-1, 0, 1}[ch] * flip
}

func (m *Machine) numCmpNum(a, b Num, op string) (Tri, string) {
	return triOf(relHolds(m.numRel(a, b), op)), ""
}

// ---- binary operators --------------------------------------------------------

func opString(op token.Token) string {
	switch op {
	case token.EQL:
		return "=="
	case token.NEQ:
		return "!="
	case token.LSS:
		return "<"
	case token.LEQ:
		return "<="
	case token.GTR:
		return ">"
	case token.GEQ:
		return ">="
	}
	return op.String()
}

func (m *Machine) binop(op token.Token, x, y Value, t types.Type) Value {
	switch op {
	case token.EQL, token.NEQ:
		tri, why := m.Equal(x, y)
		if tri == Maybe {
			if strings.HasPrefix(why, "unknown") {
				panic(m.undecided("equality on an unknown value"))
			}
			// a named fact: default is "different" unless the configuration decides otherwise
			if m.Decide(why, 2, "string equality") == 1 {
				tri = Yes
			} else {
				tri = No
			}
		}
		if op == token.EQL {
			return tri == Yes
		}
		return tri != Yes
	}
	switch a := x.(type) {
	case int64:
		switch b := y.(type) {
		case int64:
			return m.intBin(op, a, b, t)
		case SymInt:
			return m.symIntCmp(op, a, b, true)
		case Num:
			return m.numBin(op, Num{}, b, float64(a), true, false)
		}
	case SymInt:
		switch b := y.(type) {
		case int64:
			switch op {
			case token.ADD:
				return SymInt{a.S, a.Off + b}
			case token.SUB:
				return SymInt{a.S, a.Off - b}
			}
			return m.symIntCmp(op, b, a, false)
		}
	case float64:
		switch b := y.(type) {
		case float64:
			return floatBin(op, a, b)
		case Num:
			return m.numBin(op, Num{}, b, a, true, true)
		}
	case Num:
		switch b := y.(type) {
		case int64:
			return m.numBin(op, a, Num{}, float64(b), false, false)
		case float64:
			return m.numBin(op, a, Num{}, b, false, true)
		case Num:
			switch op {
			case token.LSS, token.LEQ, token.GTR, token.GEQ:
				return relHolds(m.numRel(a, b), opString(op))
			}
		}
	case Str:
		if b, ok := y.(Str); ok {
			switch op {
			case token.ADD:
				return Cat(a, b)
			case token.LSS, token.LEQ, token.GTR, token.GEQ:
				ca, oka := a.Concrete()
				cb, okb := b.Concrete()
				if oka && okb {
					switch op {
					case token.LSS:
						return ca < cb
					case token.LEQ:
						return ca <= cb
					case token.GTR:
						return ca > cb
					default:
						return ca >= cb
					}
				}
				// order of symbolic strings: declaration order abstraction
				m.Assume("where the code orders symbolic names, a fixed canonical order is used (the emitted declaration order is abstracted; Go declarations are order-independent)")
				lt := strKey(a) < strKey(b)
				switch op {
				case token.LSS, token.LEQ:
					return lt
				default:
					return !lt
				}
			}
		}
	case bool:
		if b, ok := y.(bool); ok {
			switch op {
			case token.AND, token.LAND:
				return a && b
			case token.OR, token.LOR:
				return a || b
			}
		}
	}
	panic(m.undecided("unsupported binary %s on %T, %T", op, x, y))
}

func (m *Machine) numBin(op token.Token, a, b Num, c float64, constLeft, isFloat bool) Value {
	n := a
	if constLeft {
		n = b
	}
	switch op {
	case token.ADD:
		r := n
		r.Off += c
		return r
	case token.SUB:
		if !constLeft {
			r := n
			r.Off -= c
			return r
		}
	case token.LSS, token.LEQ, token.GTR, token.GEQ:
		rel := m.rel3(n, c) // relation of n to c
		if constLeft {
			rel = -rel // relation of c to n
		}
		return relHolds(rel, opString(op))
	}
	panic(m.undecided("unsupported arithmetic %s on a symbolic number", op))
}

func (m *Machine) symIntCmp(op token.Token, c int64, s SymInt, constLeft bool) Value {
	// compare len(S)+Off with c
	ne, known := s.S.NonEmpty()
	target := c - s.Off // len(S) ? target
	var rel int         // sign of len(S) - target
	switch {
	case target < 0:
		rel = 1
	case target == 0:
		if !known {
			if m.Decide("strempty:"+strKey(s.S), 2, "emptiness of a symbolic string") == 0 {
				ne = true
			} else {
				ne = false
			}
		}
		if ne {
			rel = 1
		} else {
			rel = 0
		}
	default:
		// len(S) against a positive constant: decided by the known minimum length (literal pieces, one byte per non-empty
		// hole) when that suffices; otherwise the relation is a three-way decision of this world
		minLen := int64(0)
		for _, pc := range s.S.P {
			if pc.Hole == nil {
				minLen += int64(len(pc.Lit))
			} else if pc.Hole.A != nil && pc.Hole.A.NonEmpty {
				minLen++
			}
		}
		if minLen > target {
			rel = 1
		} else {
			rel = []int{-1, 0, 1}[m.Decide(fmt.Sprintf("strlen:%s:%d", strKey(s.S), target), 3, fmt.Sprintf("length of a symbolic string against %d", target))]
			if rel == -1 && minLen == target {
				// infeasible choice (the string is at least that long): fold into "equal"
				rel = 0
			}
		}
	}
	if constLeft {
		rel = -rel
	}
	return relHolds(rel, opString(op))
}

func (m *Machine) intBin(op token.Token, a, b int64, t types.Type) Value {
	switch op {
	case token.ADD:
		return a + b
	case token.SUB:
		return a - b
	case token.MUL:
		return a * b
	case token.QUO:
		if b == 0 {
			panic(m.fail("integer divide by zero"))
		}
		return a / b
	case token.REM:
		if b == 0 {
			panic(m.fail("integer divide by zero"))
		}
		return a % b
	case token.AND:
		return a & b
	case token.OR:
		return a | b
	case token.XOR:
		return a ^ b
	case token.SHL:
		return a << uint(b)
	case token.SHR:
		return a >> uint(b)
	case token.AND_NOT:
		return a &^ b
	case token.LSS:
		return a < b
	case token.LEQ:
		return a <= b
	case token.GTR:
		return a > b
	case token.GEQ:
		return a >= b
	}
	panic(m.undecided("unsupported int op %s", op))
}

func floatBin(op token.Token, a, b float64) Value {
	switch op {
	case token.ADD:
		return a + b
	case token.SUB:
		return a - b
	case token.MUL:
		return a * b
	case token.QUO:
		return a / b
	case token.LSS:
		return a < b
	case token.LEQ:
		return a <= b
	case token.GTR:
		return a > b
	case token.GEQ:
		return a >= b
	}
	panic("unsupported float op")
}

// ---- conversions ---------------------------------------------------------------

func (m *Machine) convert(v Value, from, to types.Type) Value {
	fu, tu := from.Underlying(), to.Underlying()
	tb, tIsBasic := tu.(*types.Basic)
	switch x := v.(type) {
	case int64:
		if tIsBasic {
			switch {
			case tb.Info()&types.IsInteger != 0:
				return truncInt(x, tb)
			case tb.Info()&types.IsFloat != 0:
				if fb, ok := fu.(*types.Basic); ok && fb.Info()&types.IsUnsigned != 0 {
					return float64(uint64(x))
				}
				return float64(x)
			case tb.Info()&types.IsString != 0:
				return Lit(string(rune(x)))
			}
		}
	case float64:
		if tIsBasic {
			switch {
			case tb.Info()&types.IsInteger != 0:
				return int64(x)
			case tb.Info()&types.IsFloat != 0:
				return x
			}
		}
	case Num:
		if tIsBasic {
			switch {
			case tb.Info()&types.IsInteger != 0:
				if x.IsFloat {
					r := x
					r.Tr = append(append([]string{}, x.Tr...), "trunc-"+tb.Name())
					r.IsFloat = false
					return r
				}
				// an integer conversion to a NARROWER type wraps large values: recorded, so that a limit that reaches emitted text
				// through it is reported (rune classes are exempt: they are code points)
				if fb, ok := fu.(*types.Basic); ok && fb.Info()&types.IsInteger != 0 && x.A.Kind != "Rune" && intWidth(tb) < intWidth(fb) {
					r := x
					r.Tr = append(append([]string{}, x.Tr...), "narrow-"+tb.Name())
					return r
				}
				return x
			case tb.Info()&types.IsFloat != 0:
				r := x
				r.IsFloat = true
				return r
			case tb.Info()&types.IsString != 0:
				if x.A.Kind == "Rune" {
					return HoleStr(x.A)
				}
			}
		}
	case Str:
		if sl, ok := tu.(*types.Slice); ok {
			eb := sl.Elem().Underlying().(*types.Basic)
			switch eb.Kind() {
			case types.Int32: // []rune
				var out []Value
				for _, p := range x.P {
					if p.Hole == nil {
						for _, r := range p.Lit {
							out = append(out, int64(r))
						}
					} else if p.Hole.A.Kind == "Rune" && len(p.Hole.Tr) == 0 {
						out = append(out, Num{A: p.Hole.A})
					} else {
						panic(m.undecided("[]rune of a string holding a non-rune hole"))
					}
				}
				return m.NewSliceOf(sl.Elem(), out...)
			case types.Uint8: // []byte: kept as a one-element carrier
				return Bytes{S: x}
			}
		}
		if tIsBasic && tb.Info()&types.IsString != 0 {
			return x
		}
	case Bytes:
		if tIsBasic && tb.Info()&types.IsString != 0 {
			return x.S
		}
		return x
	case Slice:
		if tIsBasic && tb.Info()&types.IsString != 0 {
			// string([]rune)
			var parts []Str
			for i := 0; i < x.Len(); i++ {
				switch r := (*x.At(i)).(type) {
				case int64:
					parts = append(parts, Lit(string(rune(r))))
				case Num:
					parts = append(parts, HoleStr(r.A))
				default:
					panic(m.undecided("string() of a slice holding %T", r))
				}
			}
			return Cat(parts...)
		}
	}
	if types.Identical(fu, tu) {
		return v
	}
	panic(m.undecided("unsupported conversion %s -> %s of %T", from, to, v))
}

// Bytes is a []byte that came from a string (only converted back or passed to summaries).
type Bytes struct{ S Str }

func truncInt(x int64, b *types.Basic) int64 {
	switch b.Kind() {
	case types.Int8:
		return int64(int8(x))
	case types.Int16:
		return int64(int16(x))
	case types.Int32:
		return int64(int32(x))
	case types.Uint8:
		return int64(uint8(x))
	case types.Uint16:
		return int64(uint16(x))
	case types.Uint32:
		return int64(uint32(x))
	}
	return x
}

// ---- strings: index / slice ------------------------------------------------------

// leadingLit returns the concrete prefix of s (all literal pieces before the first hole).
func leadingLit(s Str) string {
	var sb strings.Builder
	for _, p := range s.P {
		if p.Hole != nil {
			break
		}
		sb.WriteString(p.Lit)
	}
	return sb.String()
}

func (m *Machine) strIndex(s Str, idx Value) Value {
	// s[len(s)-k]: decided from the trailing literal; when the string ends in a symbolic part that may be empty, the empty case
	// is a reachable index-out-of-range panic
	if si, ok := idx.(SymInt); ok && strKey(si.S) == strKey(s) && si.Off < 0 {
		if _, conc := s.Concrete(); !conc {
			k := int(-si.Off)
			if n := len(s.P); n > 0 && s.P[n-1].Hole == nil && len(s.P[n-1].Lit) >= k {
				lit := s.P[n-1].Lit
				return int64(lit[len(lit)-k])
			}
			if k == 1 && len(s.P) > 0 && s.P[len(s.P)-1].Hole != nil {
				minLen := 0
				for _, p := range s.P {
					if p.Hole == nil {
						minLen += len(p.Lit)
					} else if p.Hole.A.NonEmpty && !holeMayShrinkToEmpty(p.Hole) {
						minLen++
					}
				}
				if minLen == 0 && m.Decide("strempty:"+strKey(s), 2, "emptiness of a symbolic string") == 1 {
					panic(m.fail("index out of range [-1]: s[len(s)-1] on an empty string"))
				}
				return Unknown{Why: "last byte of a symbolic string"}
			}
			panic(m.undecided("index s[len(s)%d] into a symbolic string", si.Off))
		}
	}
	i := m.intOf(idx)
	lead := leadingLit(s)
	if i < len(lead) {
		return int64(lead[i])
	}
	if c, ok := s.Concrete(); ok {
		panic(m.fail("index out of range [%d] with length %d", i, len(c)))
	}
	panic(m.undecided("byte index into the symbolic part of a string"))
}

// strSlice implements s[lo:hi] for abstract strings.
func (m *Machine) strSlice(s Str, lo, hi Value) Value {
	if c, ok := s.Concrete(); ok {
		l, h := 0, len(c)
		if lo != nil {
			l = m.symOrInt(lo, s)
		}
		if hi != nil {
			h = m.symOrInt(hi, s)
		}
		if l < 0 || h < l || h > len(c) {
			panic(m.fail("slice bounds out of range [%d:%d] with length %d", l, h, len(c)))
		}
		return Lit(c[l:h])
	}
	// symbolic string
	// case: [len-1:] (last byte)
	if sl, ok := lo.(SymInt); ok && hi == nil && strKey(sl.S) == strKey(s) {
		if sl.Off == 0 {
			return Str{}
		}
		if sl.Off == -1 {
			if ne, known := s.NonEmpty(); !known || !ne {
				m.requireNonEmpty(s, "s[len(s)-1:]")
			}
			last := s.P[len(s.P)-1]
			if last.Hole == nil {
				return Lit(last.Lit[len(last.Lit)-1:])
			}
			h := *last.Hole
			h.Tr = append(append([]string{}, h.Tr...), "[-1:]")
			return Str{P: []Piece{{Hole: &h}}}
		}
	}
	// s[l : len(s)-k] with the k bytes inside the trailing literal: cut them off, then apply the lower bound
	if sh, ok := hi.(SymInt); ok && strKey(sh.S) == strKey(s) && sh.Off <= 0 {
		k := int(-sh.Off)
		n := len(s.P)
		if n > 0 && s.P[n-1].Hole == nil && len(s.P[n-1].Lit) >= k {
			cut := Str{P: append([]Piece{}, s.P...)}
			lit := cut.P[n-1].Lit
			cut.P[n-1] = Piece{Lit: lit[:len(lit)-k]}
			cut = Cat(cut)
			if c, isC := cut.Concrete(); isC {
				l := 0
				if lo != nil {
					l = m.intOf(lo)
				}
				if l < 0 || l > len(c) {
					panic(m.fail("slice bounds out of range [%d:%d]", l, len(c)))
				}
				return Lit(c[l:])
			}
			return m.strSlice(cut, lo, nil)
		}
		panic(m.undecided("slice s[:len(s)%d] cuts into the symbolic part of a string", sh.Off))
	}
	l := 0
	if lo != nil {
		l = m.intOf(lo)
	}
	lead := leadingLit(s)
	if hi == nil {
		// s[l:]
		if l <= len(lead) {
			return dropPrefix(s, l)
		}
		// l beyond the literal prefix: only [1:] on a leading hole is modelled
		if len(lead) == 0 && l == 1 && s.P[0].Hole != nil {
			m.requireNonEmptyHole(s.P[0].Hole, "s[1:]")
			h := *s.P[0].Hole
			h.Tr = append(append([]string{}, h.Tr...), "[1:]")
			return Cat(Str{P: []Piece{{Hole: &h}}}, Str{P: s.P[1:]})
		}
		panic(m.undecided("slice s[%d:] reaches into the symbolic part of a string", l))
	}
	h := m.intOf(hi)
	if h <= len(lead) {
		if l > h {
			panic(m.fail("slice bounds out of range [%d:%d]", l, h))
		}
		return Lit(lead[l:h])
	}
	if len(lead) == 0 && l == 0 && h == 1 && s.P[0].Hole != nil {
		m.requireNonEmptyHole(s.P[0].Hole, "s[:1]")
		hh := *s.P[0].Hole
		hh.Tr = append(append([]string{}, hh.Tr...), "[0:1]")
		return Str{P: []Piece{{Hole: &hh}}}
	}
	panic(m.undecided("slice s[%d:%d] reaches into the symbolic part of a string", l, h))
}

func (m *Machine) symOrInt(v Value, s Str) int {
	if si, ok := v.(SymInt); ok {
		if c, ok := si.S.Concrete(); ok {
			return len(c) + int(si.Off)
		}
	}
	return m.intOf(v)
}

// requireNonEmptyHole: slicing the first byte off a symbolic string panics when
// the string is empty. If the atom may be empty this is a reachable panic.
func (m *Machine) requireNonEmptyHole(h *Hole, what string) {
	if h.A.NonEmpty && !holeMayShrinkToEmpty(h) {
		return
	}
	// fork: empty -> the interpreted code panics; non-empty -> continue
	if m.Decide(fmt.Sprintf("strempty:\x00%d|%s\x00", h.A.ID, strings.Join(h.Tr, ",")), 2, "emptiness of "+h.A.String()) == 1 {
		panic(m.fail("slice bounds out of range: %s on an empty string (%s may be empty)", what, h.A))
	}
}

func (m *Machine) requireNonEmpty(s Str, what string) {
	if m.Decide("strempty:"+strKey(s), 2, "emptiness of a symbolic string") == 1 {
		panic(m.fail("slice bounds out of range: %s on an empty string", what))
	}
}

func dropPrefix(s Str, n int) Str {
	var out []Piece
	for _, p := range s.P {
		if n > 0 && p.Hole == nil {
			if n >= len(p.Lit) {
				n -= len(p.Lit)
				continue
			}
			out = append(out, Piece{Lit: p.Lit[n:]})
			n = 0
			continue
		}
		out = append(out, p)
	}
	return Str{P: out}
}

// ---- builtins -----------------------------------------------------------------------

func (m *Machine) builtin(b *ssa.Builtin, args []Value) Value {
	switch b.Name() {
	case "len":
		switch x := args[0].(type) {
		case Str:
			if c, ok := x.Concrete(); ok {
				return int64(len(c))
			}
			return SymInt{S: x}
		case Slice:
			return int64(x.Len())
		case *Map:
			if x == nil || x.Nil {
				return int64(0)
			}
			return int64(len(x.Keys))
		case Array:
			return int64(len(x.E))
		case Bytes:
			if c, ok := x.S.Concrete(); ok {
				return int64(len(c))
			}
			return SymInt{S: x.S}
		case Ptr:
			if arr, ok := (*m.deref(x)).(Array); ok {
				return int64(len(arr.E))
			}
		}
	case "cap":
		if x, ok := args[0].(Slice); ok {
			return int64(x.Cap)
		}
	case "append":
		s, _ := args[0].(Slice)
		if len(args) == 1 {
			return s
		}
		var add []Value
		switch t := args[1].(type) {
		case Slice:
			add = SliceValues(t)
		case Str:
			// append([]byte, string...)
			panic(m.undecided("append of a string to a byte slice"))
		}
		if len(add) == 0 {
			return s
		}
		need := s.Len() + len(add)
		if s.Back != nil && need <= s.Cap {
			for i, v := range add {
				(*s.Back)[s.Hi+i] = Copy(v)
			}
			s.Hi += len(add)
			return s
		}
		ncap := need
		if s.Cap*2 > ncap {
			ncap = s.Cap * 2
		}
		back := make([]Value, ncap)
		for i := 0; i < s.Len(); i++ {
			back[i] = *s.At(i)
		}
		for i, v := range add {
			back[s.Len()+i] = Copy(v)
		}
		ez := s.ElemZero
		if ez == nil {
			if as, ok := args[1].(Slice); ok {
				ez = as.ElemZero
			}
		}
		for i := need; i < ncap; i++ {
			if ez != nil {
				back[i] = ez()
			}
		}
		return Slice{Back: &back, Lo: 0, Hi: need, Cap: ncap, ElemZero: ez}
	case "copy":
		dst, _ := args[0].(Slice)
		src, _ := args[1].(Slice)
		n := dst.Len()
		if src.Len() < n {
			n = src.Len()
		}
		for i := 0; i < n; i++ {
			*dst.At(i) = Copy(*src.At(i))
		}
		return int64(n)
	case "delete":
		mp, _ := args[0].(*Map)
		m.MapDelete(mp, args[1])
		return nil
	case "min", "max":
		if a, ok := args[0].(int64); ok {
			if b2, ok := args[1].(int64); ok {
				if (b.Name() == "min") == (a < b2) {
					return a
				}
				return b2
			}
		}
	case "print", "println":
		return nil
	case "ssa:wrapnilchk":
		if IsNilValue(args[0]) {
			panic(m.fail("nil pointer dereference (method value on nil)"))
		}
		return args[0]
	}
	panic(m.undecided("unsupported builtin %s on %T", b.Name(), args[0]))
}

// runeLen is used by summaries that need UTF-8 facts of concrete text.
func runeLen(s string) int { return utf8.RuneCountInString(s) }

// Interval reports what a run has established about an atom: lo/hi bounds
// (±Inf when unbounded) and whether each end is open.
func (m *Machine) Interval(a *Atom) (lo, hi float64, loOpen, hiOpen bool) {
	iv := m.ivOf(a)
	return iv.lo, iv.hi, iv.loOpen, iv.hiOpen
}
