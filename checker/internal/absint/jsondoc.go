package absint

import (
	"go/types"
)

// JSONDoc builds the []byte of a tiny JSON document for the decoder model below:
//
//	JSONString(x)  "x"        JSONList1(x)  ["x"]        JSONTrue true   JSONFalse false   JSONEmptyObject {}
//
// where x is an abstract string assumed to need no escaping (it stands for "the decoded string").
func JSONString(x Str) Bytes { return Bytes{S: Cat(Cat(Lit("\""), x), Lit("\""))} }
func JSONList1(x Str) Bytes  { return Bytes{S: Cat(Cat(Lit("[\""), x), Lit("\"]"))} }

// JSONList builds ["x1","x2",...] (strings that need no escaping).
func JSONList(xs ...Str) Bytes {
	parts := []Str{Lit("[\"")}
	for i, x := range xs {
		if i > 0 {
			parts = append(parts, Lit("\",\""))
		}
		parts = append(parts, x)
	}
	parts = append(parts, Lit("\"]"))
	return Bytes{S: Cat(parts...)}
}

// jsonListElems recognises ["x1","x2",...] with two or more elements, concrete or with symbolic elements, and returns the elements.
func jsonListElems(b Bytes) ([]Str, bool) {
	if c, isC := b.S.Concrete(); isC {
		if len(c) < 4 || c[:2] != "[\"" || c[len(c)-2:] != "\"]" {
			return nil, false
		}
		var out []Str
		for _, e := range splitLit(c[2:len(c)-2], "\",\"") {
			for _, r := range e {
				if r == '"' || r == '\\' || r == ',' || r == '[' || r == ']' {
					return nil, false
				}
			}
			out = append(out, Lit(e))
		}
		return out, len(out) >= 2
	}
	p := b.S.P
	if len(p) < 3 || p[0].Hole != nil || p[len(p)-1].Hole != nil || p[0].Lit != "[\"" || p[len(p)-1].Lit != "\"]" {
		return nil, false
	}
	var out []Str
	cur := Str{}
	for _, pc := range p[1 : len(p)-1] {
		if pc.Hole == nil && pc.Lit == "\",\"" {
			out = append(out, cur)
			cur = Str{}
			continue
		}
		if pc.Hole == nil {
			for _, r := range pc.Lit {
				if r == '"' || r == ',' {
					return nil, false // separators fused with element text: outside the model
				}
			}
		}
		cur.P = append(cur.P, pc)
	}
	out = append(out, cur)
	return out, len(out) >= 2
}

func splitLit(s, sep string) []string {
	var out []string
	for {
		i := indexOf(s, sep)
		if i < 0 {
			return append(out, s)
		}
		out = append(out, s[:i])
		s = s[i+len(sep):]
	}
}

func indexOf(s, sep string) int {
	for i := 0; i+len(sep) <= len(s); i++ {
		if s[i:i+len(sep)] == sep {
			return i
		}
	}
	return -1
}

func JSONLit(text string) Bytes {
	return Bytes{S: Lit(text)}
}

// jsonShape recognises the shapes above.
func jsonShape(b Bytes) (kind string, content Str, ok bool) {
	p := b.S.P
	if c, isC := b.S.Concrete(); isC {
		switch c {
		case "true", "false":
			return c, Str{}, true
		case "{}":
			return "object", Str{}, true
		case "\"\"":
			return "string", Str{}, true
		}
		return "", Str{}, false
	}
	if len(p) >= 3 && p[0].Hole == nil && p[len(p)-1].Hole == nil {
		first, last := p[0].Lit, p[len(p)-1].Lit
		mid := Str{P: append([]Piece{}, p[1:len(p)-1]...)}
		switch {
		case first == "\"" && last == "\"":
			return "string", mid, true
		case first == "[\"" && last == "\"]":
			return "list1", mid, true
		}
	}
	return "", Str{}, false
}

// jsonUnmarshalModel is the summary of encoding/json.Unmarshal(data, target) for the JSONDoc shapes and the target
// kinds the schema decoders use as probes: *string, *[]string, *bool, *struct (absent keys leave fields untouched).
// A kind mismatch returns a non-nil error and leaves the target untouched (documented behaviour of encoding/json for
// these cases). Everything else is undecided.
func jsonUnmarshalModel(m *Machine, a []Value) Value {
	if obj, isObj := a[0].(JSONObj); isObj {
		ifc, ok := a[1].(Iface)
		if !ok {
			panic(m.undecided("encoding/json.Unmarshal into %T", a[1]))
		}
		pt, ok := ifc.T.Underlying().(*types.Pointer)
		ptr, ok2 := ifc.V.(Ptr)
		if !ok || !ok2 || ptr.P == nil {
			return mkErr(Lit("json: Unmarshal(non-pointer or nil)"))
		}
		if named, isNamed := pt.Elem().(*types.Named); isNamed {
			for i := 0; i < named.NumMethods(); i++ {
				if named.Method(i).Name() == "UnmarshalJSON" {
					panic(m.undecided("encoding/json.Unmarshal into %s, which has its own UnmarshalJSON (outside the model)", named))
				}
			}
		}
		st, isStruct := pt.Elem().Underlying().(*types.Struct)
		if !isStruct {
			return mkErr(Lit("json: cannot unmarshal object into Go value of type " + pt.Elem().String()))
		}
		m.Assume("encoding/json.Unmarshal of a flat object is modelled: members matched to fields by json tag (embedded structs searched, pointer embeddings allocated), unknown members ignored")
		return m.decodeObject(obj, st, ptr.P)
	}
	data, ok := a[0].(Bytes)
	if !ok {
		panic(m.undecided("encoding/json.Unmarshal on %T (no summary)", a[0]))
	}
	kind, content, ok := jsonShape(data)
	var elems []Str
	if !ok {
		if elems, ok = jsonListElems(data); ok {
			kind = "listN"
		}
	}
	if !ok {
		panic(m.undecided("encoding/json.Unmarshal on a document shape outside the model (%s)", data.S.Debug()))
	}
	ifc, ok := a[1].(Iface)
	if !ok {
		panic(m.undecided("encoding/json.Unmarshal into %T", a[1]))
	}
	pt, ok := ifc.T.Underlying().(*types.Pointer)
	if !ok {
		return mkErr(Lit("json: Unmarshal(non-pointer)"))
	}
	ptr, ok := ifc.V.(Ptr)
	if !ok || ptr.P == nil {
		return mkErr(Lit("json: Unmarshal(nil)"))
	}
	m.Assume("encoding/json.Unmarshal is modelled for the document shapes \"s\", [\"s\"], true, false, {} into *string, *[]string, *bool and *struct targets")
	if kind == "listN" {
		content = Str{}
	}
	mismatch := func() Value {
		return mkErr(Lit("json: cannot unmarshal " + kind + " into Go value of type " + pt.Elem().String()))
	}
	// a named type with its own UnmarshalJSON would be called by the real decoder: outside the model
	if named, isNamed := pt.Elem().(*types.Named); isNamed {
		for i := 0; i < named.NumMethods(); i++ {
			if named.Method(i).Name() == "UnmarshalJSON" {
				panic(m.undecided("encoding/json.Unmarshal into %s, which has its own UnmarshalJSON (outside the model)", named))
			}
		}
	}
	switch u := pt.Elem().Underlying().(type) {
	case *types.Basic:
		switch {
		case u.Kind() == types.String && kind == "string":
			*ptr.P = content
			return Iface{}
		case u.Kind() == types.Bool && (kind == "true" || kind == "false"):
			*ptr.P = kind == "true"
			return Iface{}
		}
		return mismatch()
	case *types.Slice:
		if b, isB := u.Elem().Underlying().(*types.Basic); isB && b.Kind() == types.String && kind == "list1" {
			*ptr.P = m.NewSliceOf(u.Elem(), content)
			return Iface{}
		}
		if b, isB := u.Elem().Underlying().(*types.Basic); isB && b.Kind() == types.String && kind == "listN" {
			var vs []Value
			for _, e := range elems {
				vs = append(vs, e)
			}
			*ptr.P = m.NewSliceOf(u.Elem(), vs...)
			return Iface{}
		}
		return mismatch()
	case *types.Struct:
		if kind == "object" {
			return Iface{} // {}: no key, nothing is touched
		}
		return mismatch()
	}
	panic(m.undecided("encoding/json.Unmarshal into %s (target kind outside the model)", pt.Elem()))
}

// DebugValue renders a value canonically (for comparing the results of two abstract runs): nil and empty
// slices/maps/pointers print alike only when they ARE alike for encoding purposes (nil vs empty is kept apart).
func DebugValue(v Value) string { return debugValue(v, 0) }

func debugValue(v Value, depth int) string {
	if depth > 8 {
		return "…"
	}
	switch x := v.(type) {
	case nil:
		return "nil"
	case bool:
		if x {
			return "true"
		}
		return "false"
	case int64:
		return itoa(x)
	case Str:
		return "\"" + x.Debug() + "\""
	case Ptr:
		if x.P == nil {
			return "nil"
		}
		return "&" + debugValue(*x.P, depth+1)
	case Slice:
		if x.Back == nil {
			return "nil"
		}
		s := "["
		for i := 0; i < x.Len(); i++ {
			if i > 0 {
				s += " "
			}
			s += debugValue(*x.At(i), depth+1)
		}
		return s + "]"
	case Struct:
		s := "{"
		for i, f := range x.F {
			d := debugValue(f, depth+1)
			if d == "nil" || d == "false" || d == "0" || d == "\"\"" {
				continue // zero fields are omitted: two structs print alike iff their non-zero fields agree
			}
			s += " #" + itoa(int64(i)) + ":" + d
		}
		return s + " }"
	case Array:
		s := "["
		for _, e := range x.E {
			s += debugValue(e, depth+1) + " "
		}
		return s + "]"
	case *Map:
		if x == nil || x.Nil {
			return "nil"
		}
		s := "map["
		for i := range x.Keys {
			s += debugValue(x.Keys[i], depth+1) + ":" + debugValue(x.Vals[i], depth+1) + " "
		}
		return s + "]"
	case Iface:
		if x.T == nil {
			return "nil"
		}
		return "(" + x.T.String() + ")" + debugValue(x.V, depth+1)
	case Num:
		return "num(" + x.A.Name + ")"
	case float64:
		return "float"
	}
	return "?"
}

func itoa(x int64) string {
	if x == 0 {
		return "0"
	}
	neg := x < 0
	if neg {
		x = -x
	}
	var b []byte
	for x > 0 {
		b = append([]byte{byte('0' + x%10)}, b...)
		x /= 10
	}
	if neg {
		return "-" + string(b)
	}
	return string(b)
}

// JSONObj stands for the []byte of a flat JSON object whose member values are JSON strings (Str) or
// `{"<name>": {}}` (JSONMember1): enough to drive the keyword-folding decoders. The decoders hand it to
// json.Unmarshal unchanged; any other use (indexing, len) is undecided.
type JSONObj struct {
	Keys []string
	Vals []Value
}

// JSONMember1 is the JSON value {"<Name>": {}}.
type JSONMember1 struct{ Name Str }

// JSONNum is a JSON number member value.
type JSONNum struct{ V float64 }

// JSONArr is a JSON array member value whose elements are JSON strings (Str), numbers (JSONNum), booleans (bool) or null (nil).
type JSONArr struct{ Vals []Value }

// ModelDecode applies the flat-object model of encoding/json directly (no UnmarshalJSON method involved) to a zero value of
// the struct type T: what plain encoding/json makes of the document.
func (m *Machine) ModelDecode(obj JSONObj, T types.Type) (Value, Value) {
	st, ok := T.Underlying().(*types.Struct)
	if !ok {
		panic(m.undecided("ModelDecode into %s", T))
	}
	slot := m.Zero(T)
	err := m.decodeObject(obj, st, &slot)
	return slot, err
}

// decodeObject models json.Unmarshal of a JSONObj into a struct: members are matched to fields by json tag (embedded
// structs are searched like encoding/json does, pointer embeddings allocated on demand); unknown members are ignored.
func (m *Machine) decodeObject(obj JSONObj, st *types.Struct, slot *Value) Value {
	for i, k := range obj.Keys {
		path, ft := jsonFieldPath(st, k, 0)
		if path == nil {
			continue
		}
		// walk / allocate
		cur := slot
		curT := types.Type(st)
		for pi, idx := range path {
			sv, ok := (*cur).(Struct)
			if !ok {
				panic(m.undecided("json model: target is not a struct (%T)", *cur))
			}
			f := &sv.F[idx]
			stt := curT.Underlying().(*types.Struct)
			ftype := stt.Field(idx).Type()
			if pi == len(path)-1 {
				v, err := m.decodeMember(obj.Vals[i], ft)
				if err != nil {
					return err
				}
				*f = v
				*cur = sv
				break
			}
			// embedded
			if pt, isPtr := ftype.Underlying().(*types.Pointer); isPtr {
				p, _ := (*f).(Ptr)
				if p.P == nil {
					p = m.NewPtr(m.Zero(pt.Elem()), "embedded (allocated by the json model)")
					*f = p
				}
				*cur = sv
				cur, curT = p.P, pt.Elem()
			} else {
				*cur = sv
				cur, curT = f, ftype
			}
		}
	}
	return Iface{}
}

func (m *Machine) decodeMember(v Value, ft types.Type) (Value, Value) {
	switch x := v.(type) {
	case Str:
		if b, ok := ft.Underlying().(*types.Basic); ok && b.Kind() == types.String {
			return x, nil
		}
		if _, ok := ft.Underlying().(*types.Interface); ok {
			return Iface{T: types.Typ[types.String], V: x}, nil
		}
		if pt, ok := ft.Underlying().(*types.Pointer); ok {
			if b, ok := pt.Elem().Underlying().(*types.Basic); ok && b.Kind() == types.String {
				return m.NewPtr(x, "string member (json model)"), nil
			}
		}
		return nil, mkErr(Lit("json: cannot unmarshal string into Go value of type " + ft.String()))
	case JSONNum:
		// a JSON number into float64 / *float64 / an integer type / interface{} / *interface{} (float64 inside, as encoding/json does)
		var dec func(t types.Type) (Value, Value)
		dec = func(t types.Type) (Value, Value) {
			switch u := t.Underlying().(type) {
			case *types.Basic:
				switch {
				case u.Info()&types.IsFloat != 0:
					return x.V, nil
				case u.Info()&types.IsInteger != 0:
					if x.V != float64(int64(x.V)) {
						return nil, mkErr(Lit("json: cannot unmarshal number into Go value of type " + t.String()))
					}
					return int64(x.V), nil
				}
			case *types.Interface:
				return Iface{T: types.Typ[types.Float64], V: x.V}, nil
			case *types.Pointer:
				inner, err := dec(u.Elem())
				if err != nil {
					return nil, err
				}
				return m.NewPtr(inner, "number member (json model)"), nil
			}
			return nil, mkErr(Lit("json: cannot unmarshal number into Go value of type " + t.String()))
		}
		return dec(ft)
	case JSONArr:
		// an array into []interface{}: every element as encoding/json produces it (string, float64, bool, nil)
		st, ok := ft.Underlying().(*types.Slice)
		if !ok {
			return nil, mkErr(Lit("json: cannot unmarshal array into Go value of type " + ft.String()))
		}
		if _, isIface := st.Elem().Underlying().(*types.Interface); !isIface {
			panic(m.undecided("json model: array member into %s", ft))
		}
		var vs []Value
		for _, e := range x.Vals {
			switch ev := e.(type) {
			case nil:
				vs = append(vs, Iface{})
			case Str:
				vs = append(vs, Iface{T: types.Typ[types.String], V: ev})
			case JSONNum:
				vs = append(vs, Iface{T: types.Typ[types.Float64], V: ev.V})
			case bool:
				vs = append(vs, Iface{T: types.Typ[types.Bool], V: ev})
			default:
				panic(m.undecided("json model: array element %T", e))
			}
		}
		return m.NewSliceOf(st.Elem(), vs...), nil
	case JSONMember1:
		mt, ok := ft.Underlying().(*types.Map)
		if !ok {
			return nil, mkErr(Lit("json: cannot unmarshal object into Go value of type " + ft.String()))
		}
		mp := &Map{}
		var elem Value
		if pt, isPtr := mt.Elem().Underlying().(*types.Pointer); isPtr {
			elem = m.NewPtr(m.Zero(pt.Elem()), "member decoded from {} (json model)")
		} else {
			elem = m.Zero(mt.Elem())
		}
		m.MapUpdate(mp, x.Name, elem)
		return mp, nil
	}
	panic(m.undecided("json model: member value %T", v))
}

// jsonFieldPath finds the field a JSON member name decodes into: by json tag (or field name, case-insensitively, when
// untagged) at the shallowest embedding depth, as encoding/json does.
func jsonFieldPath(st *types.Struct, key string, depth int) ([]int, types.Type) {
	if depth > 3 {
		return nil, nil
	}
	for i := 0; i < st.NumFields(); i++ {
		f := st.Field(i)
		tag := jsonTagName(st.Tag(i))
		if tag == "-" {
			continue
		}
		if f.Embedded() && tag == "" {
			continue
		}
		name := tag
		if name == "" {
			name = f.Name()
			if !f.Exported() {
				continue
			}
			if !equalFold(name, key) {
				continue
			}
			return []int{i}, f.Type()
		}
		if name == key {
			return []int{i}, f.Type()
		}
	}
	for i := 0; i < st.NumFields(); i++ {
		f := st.Field(i)
		if !f.Embedded() || jsonTagName(st.Tag(i)) != "" {
			continue
		}
		t := f.Type()
		if pt, ok := t.Underlying().(*types.Pointer); ok {
			t = pt.Elem()
		}
		if es, ok := t.Underlying().(*types.Struct); ok {
			if p, ft := jsonFieldPath(es, key, depth+1); p != nil {
				return append([]int{i}, p...), ft
			}
		}
	}
	return nil, nil
}

func jsonTagName(tag string) string {
	const k = `json:"`
	for i := 0; i+len(k) <= len(tag); i++ {
		if tag[i:i+len(k)] == k {
			rest := tag[i+len(k):]
			for j := 0; j < len(rest); j++ {
				if rest[j] == '"' || rest[j] == ',' {
					return rest[:j]
				}
			}
		}
	}
	return ""
}

func equalFold(a, b string) bool {
	if len(a) != len(b) {
		return false
	}
	for i := 0; i < len(a); i++ {
		x, y := a[i], b[i]
		if 'A' <= x && x <= 'Z' {
			x += 'a' - 'A'
		}
		if 'A' <= y && y <= 'Z' {
			y += 'a' - 'A'
		}
		if x != y {
			return false
		}
	}
	return true
}
