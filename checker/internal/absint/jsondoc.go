package absint

import (
	"go/types"
)

// JSONDoc builds the []byte of a tiny JSON document for the decoder model below:
//
//	JSONString(x)  "x"        JSONList1(x)  ["x"]        JSONTrue true   JSONFalse false   JSONEmptyObject {}
//
// where x is an abstract string assumed to need no escaping (it stands for "the decoded string").
func JSONString(x Str) Bytes { return Bytes{S: Cat(Cat(Lit("\""), x), Lit("\""))} }
func JSONList1(x Str) Bytes  { return Bytes{S: Cat(Cat(Lit("[\""), x), Lit("\"]"))} }
func JSONLit(text string) Bytes {
	return Bytes{S: Lit(text)}
}

// jsonShape recognises the shapes above.
func jsonShape(b Bytes) (kind string, content Str, ok bool) {
	p := b.S.P
	if c, isC := b.S.Concrete(); isC {
		switch c {
		case "true", "false":
			return c, Str{}, true
		case "{}":
			return "object", Str{}, true
		case "\"\"":
			return "string", Str{}, true
		}
		return "", Str{}, false
	}
	if len(p) >= 3 && p[0].Hole == nil && p[len(p)-1].Hole == nil {
		first, last := p[0].Lit, p[len(p)-1].Lit
		mid := Str{P: append([]Piece{}, p[1:len(p)-1]...)}
		switch {
		case first == "\"" && last == "\"":
			return "string", mid, true
		case first == "[\"" && last == "\"]":
			return "list1", mid, true
		}
	}
	return "", Str{}, false
}

// jsonUnmarshalModel is the summary of encoding/json.Unmarshal(data, target) for the JSONDoc shapes and the target
// kinds the schema decoders use as probes: *string, *[]string, *bool, *struct (absent keys leave fields untouched).
// A kind mismatch returns a non-nil error and leaves the target untouched (documented behaviour of encoding/json for
// these cases). Everything else is undecided.
func jsonUnmarshalModel(m *Machine, a []Value) Value {
	data, ok := a[0].(Bytes)
	if !ok {
		panic(m.undecided("encoding/json.Unmarshal on %T (no summary)", a[0]))
	}
	kind, content, ok := jsonShape(data)
	if !ok {
		panic(m.undecided("encoding/json.Unmarshal on a document shape outside the model (%s)", data.S.Debug()))
	}
	ifc, ok := a[1].(Iface)
	if !ok {
		panic(m.undecided("encoding/json.Unmarshal into %T", a[1]))
	}
	pt, ok := ifc.T.Underlying().(*types.Pointer)
	if !ok {
		return mkErr(Lit("json: Unmarshal(non-pointer)"))
	}
	ptr, ok := ifc.V.(Ptr)
	if !ok || ptr.P == nil {
		return mkErr(Lit("json: Unmarshal(nil)"))
	}
	m.Assume("encoding/json.Unmarshal is modelled for the document shapes \"s\", [\"s\"], true, false, {} into *string, *[]string, *bool and *struct targets")
	mismatch := func() Value {
		return mkErr(Lit("json: cannot unmarshal " + kind + " into Go value of type " + pt.Elem().String()))
	}
	// a named type with its own UnmarshalJSON would be called by the real decoder: outside the model
	if named, isNamed := pt.Elem().(*types.Named); isNamed {
		for i := 0; i < named.NumMethods(); i++ {
			if named.Method(i).Name() == "UnmarshalJSON" {
				panic(m.undecided("encoding/json.Unmarshal into %s, which has its own UnmarshalJSON (outside the model)", named))
			}
		}
	}
	switch u := pt.Elem().Underlying().(type) {
	case *types.Basic:
		switch {
		case u.Kind() == types.String && kind == "string":
			*ptr.P = content
			return Iface{}
		case u.Kind() == types.Bool && (kind == "true" || kind == "false"):
			*ptr.P = kind == "true"
			return Iface{}
		}
		return mismatch()
	case *types.Slice:
		if b, isB := u.Elem().Underlying().(*types.Basic); isB && b.Kind() == types.String && kind == "list1" {
			*ptr.P = m.NewSliceOf(u.Elem(), content)
			return Iface{}
		}
		return mismatch()
	case *types.Struct:
		if kind == "object" {
			return Iface{} // {}: no key, nothing is touched
		}
		return mismatch()
	}
	panic(m.undecided("encoding/json.Unmarshal into %s (target kind outside the model)", pt.Elem()))
}

// DebugValue renders a value canonically (for comparing the results of two abstract runs): nil and empty
// slices/maps/pointers print alike only when they ARE alike for encoding purposes (nil vs empty is kept apart).
func DebugValue(v Value) string { return debugValue(v, 0) }

func debugValue(v Value, depth int) string {
	if depth > 8 {
		return "…"
	}
	switch x := v.(type) {
	case nil:
		return "nil"
	case bool:
		if x {
			return "true"
		}
		return "false"
	case int64:
		return itoa(x)
	case Str:
		return "\"" + x.Debug() + "\""
	case Ptr:
		if x.P == nil {
			return "nil"
		}
		return "&" + debugValue(*x.P, depth+1)
	case Slice:
		if x.Back == nil {
			return "nil"
		}
		s := "["
		for i := 0; i < x.Len(); i++ {
			if i > 0 {
				s += " "
			}
			s += debugValue(*x.At(i), depth+1)
		}
		return s + "]"
	case Struct:
		s := "{"
		for i, f := range x.F {
			d := debugValue(f, depth+1)
			if d == "nil" || d == "false" || d == "0" || d == "\"\"" {
				continue // zero fields are omitted: two structs print alike iff their non-zero fields agree
			}
			s += " #" + itoa(int64(i)) + ":" + d
		}
		return s + " }"
	case Array:
		s := "["
		for _, e := range x.E {
			s += debugValue(e, depth+1) + " "
		}
		return s + "]"
	case *Map:
		if x == nil || x.Nil {
			return "nil"
		}
		s := "map["
		for i := range x.Keys {
			s += debugValue(x.Keys[i], depth+1) + ":" + debugValue(x.Vals[i], depth+1) + " "
		}
		return s + "]"
	case Iface:
		if x.T == nil {
			return "nil"
		}
		return "(" + x.T.String() + ")" + debugValue(x.V, depth+1)
	case Num:
		return "num(" + x.A.Name + ")"
	case float64:
		return "float"
	}
	return "?"
}

func itoa(x int64) string {
	if x == 0 {
		return "0"
	}
	neg := x < 0
	if neg {
		x = -x
	}
	var b []byte
	for x > 0 {
		b = append([]byte{byte('0' + x%10)}, b...)
		x /= 10
	}
	if neg {
		return "-" + string(b)
	}
	return string(b)
}
