// Package absint is Engine A of DESIGN.md: an abstract interpreter over go/ssa
// for the generator's own code. It never runs compiled code from /repo and is
// never given a concrete schema or document: inputs are abstract objects whose
// leaves are atoms standing for every value of a kind, strings are piece lists
// with holes, and undecidable comparisons fork by re-execution.
package absint

import (
	"fmt"
	"go/token"
	"go/types"
	"sort"
	"strings"

	"golang.org/x/tools/go/ssa"
)

// Value is an abstract value. Concrete representations:
//
//	bool, int64 (every integer kind), float64, Str (strings), Ptr, Struct,
//	Array, Slice, *Map, Iface, *Closure, *ssa.Function, *ssa.Builtin, Tuple,
//	Num (abstract number), Unknown.
type Value interface{}

// Ptr is a pointer: a reference to a slot. Nil pointer has P == nil.
type Ptr struct {
	P *Value
	// Obj identifies the allocation for pointer equality and map keys.
	Obj *Object
}

// Object is the identity of an allocation.
type Object struct {
	ID   int
	Note string
}

// Struct is a struct value (fields in declaration order). Copy on load/store.
type Struct struct {
	F []Value
}

// Array is an array value.
type Array struct {
	E []Value
}

// Slice shares a backing store.
type Slice struct {
	Back     *[]Value // nil for a nil slice
	Lo, Hi   int
	Cap      int
	ElemZero func() Value
}

func (s Slice) IsNil() bool { return s.Back == nil }
func (s Slice) Len() int    { return s.Hi - s.Lo }
func (s Slice) At(i int) *Value {
	return &(*s.Back)[s.Lo+i]
}

// Map is an insertion-ordered abstract map.
type Map struct {
	Obj  *Object
	Keys []Value
	Vals []Value
	Nil  bool
}

// Iface is an interface value with its dynamic type. Nil interface: T == nil.
type Iface struct {
	T types.Type
	V Value
}

// Closure is a function value with captured variables.
type Closure struct {
	Fn  *ssa.Function
	Env []Value
	Obj *Object
}

// BoundMethod is a method value (x.M).
type BoundMethod struct {
	Recv Value
	Fn   *ssa.Function
}

// Tuple is a multi-value result.
type Tuple []Value

// Unknown is the result of an un-summarised external; reaching a decision or an
// emit with it makes the run undecided.
type Unknown struct{ Why string }

// Atom is a symbolic leaf standing for every value of a kind.
type Atom struct {
	ID   int
	Kind string // RawStr, Ident, PosInt, Float, Rune, GoLit
	Name string // human label (e.g. "pattern", "jsonName of field 0")
	// facts
	NonEmpty bool              // strings: len > 0
	Facts    map[string]string // further facts decided by the configuration
}

func (a *Atom) String() string { return fmt.Sprintf("%s#%d(%s)", a.Kind, a.ID, a.Name) }

// Num is an abstract number: an atom with a chain of transforms
// (e.g. trunc-int64, +1). IsFloat tells the Go kind.
type Num struct {
	A       *Atom
	Off     float64 // additive constant
	Tr      []string
	IsFloat bool
}

// Piece of an abstract string.
type Piece struct {
	Lit  string
	Hole *Hole
}

// Hole is a position in emitted text filled from an atom.
type Hole struct {
	A       *Atom
	Tr      []string // transforms applied, in order: quoted, upper, lower, [0:1], [1:], no-newline, fmt:%d ...
	Site    string   // where it was formatted into text: "<function> :: <format> arg<i>" (position-free)
	SitePos string   // file:line of that site
}

// Str is an abstract string: a list of pieces. A concrete string has only Lit pieces.
type Str struct {
	P []Piece
}

func Lit(s string) Str {
	if s == "" {
		return Str{}
	}
	return Str{P: []Piece{{Lit: s}}}
}

func HoleStr(a *Atom, tr ...string) Str {
	return Str{P: []Piece{{Hole: &Hole{A: a, Tr: append([]string{}, tr...)}}}}
}

// Concrete returns the Go string when s has no holes.
func (s Str) Concrete() (string, bool) {
	var sb strings.Builder
	for _, p := range s.P {
		if p.Hole != nil {
			return "", false
		}
		sb.WriteString(p.Lit)
	}
	return sb.String(), true
}

func (s Str) HasHole() bool {
	for _, p := range s.P {
		if p.Hole != nil {
			return true
		}
	}
	return false
}

// Cat concatenates, merging adjacent literals.
func Cat(parts ...Str) Str {
	var out []Piece
	for _, s := range parts {
		for _, p := range s.P {
			if p.Hole == nil {
				if p.Lit == "" {
					continue
				}
				if n := len(out); n > 0 && out[n-1].Hole == nil {
					out[n-1].Lit += p.Lit
					continue
				}
			}
			out = append(out, p)
		}
	}
	return Str{P: out}
}

// MapHoles applies a transform to every hole (literals through f).
func (s Str) MapHoles(tr string, f func(string) string) Str {
	var out []Piece
	for _, p := range s.P {
		if p.Hole != nil {
			h := *p.Hole
			h.Tr = append(append([]string{}, h.Tr...), tr)
			out = append(out, Piece{Hole: &h})
		} else {
			out = append(out, Piece{Lit: f(p.Lit)})
		}
	}
	return Str{P: out}
}

// Debug renders s with holes shown as «atom|transforms».
func (s Str) Debug() string {
	var sb strings.Builder
	for _, p := range s.P {
		if p.Hole != nil {
			sb.WriteString("«" + p.Hole.A.String())
			if len(p.Hole.Tr) > 0 {
				sb.WriteString("|" + strings.Join(p.Hole.Tr, ","))
			}
			sb.WriteString("»")
		} else {
			sb.WriteString(p.Lit)
		}
	}
	return sb.String()
}

// definitelyNonEmpty / definitelyEmpty for length tests.
func (s Str) NonEmpty() (bool, bool) { // (value, known)
	if len(s.P) == 0 {
		return false, true
	}
	for _, p := range s.P {
		if p.Hole == nil && p.Lit != "" {
			return true, true
		}
		if p.Hole != nil && p.Hole.A.NonEmpty && !holeMayShrinkToEmpty(p.Hole) {
			return true, true
		}
	}
	return false, false
}

func holeMayShrinkToEmpty(h *Hole) bool {
	for _, t := range h.Tr {
		if strings.HasPrefix(t, "[") || t == "trimspace" || strings.HasPrefix(t, "trim") {
			if t == "[0:1]" {
				continue // first byte of a non-empty string
			}
			return true
		}
	}
	return false
}

// ---- zero values, copying, equality ---------------------------------------

func (m *Machine) Zero(t types.Type) Value {
	switch u := t.Underlying().(type) {
	case *types.Basic:
		switch {
		case u.Info()&types.IsBoolean != 0:
			return false
		case u.Info()&types.IsInteger != 0:
			return int64(0)
		case u.Info()&types.IsFloat != 0:
			return float64(0)
		case u.Info()&types.IsString != 0:
			return Str{}
		case u.Kind() == types.UnsafePointer:
			return Ptr{}
		case u.Kind() == types.UntypedNil:
			return Ptr{}
		}
	case *types.Pointer:
		return Ptr{}
	case *types.Struct:
		s := Struct{F: make([]Value, u.NumFields())}
		for i := range s.F {
			s.F[i] = m.Zero(u.Field(i).Type())
		}
		return s
	case *types.Array:
		a := Array{E: make([]Value, u.Len())}
		for i := range a.E {
			a.E[i] = m.Zero(u.Elem())
		}
		return a
	case *types.Slice:
		el := u.Elem()
		return Slice{ElemZero: func() Value { return m.Zero(el) }}
	case *types.Map:
		return &Map{Nil: true}
	case *types.Interface:
		return Iface{}
	case *types.Signature:
		return (*Closure)(nil)
	case *types.Tuple:
		tp := make(Tuple, u.Len())
		for i := range tp {
			tp[i] = m.Zero(u.At(i).Type())
		}
		return tp
	case *types.Chan:
		return Ptr{}
	}
	panic(fmt.Sprintf("zero: unsupported type %s", t))
}

// Copy makes a value copy (structs and arrays are values).
func Copy(v Value) Value {
	switch x := v.(type) {
	case Struct:
		n := Struct{F: make([]Value, len(x.F))}
		for i, f := range x.F {
			n.F[i] = Copy(f)
		}
		return n
	case Array:
		n := Array{E: make([]Value, len(x.E))}
		for i, f := range x.E {
			n.E[i] = Copy(f)
		}
		return n
	case Tuple:
		n := make(Tuple, len(x))
		for i, f := range x {
			n[i] = Copy(f)
		}
		return n
	}
	return v
}

func (m *Machine) newObj(note string) *Object {
	m.nextObj++
	return &Object{ID: m.nextObj, Note: note}
}

// NewPtr allocates a slot holding v.
func (m *Machine) NewPtr(v Value, note string) Ptr {
	slot := new(Value)
	*slot = v
	return Ptr{P: slot, Obj: m.newObj(note)}
}

// IsNilValue: typed nil test for pointer-like values.
func IsNilValue(v Value) bool {
	switch x := v.(type) {
	case nil:
		return true
	case Ptr:
		return x.P == nil
	case Slice:
		return x.Back == nil
	case *Map:
		return x == nil || x.Nil
	case Iface:
		return x.T == nil
	case *Closure:
		return x == nil
	case *ssa.Function:
		return x == nil
	}
	return false
}

// tri-state
type Tri int

const (
	No Tri = iota
	Yes
	Maybe
)

func triOf(b bool) Tri {
	if b {
		return Yes
	}
	return No
}

// Equal compares two abstract values. For strings with holes the result may be
// Maybe, in which case `why` is the canonical fact the caller should fork on.
func (m *Machine) Equal(x, y Value) (Tri, string) {
	switch a := x.(type) {
	case bool:
		if b, ok := y.(bool); ok {
			return triOf(a == b), ""
		}
	case int64:
		switch b := y.(type) {
		case int64:
			return triOf(a == b), ""
		case Num:
			return m.numCmpConst(b, float64(a), "==")
		case SymInt:
			return triOf(m.symIntCmp(token.EQL, a, b, true).(bool)), ""
		}
	case float64:
		switch b := y.(type) {
		case float64:
			return triOf(a == b), ""
		case Num:
			return m.numCmpConst(b, a, "==")
		}
	case Num:
		switch b := y.(type) {
		case int64:
			return m.numCmpConst(a, float64(b), "==")
		case float64:
			return m.numCmpConst(a, b, "==")
		case Num:
			return m.numCmpNum(a, b, "==")
		}
	case SymInt:
		if b, ok := y.(int64); ok {
			return triOf(m.symIntCmp(token.EQL, b, a, false).(bool)), ""
		}
	case Str:
		if b, ok := y.(Str); ok {
			return m.strEqual(a, b)
		}
	case Ptr:
		if b, ok := y.(Ptr); ok {
			return triOf(a.P == b.P), ""
		}
	case Slice:
		if b, ok := y.(Slice); ok {
			// only comparison with nil is legal
			return triOf(a.IsNil() && b.IsNil()), ""
		}
	case *Map:
		if b, ok := y.(*Map); ok {
			if IsNilValue(a) || IsNilValue(b) {
				return triOf(IsNilValue(a) && IsNilValue(b)), ""
			}
			return triOf(a == b), ""
		}
	case *Closure:
		switch b := y.(type) {
		case *Closure:
			return triOf(a == nil && b == nil), ""
		}
		return triOf(a == nil && IsNilValue(y)), ""
	case *ssa.Function:
		return triOf(a == nil && IsNilValue(y)), ""
	case Iface:
		if b, ok := y.(Iface); ok {
			if a.T == nil || b.T == nil {
				return triOf(a.T == nil && b.T == nil), ""
			}
			if !types.Identical(a.T, b.T) {
				return No, ""
			}
			return m.Equal(a.V, b.V)
		}
	case Struct:
		if b, ok := y.(Struct); ok {
			res := Yes
			why := ""
			for i := range a.F {
				t, w := m.Equal(a.F[i], b.F[i])
				if t == No {
					return No, ""
				}
				if t == Maybe {
					res, why = Maybe, w
				}
			}
			return res, why
		}
	case Array:
		if b, ok := y.(Array); ok {
			res := Yes
			why := ""
			for i := range a.E {
				t, w := m.Equal(a.E[i], b.E[i])
				if t == No {
					return No, ""
				}
				if t == Maybe {
					res, why = Maybe, w
				}
			}
			return res, why
		}
	case Unknown:
		return Maybe, "unknown:" + a.Why
	}
	if _, ok := y.(Unknown); ok {
		return Maybe, "unknown"
	}
	panic(fmt.Sprintf("Equal: unsupported operands %T / %T", x, y))
}

// strEqual: equality of abstract strings.
func (m *Machine) strEqual(a, b Str) (Tri, string) {
	ca, oka := a.Concrete()
	cb, okb := b.Concrete()
	if oka && okb {
		return triOf(ca == cb), ""
	}
	// identical piece lists
	if strKey(a) == strKey(b) {
		return Yes, ""
	}
	// comparison with the empty string is the emptiness fact of the other side
	if (oka && ca == "") || (okb && cb == "") {
		other := a
		if oka && ca == "" {
			other = b
		}
		if ne, known := other.NonEmpty(); known {
			return triOf(!ne), ""
		}
		return triOf(m.Decide("strempty:"+strKey(other), 2, "emptiness of a symbolic string") == 1), ""
	}
	// emptiness mismatch
	if ne, known := a.NonEmpty(); known {
		if nb, kb := b.NonEmpty(); kb && ne != nb {
			return No, ""
		}
	}
	// a single untransformed hole against a literal / another hole: a named fact
	ka, kb := strKey(a), strKey(b)
	if ka > kb {
		ka, kb = kb, ka
	}
	return Maybe, "streq:" + ka + "==" + kb
}

func strKey(s Str) string {
	var sb strings.Builder
	for _, p := range s.P {
		if p.Hole != nil {
			fmt.Fprintf(&sb, "\x00%d|%s\x00", p.Hole.A.ID, strings.Join(p.Hole.Tr, ","))
		} else {
			sb.WriteString(p.Lit)
		}
	}
	return sb.String()
}

// mapKeyString canonicalises a map key value for lookup.
func mapKeyString(v Value) string {
	switch x := v.(type) {
	case Str:
		return "s:" + strKey(x)
	case int64:
		return fmt.Sprintf("i:%d", x)
	case bool:
		return fmt.Sprintf("b:%v", x)
	case float64:
		return fmt.Sprintf("f:%v", x)
	case Ptr:
		if x.P == nil {
			return "p:nil"
		}
		return fmt.Sprintf("p:%p", x.P)
	case Iface:
		if x.T == nil {
			return "n:nil"
		}
		return "I:" + x.T.String() + ":" + mapKeyString(x.V)
	case Struct:
		parts := make([]string, len(x.F))
		for i, f := range x.F {
			parts[i] = mapKeyString(f)
		}
		return "S{" + strings.Join(parts, ",") + "}"
	case Num:
		return fmt.Sprintf("N:%d|%s", x.A.ID, strings.Join(x.Tr, ","))
	case *Map:
		return fmt.Sprintf("m:%p", x)
	}
	panic(fmt.Sprintf("mapKeyString: unsupported key %T", v))
}

// Lookup finds key k in the map. Abstract string keys are matched by identity
// of their piece lists; a symbolic key never equals a different literal unless
// the configuration says so (recorded as an assumption).
func (m *Machine) MapLookup(mp *Map, k Value) (Value, bool) {
	if mp == nil || mp.Nil {
		return nil, false
	}
	ks := mapKeyString(k)
	for i, kk := range mp.Keys {
		if mapKeyString(kk) == ks {
			return mp.Vals[i], true
		}
	}
	for i, kk := range mp.Keys {
		if m.knownEqualKey(kk, k) {
			return mp.Vals[i], true
		}
	}
	// a symbolic key may coincide with another key: that is a fork
	if s, ok := k.(Str); ok && s.HasHole() {
		for i, kk := range mp.Keys {
			if ks2, ok := kk.(Str); ok {
				t, why := m.strEqual(s, ks2)
				if t == Maybe && m.Decide(why, 2, "map key coincidence") == 1 {
					return mp.Vals[i], true
				}
			}
		}
	} else if s, ok := k.(Str); ok {
		for i, kk := range mp.Keys {
			if ks2, ok := kk.(Str); ok && ks2.HasHole() {
				t, why := m.strEqual(s, ks2)
				if t == Maybe && m.Decide(why, 2, "map key coincidence") == 1 {
					return mp.Vals[i], true
				}
			}
		}
	}
	return nil, false
}

// knownEqualKey: the world has already decided that two symbolic string keys are the same string.
func (m *Machine) knownEqualKey(a, b Value) bool {
	sa, ok1 := a.(Str)
	sb, ok2 := b.(Str)
	if !ok1 || !ok2 || (!sa.HasHole() && !sb.HasHole()) {
		return false
	}
	// strip a common literal suffix/prefix structure: same shape with holes pairwise known-equal
	if len(sa.P) != len(sb.P) {
		return false
	}
	for i := range sa.P {
		pa, pb := sa.P[i], sb.P[i]
		if (pa.Hole == nil) != (pb.Hole == nil) {
			return false
		}
		if pa.Hole == nil {
			if pa.Lit != pb.Lit {
				return false
			}
			continue
		}
		if strings.Join(pa.Hole.Tr, ",") != strings.Join(pb.Hole.Tr, ",") {
			return false
		}
		if pa.Hole.A.ID != pb.Hole.A.ID && m.eqFind(pa.Hole.A.ID) != m.eqFind(pb.Hole.A.ID) {
			return false
		}
	}
	return true
}

func (m *Machine) MapUpdate(mp *Map, k, v Value) {
	if mp.Nil {
		panic(m.fail("assignment to entry in nil map"))
	}
	ks := mapKeyString(k)
	for i, kk := range mp.Keys {
		if mapKeyString(kk) == ks {
			mp.Vals[i] = v
			return
		}
	}
	for i, kk := range mp.Keys {
		if m.knownEqualKey(kk, k) {
			mp.Vals[i] = v
			return
		}
	}
	mp.Keys = append(mp.Keys, k)
	mp.Vals = append(mp.Vals, v)
}

func (m *Machine) MapDelete(mp *Map, k Value) {
	if mp == nil || mp.Nil {
		return
	}
	ks := mapKeyString(k)
	for i, kk := range mp.Keys {
		if mapKeyString(kk) == ks {
			mp.Keys = append(mp.Keys[:i:i], mp.Keys[i+1:]...)
			mp.Vals = append(mp.Vals[:i:i], mp.Vals[i+1:]...)
			return
		}
	}
}

// sortedStrKeys orders abstract strings: concrete ones by value; symbolic ones
// keep their relative (insertion) order after the concrete ones. The order of
// symbolic keys is an abstraction recorded as an assumption.
func (m *Machine) sortStrs(vs []Value) {
	type item struct {
		v    Value
		conc bool
		s    string
		i    int
	}
	items := make([]item, len(vs))
	sym := false
	for i, v := range vs {
		s, _ := v.(Str)
		c, ok := s.Concrete()
		items[i] = item{v, ok, c, i}
		if !ok {
			sym = true
		}
	}
	if sym {
		m.Assume("symbolic names are taken in their declaration order where the code sorts them (sort order of atoms abstracted)")
		return
	}
	sort.SliceStable(items, func(a, b int) bool { return items[a].s < items[b].s })
	for i := range items {
		vs[i] = items[i].v
	}
}

// SamePointer: two pointer values denote the same slot.
func SamePointer(a, b Value) bool {
	pa, ok1 := a.(Ptr)
	pb, ok2 := b.(Ptr)
	return ok1 && ok2 && pa.P != nil && pa.P == pb.P
}
