package absint

import (
	"verif/checker/internal/core"
)

// RunResult is one completed run of an entry under one decision script.
type RunResult struct {
	Script      []int
	Err         *RunError
	Out         any
	Forks       []ForkSite
	Assumptions []string
	Events      []Event
	Steps       int
	Externals   []string
}

// Explore runs entry under every decision script (depth-first over the
// undecidable choices met), up to budget runs. complete=false means the budget
// was exhausted: the caller must treat that as undecided.
func Explore(p *core.Program, budget int, setup func(m *Machine), entry func(m *Machine) any) (runs []RunResult, complete bool) {
	stack := [][]int{{}}
	for len(stack) > 0 {
		if len(runs) >= budget {
			return runs, false
		}
		script := stack[len(stack)-1]
		stack = stack[:len(stack)-1]
		m := NewMachine(p)
		if setup != nil {
			setup(m)
		}
		var out any
		err := m.Run(script, func() { out = entry(m) })
		made, arity := m.Made()
		runs = append(runs, RunResult{Script: append([]int{}, made...), Err: err, Out: out, Forks: m.Forks,
			Assumptions: m.Assumptions(), Events: m.Events, Steps: m.Steps, Externals: m.UsedExternals()})
		// schedule the untried alternatives of every decision made beyond the script
		for i := len(made) - 1; i >= len(script); i-- {
			for alt := arity[i] - 1; alt >= 1; alt-- {
				ns := append(append([]int{}, made[:i]...), alt)
				stack = append(stack, ns)
			}
		}
	}
	return runs, true
}
