package absint

import (
	"go/types"
)

// mergoMerge models dario.cat/mergo.Merge(dst, src, WithAppendSlice,
// WithTransformers(typeListTransformer{})) as the generator uses it (trusted
// base): exported fields only; an empty destination takes the source value;
// slices are appended; maps gain the keys they lack and deep-merge the ones
// they share when the element is a pointer/struct/map; pointers are shared when
// the destination is nil and deep-merged otherwise; fields whose type has a
// registered transformer (schemas.TypeList, whose transformer does nothing)
// are left alone.
func (m *Machine) mergoMerge(dst *Value, src Value, t types.Type, skipNamed func(types.Type) bool, depth int) {
	if depth > 40 {
		panic(m.undecided("mergo model: recursion too deep"))
	}
	if skipNamed(t) {
		// mergo consults transformers only for non-nil destinations: a nil TypeList is filled by the
		// ordinary slice rule, a non-nil one is left to the (no-op) transformer
		if d, ok := (*dst).(Slice); ok && d.IsNil() {
			if s, ok := src.(Slice); ok && s.Len() > 0 {
				*dst = m.NewSliceOf(t.Underlying().(*types.Slice).Elem(), SliceValues(s)...)
			}
		}
		return
	}
	switch u := t.Underlying().(type) {
	case *types.Struct:
		ds, ok1 := (*dst).(Struct)
		ss, ok2 := src.(Struct)
		if !ok1 || !ok2 {
			return
		}
		for i := 0; i < u.NumFields(); i++ {
			if !u.Field(i).Exported() {
				continue
			}
			m.mergoMerge(&ds.F[i], ss.F[i], u.Field(i).Type(), skipNamed, depth+1)
		}
	case *types.Pointer:
		sp, _ := src.(Ptr)
		dp, _ := (*dst).(Ptr)
		if sp.P == nil {
			return
		}
		if dp.P == nil {
			*dst = sp
			return
		}
		if dp.P == sp.P {
			return
		}
		if m.mergoNoDeref {
			return // WithoutDereference: a non-nil destination pointer is kept as it is
		}
		m.mergoMerge(dp.P, *sp.P, u.Elem(), skipNamed, depth+1)
	case *types.Slice:
		ssl, _ := src.(Slice)
		dsl, _ := (*dst).(Slice)
		if ssl.Len() == 0 {
			return
		}
		vals := append(SliceValues(dsl), SliceValues(ssl)...)
		*dst = m.NewSliceOf(u.Elem(), vals...)
	case *types.Map:
		sm, _ := src.(*Map)
		dm, _ := (*dst).(*Map)
		if sm == nil || sm.Nil || len(sm.Keys) == 0 {
			return
		}
		if dm == nil || dm.Nil {
			dm = &Map{Obj: m.newObj("merged map")}
			*dst = dm
		}
		for i, k := range sm.Keys {
			if _, ok := m.MapLookup(dm, k); !ok {
				m.MapUpdate(dm, k, sm.Vals[i])
				continue
			}
			switch u.Elem().Underlying().(type) {
			case *types.Pointer, *types.Struct, *types.Map:
				for j, dk := range dm.Keys {
					if mapKeyString(dk) == mapKeyString(k) {
						m.mergoMerge(&dm.Vals[j], sm.Vals[i], u.Elem(), skipNamed, depth+1)
					}
				}
			}
		}
	case *types.Interface:
		di, _ := (*dst).(Iface)
		if di.T == nil {
			*dst = src
		}
	case *types.Basic:
		if t2, _ := m.Equal(*dst, m.Zero(t)); t2 == Yes {
			*dst = src
		}
	}
}

// typedEqual is the model of cmp.Equal with IgnoreUnexported and IgnoreFields.
func (m *Machine) typedEqual(x, y Value, t types.Type, ignore map[string]bool, depth int) bool {
	if depth > 40 {
		return true
	}
	switch u := t.Underlying().(type) {
	case *types.Struct:
		xs, ok1 := x.(Struct)
		ys, ok2 := y.(Struct)
		if !ok1 || !ok2 {
			return false
		}
		for i := 0; i < u.NumFields(); i++ {
			f := u.Field(i)
			if !f.Exported() || ignore[f.Name()] {
				continue
			}
			if !m.typedEqual(xs.F[i], ys.F[i], f.Type(), ignore, depth+1) {
				return false
			}
		}
		return true
	case *types.Pointer:
		xp, _ := x.(Ptr)
		yp, _ := y.(Ptr)
		if xp.P == nil || yp.P == nil {
			return xp.P == nil && yp.P == nil
		}
		if xp.P == yp.P {
			return true
		}
		return m.typedEqual(*xp.P, *yp.P, u.Elem(), ignore, depth+1)
	case *types.Slice:
		xs, _ := x.(Slice)
		ys, _ := y.(Slice)
		if xs.Len() != ys.Len() || xs.IsNil() != ys.IsNil() {
			return false
		}
		for i := 0; i < xs.Len(); i++ {
			if !m.typedEqual(*xs.At(i), *ys.At(i), u.Elem(), ignore, depth+1) {
				return false
			}
		}
		return true
	case *types.Map:
		xm, _ := x.(*Map)
		ym, _ := y.(*Map)
		xn, yn := xm == nil || xm.Nil, ym == nil || ym.Nil
		if xn || yn {
			return xn == yn
		}
		if len(xm.Keys) != len(ym.Keys) {
			return false
		}
		for i, k := range xm.Keys {
			v, ok := m.MapLookup(ym, k)
			if !ok || !m.typedEqual(xm.Vals[i], v, u.Elem(), ignore, depth+1) {
				return false
			}
		}
		return true
	case *types.Interface:
		return m.deepEqual(x, y, map[[2]*Value]bool{})
	}
	tr, _ := m.Equal(x, y)
	return tr == Yes
}
