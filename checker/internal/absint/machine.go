package absint

import (
	"fmt"
	"go/constant"
	"go/token"
	"go/types"
	"sort"
	"strings"

	"golang.org/x/tools/go/ssa"

	"verif/checker/internal/core"
)

// RunError ends a run: the interpreted code panicked ("panic"), the analysis
// could not decide something ("undecided"), or a budget ran out ("budget").
type RunError struct {
	Kind  string
	Msg   string
	Pos   string
	Stack []string
}

func (e *RunError) Error() string { return e.Kind + ": " + e.Msg + " at " + e.Pos }

// SymInt is an integer derived from the length of an abstract string: len(S)+Off.
type SymInt struct {
	S   Str
	Off int64
}

// ForkSite records one undecidable decision.
type ForkSite struct {
	Key  string
	N    int
	Note string
	Pos  string
}

// Machine interprets SSA with abstract values.
type Machine struct {
	P           *core.Program
	nextObj     int
	nextAtom    int
	globals     map[*ssa.Global]*Value
	initDone    map[*ssa.Package]bool
	initStarted map[*ssa.Package]bool

	// decisions
	script   []int
	made     []int          // decisions taken in this run, in order
	arity    []int          // number of alternatives of each decision
	decided  map[string]int // fact -> choice
	Forks    []ForkSite
	assumed  map[string]bool
	Steps    int
	MaxSteps int

	stack    []*frame
	builders map[*Value]*Str // strings.Builder contents keyed by the builder's slot
	// Hooks
	OnCall       func(fn *ssa.Function, args []Value) (Value, bool) // intercept (e.g. stub a function); return handled
	Warnings     []Str
	ext          map[string]ExtFn
	ivs          map[string]*interval
	derived      map[string]*Atom
	usedExt      map[string]bool
	atoms        map[int]*Atom
	eqParent     map[int]int
	eqNeq        map[[2]int]bool
	mergoNoDeref bool
	Events       []Event
	// FactDefault lets a configuration pre-decide named facts (e.g. "streq:..."), bypassing forks.
	Scratch map[string]any
	Facts   map[string]int
	// FactPrefixDefault pre-decides string-equality facts by suffix (e.g. "==Plain").
	FactPrefixDefault map[string]int
	// ForkStringEquality: explore both outcomes of undecided string equalities instead of assuming "different".
	ForkStringEquality bool
}

type frame struct {
	fn     *ssa.Function
	env    map[ssa.Value]Value
	block  *ssa.BasicBlock
	prev   *ssa.BasicBlock
	defers []func()
	result Value
	pos    token.Pos
	fvs    []Value
}

func NewMachine(p *core.Program) *Machine {
	m := &Machine{P: p, globals: map[*ssa.Global]*Value{}, initDone: map[*ssa.Package]bool{}, decided: map[string]int{},
		assumed: map[string]bool{}, MaxSteps: 2_000_000, builders: map[*Value]*Str{}, Facts: map[string]int{}}
	m.ext = externals()
	return m
}

func (m *Machine) NewAtom(kind, name string) *Atom {
	m.nextAtom++
	a := &Atom{ID: m.nextAtom, Kind: kind, Name: name, Facts: map[string]string{}}
	if m.atoms == nil {
		m.atoms = map[int]*Atom{}
	}
	m.atoms[a.ID] = a
	return a
}

// identPair parses a string-equality fact between two whole, untransformed identifier atoms.
func (m *Machine) identPair(key string) (int, int, bool) {
	var a, b int
	if n, _ := fmt.Sscanf(key, "streq:\x00%d|\x00==\x00%d|\x00", &a, &b); n != 2 {
		return 0, 0, false
	}
	if key != fmt.Sprintf("streq:\x00%d|\x00==\x00%d|\x00", a, b) {
		return 0, 0, false
	}
	x, y := m.atoms[a], m.atoms[b]
	if x == nil || y == nil || x.Kind != "Ident" || y.Kind != "Ident" {
		return 0, 0, false
	}
	return a, b, true
}

func (m *Machine) eqFind(x int) int {
	if m.eqParent == nil {
		m.eqParent = map[int]int{}
	}
	for {
		p, ok := m.eqParent[x]
		if !ok || p == x {
			return x
		}
		x = p
	}
}

func (m *Machine) Assume(s string) { m.assumed[s] = true }

func (m *Machine) Assumptions() []string {
	var out []string
	for s := range m.assumed {
		out = append(out, s)
	}
	sort.Strings(out)
	return out
}

func (m *Machine) curPos() string {
	for i := len(m.stack) - 1; i >= 0; i-- {
		if m.stack[i].pos.IsValid() {
			return m.P.Pos(m.stack[i].pos)
		}
	}
	return "?"
}

// modulePos is the position of the innermost frame of a *module* function.
func (m *Machine) stackTrace() []string {
	var out []string
	for i := len(m.stack) - 1; i >= 0 && len(out) < 12; i-- {
		f := m.stack[i]
		out = append(out, m.P.FuncName(f.fn)+" ("+m.P.Pos(f.pos)+")")
	}
	return out
}

func (m *Machine) fail(format string, args ...any) *RunError {
	return &RunError{Kind: "panic", Msg: fmt.Sprintf(format, args...), Pos: m.curPos(), Stack: m.stackTrace()}
}

func (m *Machine) undecided(format string, args ...any) *RunError {
	return &RunError{Kind: "undecided", Msg: fmt.Sprintf(format, args...), Pos: m.curPos(), Stack: m.stackTrace()}
}

// Decide resolves an undecidable n-way choice named by a canonical fact.
// The same fact always gets the same answer within a run; new facts consume the
// decision script, and past its end take alternative 0 (the driver re-runs the
// entry for the others).
func (m *Machine) Decide(key string, n int, note string) int {
	if v, ok := m.Facts[key]; ok {
		return v
	}
	if strings.HasPrefix(key, "streq:") && m.constPair(key) {
		// the generator compares the TEXT of a keyword value (a pattern) with a constant: both outcomes are worlds, so that what it
		// does for that particular text is checked against what that text means
		return m.decideGeneric(key, n, note)
	}
	if strings.HasPrefix(key, "streq:") {
		for suf, v := range m.FactPrefixDefault {
			if strings.HasSuffix(key, suf) {
				m.Assume("synthesised identifiers differ from the generator's reserved names (" + strings.TrimPrefix(suf, "==") + ")")
				return v
			}
		}
		if !m.ForkStringEquality {
			// distinct atoms stand for distinct strings unless a family equates them explicitly (Facts)
			m.Assume("distinct symbolic names denote distinct strings, different from the concrete names of the run (coincidences are explored by dedicated collision families)")
			return 0
		}
		// collision exploration: only coincidences between two synthesised identifiers (whole, untransformed)
		// are worlds of their own, and the decisions are kept transitively consistent
		x, y, ok := m.identPair(key)
		if !ok {
			return 0
		}
		rx, ry := m.eqFind(x), m.eqFind(y)
		if rx == ry {
			return 1
		}
		if m.eqNeq[[2]int{rx, ry}] || m.eqNeq[[2]int{ry, rx}] {
			return 0
		}
		// fall through to a real decision; record its consequence below
		choice := 0
		i := len(m.made)
		if i < len(m.script) {
			choice = m.script[i]
		}
		m.made = append(m.made, choice)
		m.arity = append(m.arity, 2)
		m.decided[key] = choice
		m.Forks = append(m.Forks, ForkSite{Key: key, N: 2, Note: note, Pos: m.curPos()})
		if choice == 1 {
			m.eqParent[ry] = rx
			// merge disequalities
			for k := range m.eqNeq {
				if k[0] == ry {
					m.eqNeq[[2]int{rx, k[1]}] = true
				}
				if k[1] == ry {
					m.eqNeq[[2]int{k[0], rx}] = true
				}
			}
		} else {
			if m.eqNeq == nil {
				m.eqNeq = map[[2]int]bool{}
			}
			m.eqNeq[[2]int{rx, ry}] = true
		}
		return choice
	}
	return m.decideGeneric(key, n, note)
}

func (m *Machine) decideGeneric(key string, n int, note string) int {
	if v, ok := m.decided[key]; ok {
		return v
	}
	choice := 0
	i := len(m.made)
	if i < len(m.script) {
		choice = m.script[i]
	}
	m.made = append(m.made, choice)
	m.arity = append(m.arity, n)
	m.decided[key] = choice
	m.Forks = append(m.Forks, ForkSite{Key: key, N: n, Note: note, Pos: m.curPos()})
	return choice
}

// constPair: the equality fact relates the whole, untransformed text of a keyword-value atom (Facts["forkconst"]) to a
// non-empty constant.
func (m *Machine) constPair(key string) bool {
	_, _, ok := ConstPairOf(key, func(id int) bool { a := m.atoms[id]; return a != nil && a.Facts["forkconst"] == "yes" })
	return ok
}

// ConstPairOf parses "streq:\x00<id>|\x00==<literal>" (either order).
func ConstPairOf(key string, want func(id int) bool) (int, string, bool) {
	body := strings.TrimPrefix(key, "streq:")
	l, r, ok := strings.Cut(body, "==")
	if !ok {
		return 0, "", false
	}
	for _, pr := range [][2]string{{l, r}, {r, l}} {
		// one whole hole (possibly case-mapped or otherwise transformed as a whole) against a non-empty constant
		h := pr[0]
		if len(h) < 4 || h[0] != 0 || h[len(h)-1] != 0 || strings.Count(h, "\x00") != 2 {
			continue
		}
		var id int
		if n, _ := fmt.Sscanf(h[1:], "%d|", &id); n != 1 {
			continue
		}
		if pr[1] != "" && !strings.Contains(pr[1], "\x00") && want(id) {
			return id, pr[1], true
		}
	}
	return 0, "", false
}

// ---- globals ---------------------------------------------------------------

func (m *Machine) global(g *ssa.Global) *Value {
	if slot, ok := m.globals[g]; ok {
		return slot
	}
	slot := new(Value)
	elem := g.Type().(*types.Pointer).Elem()
	*slot = m.Zero(elem)
	m.globals[g] = slot
	// module package-level error sentinels etc. are initialised lazily by running the package init
	if g.Pkg != nil && m.P.InModulePkg(g.Pkg.Pkg.Path()) && !m.initDone[g.Pkg] {
		m.initDone[g.Pkg] = true
		if init := g.Pkg.Func("init"); init != nil {
			m.CallFunction(init, nil, nil)
		}
	}
	if g.Pkg != nil && !m.P.InModulePkg(g.Pkg.Pkg.Path()) {
		// external globals: a few are modelled
		switch g.String() {
		case "os.Stdin", "os.Stdout", "os.Stderr":
			*slot = m.NewPtr(Struct{}, g.Name())
		default:
			if core.IsErrorType(elem) {
				*slot = Iface{T: elem, V: Lit(g.String())}
			}
		}
	}
	return slot
}

// ---- calls -----------------------------------------------------------------

// Call invokes a function value.
func (m *Machine) Call(fv Value, args []Value) Value {
	switch f := fv.(type) {
	case *ssa.Function:
		if f == nil {
			panic(m.fail("call of nil function"))
		}
		return m.CallFunction(f, args, nil)
	case *Closure:
		if f == nil {
			panic(m.fail("call of nil function"))
		}
		return m.CallFunction(f.Fn, args, f.Env)
	case BoundMethod:
		return m.CallFunction(f.Fn, append([]Value{f.Recv}, args...), nil)
	case *ssa.Builtin:
		return m.builtin(f, args)
	case GoFunc:
		return f(m, args)
	}
	panic(m.undecided("call of unsupported function value %T", fv))
}

// GoFunc is a function value implemented by the analyser (used for stubs such as a warner).
type GoFunc func(m *Machine, args []Value) Value

func (m *Machine) CallFunction(fn *ssa.Function, args []Value, env []Value) Value {
	if m.OnCall != nil {
		if v, ok := m.OnCall(fn, args); ok {
			return v
		}
	}
	if fn.Synthetic == "package initializer" {
		// only the module's own package-level variables are initialised; library state is summarised
		if !m.P.InModule(fn) || fn.Pkg == nil {
			return nil
		}
		if m.initStarted[fn.Pkg] {
			return nil
		}
		if m.initStarted == nil {
			m.initStarted = map[*ssa.Package]bool{}
		}
		m.initStarted[fn.Pkg] = true
		m.initDone[fn.Pkg] = true
	}
	if !m.P.InModule(fn) || fn.Blocks == nil {
		return m.external(fn, args)
	}
	if len(m.stack) > 400 {
		panic(&RunError{Kind: "budget", Msg: "call depth exceeded (unbounded recursion?)", Pos: m.curPos(), Stack: m.stackTrace()})
	}
	fr := &frame{fn: fn, env: map[ssa.Value]Value{}, fvs: env, pos: fn.Pos()}
	for i, p := range fn.Params {
		fr.env[p] = args[i]
	}
	for i, fv := range fn.FreeVars {
		fr.env[fv] = env[i]
	}
	m.stack = append(m.stack, fr)
	defer func() { m.stack = m.stack[:len(m.stack)-1] }()
	return m.run(fr)
}

func (m *Machine) run(fr *frame) (result Value) {
	// a Go panic of kind "panic" unwinds through deferred calls; we do not model recover (none in module)
	defer func() {
		if r := recover(); r != nil {
			if re, ok := r.(*RunError); ok && re.Kind == "panic" {
				// run deferred functions, then continue unwinding
				for i := len(fr.defers) - 1; i >= 0; i-- {
					fr.defers[i]()
				}
				fr.defers = nil
			}
			panic(r)
		}
	}()
	fr.block = fr.fn.Blocks[0]
	for {
		var next *ssa.BasicBlock
		for _, in := range fr.block.Instrs {
			m.Steps++
			if m.Steps > m.MaxSteps {
				panic(&RunError{Kind: "budget", Msg: "step budget exceeded", Pos: m.curPos(), Stack: m.stackTrace()})
			}
			if p := in.Pos(); p.IsValid() {
				fr.pos = p
			}
			switch x := in.(type) {
			case *ssa.Jump:
				next = fr.block.Succs[0]
			case *ssa.If:
				c := m.get(fr, x.Cond)
				b, ok := c.(bool)
				if !ok {
					panic(m.undecided("branch on a value the analysis cannot decide (%T %v)", c, c))
				}
				if b {
					next = fr.block.Succs[0]
				} else {
					next = fr.block.Succs[1]
				}
			case *ssa.Return:
				switch len(x.Results) {
				case 0:
					result = nil
				case 1:
					result = m.get(fr, x.Results[0])
				default:
					t := make(Tuple, len(x.Results))
					for i, r := range x.Results {
						t[i] = m.get(fr, r)
					}
					result = t
				}
				for i := len(fr.defers) - 1; i >= 0; i-- {
					fr.defers[i]()
				}
				fr.defers = nil
				return result
			case *ssa.Panic:
				v := m.get(fr, x.X)
				msg := "panic"
				if i, ok := v.(Iface); ok {
					if s, ok := i.V.(Str); ok {
						msg = "panic: " + s.Debug()
					}
				}
				panic(m.fail("%s", msg))
			case *ssa.RunDefers:
				for i := len(fr.defers) - 1; i >= 0; i-- {
					fr.defers[i]()
				}
				fr.defers = nil
			default:
				m.exec(fr, in)
			}
			if next != nil {
				break
			}
		}
		if next == nil {
			panic(m.undecided("block without terminator"))
		}
		fr.prev, fr.block = fr.block, next
	}
}

func (m *Machine) get(fr *frame, v ssa.Value) Value {
	switch x := v.(type) {
	case *ssa.Const:
		return m.constVal(x)
	case *ssa.Function:
		return x
	case *ssa.Builtin:
		return x
	case *ssa.Global:
		return Ptr{P: m.global(x)}
	}
	if r, ok := fr.env[v]; ok {
		return r
	}
	panic(m.undecided("value %s (%T) has no binding", v.Name(), v))
}

func (m *Machine) constVal(c *ssa.Const) Value {
	if c.Value == nil {
		return m.Zero(c.Type())
	}
	t := c.Type().Underlying()
	if b, ok := t.(*types.Basic); ok {
		switch {
		case b.Info()&types.IsBoolean != 0:
			return constant.BoolVal(c.Value)
		case b.Info()&types.IsString != 0:
			return Lit(constant.StringVal(c.Value))
		case b.Info()&types.IsInteger != 0:
			if i, ok := constant.Int64Val(constant.ToInt(c.Value)); ok {
				return i
			}
			if u, ok := constant.Uint64Val(constant.ToInt(c.Value)); ok {
				return int64(u)
			}
		case b.Info()&types.IsFloat != 0:
			f, _ := constant.Float64Val(constant.ToFloat(c.Value))
			return f
		}
	}
	if _, ok := t.(*types.Interface); ok {
		// typed constant converted to interface is never produced by ssa; nil handled above
	}
	panic(m.undecided("unsupported constant %s", c))
}

// assign stores v into the slot, preserving addresses of struct fields /
// array elements that already exist in the slot (Go assignment semantics).
func assign(dst *Value, v Value) {
	switch nv := v.(type) {
	case Struct:
		if old, ok := (*dst).(Struct); ok && len(old.F) == len(nv.F) {
			for i := range nv.F {
				assign(&old.F[i], nv.F[i])
			}
			return
		}
	case Array:
		if old, ok := (*dst).(Array); ok && len(old.E) == len(nv.E) {
			for i := range nv.E {
				assign(&old.E[i], nv.E[i])
			}
			return
		}
	}
	*dst = Copy(v)
}

func (m *Machine) deref(p Value) *Value {
	pp, ok := p.(Ptr)
	if !ok {
		if u, isU := p.(Unknown); isU {
			panic(m.undecided("dereference of unknown value (%s)", u.Why))
		}
		panic(m.undecided("dereference of non-pointer %T", p))
	}
	if pp.P == nil {
		panic(m.fail("nil pointer dereference"))
	}
	return pp.P
}

func (m *Machine) exec(fr *frame, in ssa.Instruction) {
	switch x := in.(type) {
	case *ssa.DebugRef:
	case *ssa.Alloc:
		fr.env[x] = m.NewPtr(m.Zero(x.Type().Underlying().(*types.Pointer).Elem()), x.Comment)
	case *ssa.UnOp:
		fr.env[x] = m.unop(fr, x)
	case *ssa.BinOp:
		fr.env[x] = m.binop(x.Op, m.get(fr, x.X), m.get(fr, x.Y), x.X.Type())
	case *ssa.Store:
		assign(m.deref(m.get(fr, x.Addr)), m.get(fr, x.Val))
	case *ssa.FieldAddr:
		slot := m.deref(m.get(fr, x.X))
		s, ok := (*slot).(Struct)
		if !ok {
			panic(m.undecided("FieldAddr on %T", *slot))
		}
		fr.env[x] = Ptr{P: &s.F[x.Field]}
	case *ssa.Field:
		s, ok := m.get(fr, x.X).(Struct)
		if !ok {
			panic(m.undecided("Field on %T", m.get(fr, x.X)))
		}
		fr.env[x] = Copy(s.F[x.Field])
	case *ssa.IndexAddr:
		base := m.get(fr, x.X)
		idx := m.intOf(m.get(fr, x.Index))
		switch b := base.(type) {
		case Slice:
			if idx < 0 || idx >= b.Len() {
				panic(m.fail("index out of range [%d] with length %d", idx, b.Len()))
			}
			fr.env[x] = Ptr{P: b.At(idx)}
		case Bytes:
			// &b[i] on the []byte view of an abstract string: decidable inside its literal prefix
			v := m.strIndex(b.S, int64(idx))
			slot := new(Value)
			*slot = v
			fr.env[x] = Ptr{P: slot}
		case Ptr:
			arr, ok := (*m.deref(b)).(Array)
			if !ok {
				panic(m.undecided("IndexAddr on pointer to %T", *b.P))
			}
			if idx < 0 || idx >= len(arr.E) {
				panic(m.fail("index out of range [%d] with length %d", idx, len(arr.E)))
			}
			fr.env[x] = Ptr{P: &arr.E[idx]}
		default:
			panic(m.undecided("IndexAddr on %T", base))
		}
	case *ssa.Index:
		base := m.get(fr, x.X)
		switch b := base.(type) {
		case Array:
			idx := m.intOf(m.get(fr, x.Index))
			if idx < 0 || idx >= len(b.E) {
				panic(m.fail("index out of range [%d] with length %d", idx, len(b.E)))
			}
			fr.env[x] = Copy(b.E[idx])
		case Str:
			fr.env[x] = m.strIndex(b, m.get(fr, x.Index))
		default:
			panic(m.undecided("Index on %T", base))
		}
	case *ssa.Lookup:
		base := m.get(fr, x.X)
		switch b := base.(type) {
		case *Map:
			v, ok := m.MapLookup(b, m.get(fr, x.Index))
			if !ok {
				v = m.Zero(x.X.Type().Underlying().(*types.Map).Elem())
			}
			if x.CommaOk {
				fr.env[x] = Tuple{Copy(v), ok}
			} else {
				fr.env[x] = Copy(v)
			}
		case Str:
			fr.env[x] = m.strIndex(b, m.get(fr, x.Index))
		default:
			panic(m.undecided("Lookup on %T", base))
		}
	case *ssa.MapUpdate:
		mp, ok := m.get(fr, x.Map).(*Map)
		if !ok {
			panic(m.undecided("MapUpdate on %T", m.get(fr, x.Map)))
		}
		m.MapUpdate(mp, m.get(fr, x.Key), Copy(m.get(fr, x.Value)))
	case *ssa.MakeMap:
		fr.env[x] = &Map{Obj: m.newObj("map")}
	case *ssa.MakeSlice:
		n := m.intOf(m.get(fr, x.Len))
		c := m.intOf(m.get(fr, x.Cap))
		if c < n {
			c = n
		}
		el := x.Type().Underlying().(*types.Slice).Elem()
		back := make([]Value, c)
		for i := range back {
			back[i] = m.Zero(el)
		}
		fr.env[x] = Slice{Back: &back, Lo: 0, Hi: n, Cap: c, ElemZero: func() Value { return m.Zero(el) }}
	case *ssa.Slice:
		fr.env[x] = m.sliceOp(fr, x)
	case *ssa.MakeInterface:
		fr.env[x] = Iface{T: x.X.Type(), V: Copy(m.get(fr, x.X))}
	case *ssa.ChangeInterface:
		fr.env[x] = m.get(fr, x.X)
	case *ssa.ChangeType:
		fr.env[x] = m.get(fr, x.X)
	case *ssa.Convert:
		fr.env[x] = m.convert(m.get(fr, x.X), x.X.Type(), x.Type())
	case *ssa.MakeClosure:
		env := make([]Value, len(x.Bindings))
		for i, b := range x.Bindings {
			env[i] = m.get(fr, b)
		}
		fr.env[x] = &Closure{Fn: x.Fn.(*ssa.Function), Env: env, Obj: m.newObj("closure")}
	case *ssa.Phi:
		for i, pred := range x.Block().Preds {
			if pred == fr.prev {
				fr.env[x] = m.get(fr, x.Edges[i])
				return
			}
		}
		panic(m.undecided("phi without matching predecessor"))
	case *ssa.Extract:
		t, ok := m.get(fr, x.Tuple).(Tuple)
		if !ok {
			if u, isU := m.get(fr, x.Tuple).(Unknown); isU {
				fr.env[x] = u
				return
			}
			panic(m.undecided("Extract from %T", m.get(fr, x.Tuple)))
		}
		fr.env[x] = t[x.Index]
	case *ssa.TypeAssert:
		fr.env[x] = m.typeAssert(fr, x)
	case *ssa.Range:
		fr.env[x] = m.rangeIter(m.get(fr, x.X))
	case *ssa.Next:
		it := m.get(fr, x.Iter).(*iter)
		fr.env[x] = it.next(m, x.IsString)
	case *ssa.Call:
		fr.env[x] = m.callInstr(fr, &x.Call)
	case *ssa.Defer:
		fn, args := m.prepareCall(fr, &x.Call)
		fr.defers = append(fr.defers, func() { fn(args) })
	case *ssa.Go:
		panic(m.undecided("goroutines are not modelled"))
	case *ssa.Send, *ssa.Select:
		panic(m.undecided("channels are not modelled"))
	default:
		panic(m.undecided("unsupported instruction %T", in))
	}
}

func (m *Machine) intOf(v Value) int {
	switch x := v.(type) {
	case int64:
		return int(x)
	case nil:
		return 0
	}
	panic(m.undecided("an integer the analysis needs concretely is symbolic (%T %v)", v, v))
}

func (m *Machine) prepareCall(fr *frame, c *ssa.CallCommon) (func([]Value) Value, []Value) {
	args := make([]Value, 0, len(c.Args)+1)
	if c.IsInvoke() {
		recv := m.get(fr, c.Value)
		iv, ok := recv.(Iface)
		if !ok {
			panic(m.undecided("invoke on %T", recv))
		}
		if iv.T == nil {
			panic(m.fail("method call on nil interface (%s)", c.Method.Name()))
		}
		for _, a := range c.Args {
			args = append(args, m.get(fr, a))
		}
		// analyser-implemented interface values (e.g. a stub loader)
		if g, ok := iv.V.(*GoObject); ok {
			meth := g.Methods[c.Method.Name()]
			if meth == nil {
				panic(m.undecided("stub object has no method %s", c.Method.Name()))
			}
			return func(a []Value) Value { return meth(m, a) }, args
		}
		fn := m.lookupMethod(iv.T, c.Method)
		if fn == nil {
			panic(m.undecided("no method %s on dynamic type %s", c.Method.Name(), iv.T))
		}
		full := append([]Value{iv.V}, args...)
		return func(a []Value) Value { return m.CallFunction(fn, a, nil) }, full
	}
	fv := m.get(fr, c.Value)
	for _, a := range c.Args {
		args = append(args, m.get(fr, a))
	}
	return func(a []Value) Value { return m.Call(fv, a) }, args
}

// GoObject is an analyser-implemented object usable behind an interface.
type GoObject struct {
	Name    string
	Methods map[string]func(m *Machine, args []Value) Value
}

func (m *Machine) lookupMethod(t types.Type, meth *types.Func) *ssa.Function {
	ms := m.P.SSA.MethodSets.MethodSet(t)
	sel := ms.Lookup(meth.Pkg(), meth.Name())
	if sel == nil {
		return nil
	}
	return m.P.SSA.MethodValue(sel)
}

func (m *Machine) callInstr(fr *frame, c *ssa.CallCommon) Value {
	fn, args := m.prepareCall(fr, c)
	return fn(args)
}

func (m *Machine) typeAssert(fr *frame, x *ssa.TypeAssert) Value {
	v := m.get(fr, x.X)
	iv, ok := v.(Iface)
	if !ok {
		if u, isU := v.(Unknown); isU {
			panic(m.undecided("type assertion on unknown value (%s)", u.Why))
		}
		panic(m.undecided("type assertion on %T", v))
	}
	okAssert := false
	var res Value
	if iv.T != nil {
		if _, isIface := x.AssertedType.Underlying().(*types.Interface); isIface {
			okAssert = types.Implements(iv.T, x.AssertedType.Underlying().(*types.Interface))
			res = iv
		} else {
			okAssert = types.Identical(iv.T, x.AssertedType)
			res = iv.V
		}
	}
	if x.CommaOk {
		if !okAssert {
			res = m.Zero(x.AssertedType)
		}
		return Tuple{res, okAssert}
	}
	if !okAssert {
		panic(m.fail("interface conversion: interface is %v, not %s", iv.T, x.AssertedType))
	}
	return res
}

func (m *Machine) unop(fr *frame, x *ssa.UnOp) Value {
	v := m.get(fr, x.X)
	switch x.Op {
	case token.MUL:
		return Copy(*m.deref(v))
	case token.NOT:
		b, ok := v.(bool)
		if !ok {
			panic(m.undecided("negation of undecided value"))
		}
		return !b
	case token.SUB:
		switch n := v.(type) {
		case int64:
			return -n
		case float64:
			return -n
		}
	case token.XOR:
		if n, ok := v.(int64); ok {
			return ^n
		}
	}
	panic(m.undecided("unsupported unary %s on %T", x.Op, v))
}

func (m *Machine) sliceOp(fr *frame, x *ssa.Slice) Value {
	base := m.get(fr, x.X)
	var lo, hi Value
	if x.Low != nil {
		lo = m.get(fr, x.Low)
	}
	if x.High != nil {
		hi = m.get(fr, x.High)
	}
	switch b := base.(type) {
	case Str:
		return m.strSlice(b, lo, hi)
	case Slice:
		l, h := 0, b.Len()
		if lo != nil {
			l = m.intOf(lo)
		}
		if hi != nil {
			h = m.intOf(hi)
		}
		if l < 0 || h < l || h > b.Cap {
			panic(m.fail("slice bounds out of range [%d:%d] with capacity %d", l, h, b.Cap))
		}
		if b.Back == nil {
			return b
		}
		return Slice{Back: b.Back, Lo: b.Lo + l, Hi: b.Lo + h, Cap: b.Cap - l, ElemZero: b.ElemZero}
	case Ptr:
		arr, ok := (*m.deref(b)).(Array)
		if !ok {
			panic(m.undecided("slice of pointer to %T", *b.P))
		}
		l, h := 0, len(arr.E)
		if lo != nil {
			l = m.intOf(lo)
		}
		if hi != nil {
			h = m.intOf(hi)
		}
		back := arr.E
		el := x.Type().Underlying().(*types.Slice).Elem()
		return Slice{Back: &back, Lo: l, Hi: h, Cap: len(arr.E) - l, ElemZero: func() Value { return m.Zero(el) }}
	}
	panic(m.undecided("slice of %T", base))
}

// ---- iteration --------------------------------------------------------------

type iter struct {
	keys []Value
	vals []Value
	i    int
	str  *Str
}

func (m *Machine) rangeIter(v Value) Value {
	switch x := v.(type) {
	case *Map:
		it := &iter{}
		if x != nil && !x.Nil {
			it.keys = append(it.keys, x.Keys...)
			it.vals = append(it.vals, x.Vals...)
			if len(it.keys) > 1 {
				m.Assume("map iteration order is the abstract map's insertion order (order-independence is C12's claim, decided separately)")
			}
		}
		return it
	case Str:
		c, ok := x.Concrete()
		if !ok {
			panic(m.undecided("range over a symbolic string"))
		}
		it := &iter{}
		for i, r := range c {
			it.keys = append(it.keys, int64(i))
			it.vals = append(it.vals, int64(r))
		}
		return it
	}
	panic(m.undecided("range over %T", v))
}

func (it *iter) next(m *Machine, isString bool) Value {
	if it.i >= len(it.keys) {
		return Tuple{false, nil, nil}
	}
	k, v := it.keys[it.i], it.vals[it.i]
	it.i++
	return Tuple{true, k, Copy(v)}
}

// ---- helpers for building inputs --------------------------------------------

// NamedType finds a named type of a module package ("pkg/generator", "stringValidator").
func (m *Machine) NamedType(pkgRel, name string) types.Type {
	pk := m.P.Pkg(pkgRel)
	if pk == nil {
		panic(&RunError{Kind: "undecided", Msg: "package " + pkgRel + " not found"})
	}
	o := pk.Types.Scope().Lookup(name)
	if o == nil {
		panic(&RunError{Kind: "undecided", Msg: "type " + pkgRel + "." + name + " not found in the current tree"})
	}
	return o.Type()
}

// NewStruct builds a struct value of type t with the given fields set; unknown
// field names are an anchor failure.
func (m *Machine) NewStruct(t types.Type, fields map[string]Value) Struct {
	st, ok := t.Underlying().(*types.Struct)
	if !ok {
		panic(&RunError{Kind: "undecided", Msg: fmt.Sprintf("%s is not a struct", t)})
	}
	s := m.Zero(t).(Struct)
	seen := 0
	for i := 0; i < st.NumFields(); i++ {
		if v, ok := fields[st.Field(i).Name()]; ok {
			s.F[i] = v
			seen++
		}
	}
	if seen != len(fields) {
		var missing []string
		for k := range fields {
			found := false
			for i := 0; i < st.NumFields(); i++ {
				if st.Field(i).Name() == k {
					found = true
				}
			}
			if !found {
				missing = append(missing, k)
			}
		}
		sort.Strings(missing)
		panic(&RunError{Kind: "undecided", Msg: fmt.Sprintf("struct %s no longer has field(s) %s", t, strings.Join(missing, ", "))})
	}
	return s
}

// FieldOf reads a field of a struct value by name.
func (m *Machine) FieldOf(t types.Type, s Value, name string) Value {
	st := t.Underlying().(*types.Struct)
	sv, ok := s.(Struct)
	if !ok {
		panic(&RunError{Kind: "undecided", Msg: fmt.Sprintf("FieldOf on %T", s)})
	}
	for i := 0; i < st.NumFields(); i++ {
		if st.Field(i).Name() == name {
			return sv.F[i]
		}
	}
	panic(&RunError{Kind: "undecided", Msg: fmt.Sprintf("struct %s has no field %s", t, name)})
}

// MethodOf finds a method (by name) of a named type or its pointer.
func (m *Machine) MethodOf(t types.Type, name string) *ssa.Function {
	for _, tt := range []types.Type{t, types.NewPointer(t)} {
		ms := m.P.SSA.MethodSets.MethodSet(tt)
		for i := 0; i < ms.Len(); i++ {
			if ms.At(i).Obj().Name() == name {
				return m.P.SSA.MethodValue(ms.At(i))
			}
		}
	}
	return nil
}

// NewSliceOf builds a slice value from elements.
func (m *Machine) NewSliceOf(elem types.Type, vs ...Value) Slice {
	back := make([]Value, len(vs))
	copy(back, vs)
	return Slice{Back: &back, Lo: 0, Hi: len(vs), Cap: len(vs), ElemZero: func() Value { return m.Zero(elem) }}
}

// SliceValues lists the elements of a slice value.
func SliceValues(v Value) []Value {
	s, ok := v.(Slice)
	if !ok || s.Back == nil {
		return nil
	}
	out := make([]Value, s.Len())
	for i := range out {
		out[i] = *s.At(i)
	}
	return out
}

// Run executes entry under the decision script and captures a RunError.
func (m *Machine) Run(script []int, entry func()) (err *RunError) {
	m.script = script
	m.made, m.arity = nil, nil
	defer func() {
		if r := recover(); r != nil {
			if re, ok := r.(*RunError); ok {
				err = re
				return
			}
			// an internal failure of the analyser is an undecided run, never a pass
			err = &RunError{Kind: "undecided", Msg: fmt.Sprintf("analyser failure: %v", r), Pos: m.curPos(), Stack: m.stackTrace()}
		}
	}()
	entry()
	return nil
}

// Made returns the decisions taken and their arities (for the exploration driver).
func (m *Machine) Made() ([]int, []int) { return m.made, m.arity }
