// Package gen builds abstract inputs for the generator's own functions and
// runs them under the abstract interpreter (the entry points of Engine A).
package gen

import (
	"fmt"
	"go/types"

	"golang.org/x/tools/go/ssa"

	"verif/checker/internal/absint"
	"verif/checker/internal/core"
)

type V = absint.Value

// G wraps one machine with lookups into the generator's packages.
type G struct {
	M      *absint.Machine
	P      *core.Program
	Loader V        // optional schemas.Loader stub (see StubLoader)
	Loads  []string // loader calls made: "parent -> uri"
}

func New(m *absint.Machine) *G { return &G{M: m, P: m.P} }

func (g *G) fn(name string) *ssa.Function {
	f := g.P.Func(name)
	if f == nil {
		panic(&absint.RunError{Kind: "undecided", Msg: "anchor function " + name + " not found in the current tree"})
	}
	return f
}

func (g *G) Type(pkgRel, name string) types.Type { return g.M.NamedType(pkgRel, name) }

// NewEmitter calls codegen.NewEmitter(80).
func (g *G) NewEmitter() V {
	return g.M.CallFunction(g.fn("pkg/codegen.NewEmitter"), []V{int64(80)}, nil)
}

// Text returns the emitter's accumulated text.
func (g *G) Text(out V) absint.Str {
	r := g.M.CallFunction(g.fn("(*pkg/codegen.Emitter).String"), []V{out}, nil)
	return r.(absint.Str)
}

// Indent returns the emitter's current indentation (must be 0 after a balanced emission).
func (g *G) Indent(out V) V {
	p := out.(absint.Ptr)
	return g.M.FieldOf(g.Type("pkg/codegen", "Emitter"), *p.P, "indent")
}

// Obj allocates a struct of a generator type and returns a pointer to it.
func (g *G) Obj(pkgRel, name string, fields map[string]V) V {
	t := g.Type(pkgRel, name)
	return g.M.NewPtr(g.M.NewStruct(t, fields), name)
}

// Val builds a struct value of a generator type.
func (g *G) Val(pkgRel, name string, fields map[string]V) V {
	return g.M.NewStruct(g.Type(pkgRel, name), fields)
}

// AsIface wraps a pointer-to-struct of type *T as an interface value.
func (g *G) PtrIface(pkgRel, name string, ptr V) V {
	return absint.Iface{T: types.NewPointer(g.Type(pkgRel, name)), V: ptr}
}

// ValIface wraps a struct value of type T as an interface value.
func (g *G) ValIface(pkgRel, name string, v V) V {
	return absint.Iface{T: g.Type(pkgRel, name), V: v}
}

// Method calls method `name` of type T (value or pointer receiver) with the receiver first.
func (g *G) Method(pkgRel, typeName, name string, recv V, args ...V) V {
	t := g.Type(pkgRel, typeName)
	f := g.M.MethodOf(t, name)
	if f == nil {
		panic(&absint.RunError{Kind: "undecided", Msg: fmt.Sprintf("method %s.%s.%s not found in the current tree", pkgRel, typeName, name)})
	}
	return g.M.CallFunction(f, append([]V{recv}, args...), nil)
}

// Atoms
func (g *G) Raw(name string, nonEmpty bool) absint.Str {
	a := g.M.NewAtom("RawStr", name)
	a.NonEmpty = nonEmpty
	return absint.HoleStr(a)
}

func (g *G) Ident(name string) absint.Str {
	a := g.M.NewAtom("Ident", name)
	a.NonEmpty = true
	return absint.HoleStr(a)
}

func (g *G) PosInt(name string) absint.Num {
	return absint.Num{A: g.M.NewAtom("PosInt", name)}
}

func (g *G) Float(name string) absint.Num {
	return absint.Num{A: g.M.NewAtom("Float", name), IsFloat: true}
}

func (g *G) FloatPtr(name string) V {
	return g.M.NewPtr(g.Float(name), name)
}

// AnyPtr builds a *any holding v of dynamic type t.
func (g *G) AnyPtr(t types.Type, v V, name string) V {
	return g.M.NewPtr(absint.Iface{T: t, V: v}, name)
}

// GenerateValidator runs (*T).generate(out, format) and returns the emitted text.
func (g *G) GenerateValidator(typeName string, v V, format string) (absint.Str, V) {
	out := g.NewEmitter()
	g.Method("pkg/generator", typeName, "generate", v, out, absint.Lit(format))
	return g.Text(out), g.Indent(out)
}
