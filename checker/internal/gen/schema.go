package gen

import (
	"go/types"

	"verif/checker/internal/absint"
)

var (
	tString  = types.Typ[types.String]
	tFloat64 = types.Typ[types.Float64]
	tBool    = types.Typ[types.Bool]
	tInt     = types.Typ[types.Int]
	tAny     = types.NewInterfaceType(nil, nil).Complete()
)

// TAny etc. expose the basic types used for dynamic values.
func TString() types.Type  { return tString }
func TFloat64() types.Type { return tFloat64 }
func TBool() types.Type    { return tBool }
func TInt() types.Type     { return tInt }
func TAnySlice() types.Type {
	return types.NewSlice(tAny)
}
func TAnyMap() types.Type { return types.NewMap(tString, tAny) }

// Node builds a *schemas.Type with the given fields (by Go field name).
func (g *G) Node(fields map[string]V) V {
	return g.Obj("pkg/schemas", "Type", fields)
}

// Strs builds a []string (or TypeList) value.
func (g *G) Strs(ss ...absint.Str) V {
	vs := make([]V, len(ss))
	for i, s := range ss {
		vs[i] = s
	}
	return g.M.NewSliceOf(tString, vs...)
}

// Types builds a schemas.TypeList from concrete type names.
func (g *G) Types(names ...string) V {
	ss := make([]absint.Str, len(names))
	for i, n := range names {
		ss[i] = absint.Lit(n)
	}
	return g.Strs(ss...)
}

// Map builds a map value with the given keys/values in order.
func (g *G) Map(keys []V, vals []V) V {
	m := &absint.Map{}
	for i := range keys {
		g.M.MapUpdate(m, keys[i], vals[i])
	}
	return m
}

// Nodes builds a []*schemas.Type.
func (g *G) Nodes(ns ...V) V {
	return g.M.NewSliceOf(types.NewPointer(g.Type("pkg/schemas", "Type")), ns...)
}

// Anys builds a []interface{} from interface values.
func (g *G) Anys(vs ...V) V { return g.M.NewSliceOf(tAny, vs...) }

// Any wraps a value as interface{} with dynamic type t.
func Any(t types.Type, v V) V { return absint.Iface{T: t, V: v} }

// Schema builds a *schemas.Schema whose root object is root (a *schemas.Type pointer).
func (g *G) Schema(root V, id absint.Str, title absint.Str, defs V) V {
	fields := map[string]V{"ID": id}
	_ = title // the title lives on the root type (Schema embeds *ObjectAsType)
	if root != nil {
		fields["ObjectAsType"] = root // *ObjectAsType has the same representation as *Type
	}
	if defs != nil {
		fields["Definitions"] = defs
	}
	return g.Obj("pkg/schemas", "Schema", fields)
}

// Config describes the generator options of one abstract run.
type Config struct {
	ExtraImports        bool
	OnlyModels          bool
	MinSizedInts        bool
	StructNameFromTitle bool
	Tags                []string
	Capitalizations     []string
	Package             string
	Output              string
}

func DefaultConfig() Config {
	return Config{ExtraImports: true, Tags: []string{"json", "yaml", "mapstructure"}, Package: "example.com/pkg/model", Output: "out.go"}
}

// NewGenerator runs generator.New on an abstract Config and returns the *Generator.
func (g *G) NewGenerator(c Config) V {
	strs := func(xs []string) V {
		ss := make([]absint.Str, len(xs))
		for i, x := range xs {
			ss[i] = absint.Lit(x)
		}
		if len(ss) == 0 {
			return g.M.Zero(types.NewSlice(tString))
		}
		return g.Strs(ss...)
	}
	warner := absint.GoFunc(func(m *absint.Machine, args []V) V {
		if s, ok := args[0].(absint.Str); ok {
			m.Warnings = append(m.Warnings, s)
		}
		return nil
	})
	cfg := g.Val("pkg/generator", "Config", map[string]V{
		"ExtraImports":        c.ExtraImports,
		"OnlyModels":          c.OnlyModels,
		"MinSizedInts":        c.MinSizedInts,
		"StructNameFromTitle": c.StructNameFromTitle,
		"Tags":                strs(c.Tags),
		"Capitalizations":     strs(c.Capitalizations),
		"DefaultPackageName":  absint.Lit(c.Package),
		"DefaultOutputName":   absint.Lit(c.Output),
		"Warner":              warner,
		"YAMLExtensions":      strs([]string{".yml", ".yaml"}),
	})
	r := g.M.CallFunction(g.fn("pkg/generator.New"), []V{cfg}, nil)
	t := r.(absint.Tuple)
	if !absint.IsNilValue(t[1]) {
		panic(&absint.RunError{Kind: "undecided", Msg: "generator.New returned an error"})
	}
	return t[0]
}

// AddFile runs (*Generator).addFile(fileName, schema) and returns the error value.
func (g *G) AddFile(gen V, fileName string, schema V) V {
	return g.M.CallFunction(g.fn("(*pkg/generator.Generator).addFile"), []V{gen, absint.Lit(fileName), schema}, nil)
}

// Sources runs (*Generator).Sources() and returns file name -> text.
func (g *G) Sources(gen V) map[string]absint.Str {
	r := g.M.CallFunction(g.fn("(*pkg/generator.Generator).Sources"), []V{gen}, nil)
	out := map[string]absint.Str{}
	mp, _ := r.(*absint.Map)
	if mp == nil {
		return out
	}
	for i, k := range mp.Keys {
		name, _ := k.(absint.Str).Concrete()
		switch v := mp.Vals[i].(type) {
		case absint.Bytes:
			out[name] = v.S
		case absint.Str:
			out[name] = v
		}
	}
	return out
}
