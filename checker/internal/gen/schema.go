package gen

import (
	"go/types"
	"path/filepath"
	"strings"

	"verif/checker/internal/absint"
)

var (
	tString  = types.Typ[types.String]
	tFloat64 = types.Typ[types.Float64]
	tBool    = types.Typ[types.Bool]
	tInt     = types.Typ[types.Int]
	tAny     = types.NewInterfaceType(nil, nil).Complete()
)

// TAny etc. expose the basic types used for dynamic values.
func TString() types.Type  { return tString }
func TFloat64() types.Type { return tFloat64 }
func TBool() types.Type    { return tBool }
func TInt() types.Type     { return tInt }
func TAnySlice() types.Type {
	return types.NewSlice(tAny)
}
func TAnyMap() types.Type { return types.NewMap(tString, tAny) }

// Node builds a *schemas.Type with the given fields (by Go field name).
func (g *G) Node(fields map[string]V) V {
	return g.Obj("pkg/schemas", "Type", fields)
}

// Strs builds a []string (or TypeList) value.
func (g *G) Strs(ss ...absint.Str) V {
	vs := make([]V, len(ss))
	for i, s := range ss {
		vs[i] = s
	}
	return g.M.NewSliceOf(tString, vs...)
}

// Types builds a schemas.TypeList from concrete type names.
func (g *G) Types(names ...string) V {
	ss := make([]absint.Str, len(names))
	for i, n := range names {
		ss[i] = absint.Lit(n)
	}
	return g.Strs(ss...)
}

// Map builds a map value with the given keys/values in order.
func (g *G) Map(keys []V, vals []V) V {
	m := &absint.Map{}
	for i := range keys {
		g.M.MapUpdate(m, keys[i], vals[i])
	}
	return m
}

// Nodes builds a []*schemas.Type.
func (g *G) Nodes(ns ...V) V {
	return g.M.NewSliceOf(types.NewPointer(g.Type("pkg/schemas", "Type")), ns...)
}

// Anys builds a []interface{} from interface values.
func (g *G) Anys(vs ...V) V { return g.M.NewSliceOf(tAny, vs...) }

// Any wraps a value as interface{} with dynamic type t.
func Any(t types.Type, v V) V { return absint.Iface{T: t, V: v} }

// Schema builds a *schemas.Schema whose root object is root (a *schemas.Type pointer).
func (g *G) Schema(root V, id absint.Str, title absint.Str, defs V) V {
	fields := map[string]V{"ID": id}
	_ = title // the title lives on the root type (Schema embeds *ObjectAsType)
	if root != nil {
		fields["ObjectAsType"] = root // *ObjectAsType has the same representation as *Type
	}
	if defs != nil {
		fields["Definitions"] = defs
	}
	return g.Obj("pkg/schemas", "Schema", fields)
}

// Config describes the generator options of one abstract run.
type Config struct {
	ExtraImports        bool
	OnlyModels          bool
	MinSizedInts        bool
	StructNameFromTitle bool
	Tags                []string
	Capitalizations     []string
	Package             string
	Output              string
	Mappings            []Mapping // per-schema-id package / output / root type
}

// Mapping is one generator.SchemaMapping.
type Mapping struct {
	ID, Package, Output, RootType string
}

func DefaultConfig() Config {
	return Config{ExtraImports: true, Tags: []string{"json", "yaml", "mapstructure"}, Package: "example.com/pkg/model", Output: "out.go"}
}

// NewGenerator runs generator.New on an abstract Config and returns the *Generator.
func (g *G) NewGenerator(c Config) V {
	strs := func(xs []string) V {
		ss := make([]absint.Str, len(xs))
		for i, x := range xs {
			ss[i] = absint.Lit(x)
		}
		if len(ss) == 0 {
			return g.M.Zero(types.NewSlice(tString))
		}
		return g.Strs(ss...)
	}
	warner := absint.GoFunc(func(m *absint.Machine, args []V) V {
		if s, ok := args[0].(absint.Str); ok {
			m.Warnings = append(m.Warnings, s)
		}
		return nil
	})
	var maps []V
	for _, mp := range c.Mappings {
		maps = append(maps, g.Val("pkg/generator", "SchemaMapping", map[string]V{
			"SchemaID": absint.Lit(mp.ID), "PackageName": absint.Lit(mp.Package), "OutputName": absint.Lit(mp.Output), "RootType": absint.Lit(mp.RootType)}))
	}
	mappings := g.M.Zero(types.NewSlice(g.Type("pkg/generator", "SchemaMapping")))
	if len(maps) > 0 {
		mappings = g.M.NewSliceOf(g.Type("pkg/generator", "SchemaMapping"), maps...)
	}
	var loader V = absint.Iface{}
	if g.Loader != nil {
		// the module's own CachedLoader in front of the in-memory loader, as NewDefaultCacheLoader does for files
		cl := g.M.CallFunction(g.fn("pkg/schemas.NewCachedLoader"), []V{g.Loader, &absint.Map{}}, nil)
		loader = absint.Iface{T: types.NewPointer(g.Type("pkg/schemas", "CachedLoader")), V: cl}
	}
	cfg := g.Val("pkg/generator", "Config", map[string]V{
		"SchemaMappings":      mappings,
		"Loader":              loader,
		"ExtraImports":        c.ExtraImports,
		"OnlyModels":          c.OnlyModels,
		"MinSizedInts":        c.MinSizedInts,
		"StructNameFromTitle": c.StructNameFromTitle,
		"Tags":                strs(c.Tags),
		"Capitalizations":     strs(c.Capitalizations),
		"DefaultPackageName":  absint.Lit(c.Package),
		"DefaultOutputName":   absint.Lit(c.Output),
		"Warner":              warner,
		"YAMLExtensions":      strs([]string{".yml", ".yaml"}),
	})
	r := g.M.CallFunction(g.fn("pkg/generator.New"), []V{cfg}, nil)
	t := r.(absint.Tuple)
	if !absint.IsNilValue(t[1]) {
		panic(&absint.RunError{Kind: "undecided", Msg: "generator.New returned an error"})
	}
	return t[0]
}

// AddFile runs (*Generator).addFile(fileName, schema) and returns the error value.
func (g *G) AddFile(gen V, fileName string, schema V) V {
	return g.M.CallFunction(g.fn("(*pkg/generator.Generator).addFile"), []V{gen, absint.Lit(fileName), schema}, nil)
}

// Sources runs (*Generator).Sources() and returns file name -> text.
func (g *G) Sources(gen V) map[string]absint.Str {
	r := g.M.CallFunction(g.fn("(*pkg/generator.Generator).Sources"), []V{gen}, nil)
	out := map[string]absint.Str{}
	mp, _ := r.(*absint.Map)
	if mp == nil {
		return out
	}
	for i, k := range mp.Keys {
		name, _ := k.(absint.Str).Concrete()
		switch v := mp.Vals[i].(type) {
		case absint.Bytes:
			out[name] = v.S
		case absint.Str:
			out[name] = v
		}
	}
	return out
}

var stubLoaderType = types.NewNamed(types.NewTypeName(0, nil, "abstractLoader", nil), types.NewStruct(nil, nil), nil)

// StubLoader installs an in-memory schemas.Loader: Load(uri, parent) returns the
// abstract schema registered under the concrete uri, or an error. Every call is recorded.
func (g *G) StubLoader(files map[string]V) {
	obj := &absint.GoObject{Name: "loader", Methods: map[string]func(m *absint.Machine, args []V) V{}}
	obj.Methods["Load"] = func(m *absint.Machine, args []V) V {
		uri, ok := args[0].(absint.Str).Concrete()
		if !ok {
			panic(&absint.RunError{Kind: "undecided", Msg: "loader called with a symbolic uri"})
		}
		parent, _ := args[1].(absint.Str).Concrete()
		g.Loads = append(g.Loads, parent+" -> "+uri)
		key := filepath.Join(filepath.Dir(parent), strings.TrimPrefix(uri, "./"))
		if s, ok := files[key]; ok {
			return absint.Tuple{s, absint.Iface{}}
		}
		return absint.Tuple{absint.Ptr{}, absint.Iface{T: stubLoaderType, V: absint.ErrVal{Msg: absint.Lit("cannot load " + uri)}}}
	}
	g.Loader = absint.Iface{T: stubLoaderType, V: obj}
}

// DoFileAbstract mimics Generator.DoFile for an in-memory file: loader.Load(name, "") then addFile.
func (g *G) DoFileAbstract(gen V, name string, schema V) V {
	return g.AddFile(gen, name, schema)
}
