package gen

import (
	"strings"

	"golang.org/x/tools/go/ssa"

	"verif/checker/internal/absint"
)

// InstallStubs replaces, for *symbolic* arguments only, the identifier
// synthesiser by its specification: a raw name atom maps to one synthesised
// identifier atom (the same one each time). What Identifierize does with every
// class of text is decided separately by A-IDENT (C14); concrete arguments are
// still interpreted through the real code.
func InstallStubs(m *absint.Machine) {
	idents := map[int]absint.Str{}
	prev := m.OnCall
	m.OnCall = func(fn *ssa.Function, args []absint.Value) (absint.Value, bool) {
		if prev != nil {
			if v, ok := prev(fn, args); ok {
				return v, true
			}
		}
		name := m.P.FuncName(fn)
		switch {
		case strings.HasSuffix(name, "text.Caser).Identifierize"):
			s, ok := args[1].(absint.Str)
			if !ok || !s.HasHole() {
				return nil, false
			}
			if len(s.P) == 1 && s.P[0].Hole != nil && len(s.P[0].Hole.Tr) == 0 && s.P[0].Hole.A.Kind == "RawStr" {
				a := s.P[0].Hole.A
				if r, ok := idents[a.ID]; ok {
					return r, true
				}
				na := m.NewAtom("Ident", "identifier of "+a.Name)
				na.NonEmpty = true
				na.Facts["of"] = a.Name
				r := absint.HoleStr(na)
				idents[a.ID] = r
				m.Assume("Identifierize maps a symbolic name to one synthesised identifier (its behaviour on every class of text is decided by A-IDENT under C14)")
				return r, true
			}
			if len(s.P) == 1 && s.P[0].Hole != nil && s.P[0].Hole.A.Kind == "Ident" {
				return s, true // already an identifier
			}
			panic(&absint.RunError{Kind: "undecided", Msg: "Identifierize on composite symbolic text " + s.Debug()})
		case name == "go/format.Source":
			return nil, false
		}
		return nil, false
	}
}
