package gen

import (
	"path/filepath"
	"strings"

	"golang.org/x/tools/go/ssa"

	"verif/checker/internal/absint"
)

// InstallStubs replaces, for *symbolic* arguments only, the identifier
// synthesiser by its specification: a raw name atom maps to one synthesised
// identifier atom (the same one each time). What Identifierize does with every
// class of text is decided separately by A-IDENT (C14); concrete arguments are
// still interpreted through the real code.
// IdentFor returns the identifier atom the stubbed synthesiser gives to a raw name atom (creating it on first use).
func IdentFor(m *absint.Machine, a *absint.Atom) *absint.Atom {
	if m.Scratch == nil {
		m.Scratch = map[string]any{}
	}
	tab, _ := m.Scratch["idents"].(map[int]*absint.Atom)
	if tab == nil {
		tab = map[int]*absint.Atom{}
		m.Scratch["idents"] = tab
	}
	if na, ok := tab[a.ID]; ok {
		return na
	}
	na := m.NewAtom("Ident", "identifier of "+a.Name)
	na.NonEmpty = true
	na.Facts["of"] = a.Name
	tab[a.ID] = na
	return na
}

func InstallStubs(m *absint.Machine) {
	prev := m.OnCall
	m.OnCall = func(fn *ssa.Function, args []absint.Value) (absint.Value, bool) {
		if prev != nil {
			if v, ok := prev(fn, args); ok {
				return v, true
			}
		}
		name := m.P.FuncName(fn)
		switch {
		case strings.HasSuffix(name, "text.Caser).Identifierize"):
			s, ok := args[1].(absint.Str)
			if !ok || !s.HasHole() {
				return nil, false
			}
			if len(s.P) == 1 && s.P[0].Hole != nil && len(s.P[0].Hole.Tr) == 0 && s.P[0].Hole.A.Kind == "RawStr" {
				a := s.P[0].Hole.A
				r := absint.HoleStr(IdentFor(m, a))
				m.Assume("Identifierize maps a symbolic name to one synthesised identifier (its behaviour on every class of text is decided by A-IDENT under C14)")
				return r, true
			}
			if len(s.P) == 1 && s.P[0].Hole != nil && s.P[0].Hole.A.Kind == "Ident" {
				return s, true // already an identifier
			}
			panic(&absint.RunError{Kind: "undecided", Msg: "Identifierize on composite symbolic text " + s.Debug()})
		case name == "pkg/schemas.QualifiedFileName":
			// in-memory files: the qualified name is the path joined to the parent's directory (no file system access)
			fn, ok1 := args[0].(absint.Str).Concrete()
			parent, ok2 := args[1].(absint.Str).Concrete()
			if !ok1 || !ok2 {
				panic(&absint.RunError{Kind: "undecided", Msg: "QualifiedFileName on symbolic paths"})
			}
			m.Assume("file-system resolution (existence, extension probing, symlinks) is replaced by: path joined to the directory of the referring file")
			return absint.Tuple{absint.Lit(filepath.Join(filepath.Dir(parent), fn)), absint.Iface{}}, true
		}
		return nil, false
	}
}
