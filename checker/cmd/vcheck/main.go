// vcheck decides one property of /repo's current working tree by static
// analysis (see /verif/DESIGN.md). Nothing from /repo is executed.
package main

import (
	"encoding/json"
	"flag"
	"fmt"
	"os"
	"path/filepath"
	"runtime/debug"
	"sort"
	"strconv"
	"time"

	"verif/checker/internal/core"
	"verif/checker/internal/props"
)

func main() {
	prop := flag.String("prop", "", "property id (C01..C20) or 'all'")
	tier := flag.String("tier", "", "quick|thorough (default: $VERIF_TIER or quick)")
	repo := flag.String("repo", "/repo", "repository to analyse")
	verif := flag.String("verif", "", "verif directory (default: directory above the binary)")
	replay := flag.String("replay", "", "replay file: re-run the check and report whether its findings recur")
	list := flag.Bool("list", false, "list the properties with a check")
	flag.Parse()

	if *list {
		ids := []string{}
		for id := range props.Registry {
			ids = append(ids, id)
		}
		sort.Strings(ids)
		for _, id := range ids {
			fmt.Println(id)
		}
		return
	}
	if *tier == "" {
		*tier = os.Getenv("VERIF_TIER")
	}
	if *tier != "thorough" {
		*tier = "quick"
	}
	if *verif == "" {
		exe, err := os.Executable()
		if err == nil {
			*verif = filepath.Dir(filepath.Dir(exe))
		} else {
			*verif = "/verif"
		}
	}
	seed, _ := strconv.ParseInt(os.Getenv("VERIF_SEED"), 10, 64)

	if *replay != "" {
		b, err := os.ReadFile(*replay)
		if err != nil {
			fmt.Println("cannot read replay file:", err)
			os.Exit(2)
		}
		var r struct {
			Property string         `json:"property"`
			Tier     string         `json:"tier"`
			Findings []core.Finding `json:"findings"`
		}
		if err := json.Unmarshal(b, &r); err != nil {
			fmt.Println("bad replay file:", err)
			os.Exit(2)
		}
		if *prop == "" {
			*prop = r.Property
		}
		if r.Tier != "" {
			*tier = r.Tier
		}
		fmt.Printf("replaying %d finding(s) of %s (%s tier) against %s\n", len(r.Findings), r.Property, *tier, *repo)
	}

	run, ok := props.Registry[*prop]
	if !ok {
		fmt.Printf("no check registered for property %q\n", *prop)
		os.Exit(2)
	}

	t0 := time.Now()
	prog, err := core.Load(*repo)
	if err != nil {
		// Fail closed: a tree that cannot be loaded cannot be certified.
		ctx := core.NewCtx(*prop, *tier, seed, *verif, &core.Program{Repo: *repo})
		ctx.Explanation = "the repository could not be loaded and type-checked; nothing was analysed"
		ctx.Undecided("load", "(program)", "go/packages+go/types", "", err.Error())
		os.Exit(ctx.Finish())
	}
	ctx := core.NewCtx(*prop, *tier, seed, *verif, prog)
	ctx.Start = t0
	func() {
		defer func() {
			if r := recover(); r != nil {
				ctx.Undecided("checker-panic", "(checker)", fmt.Sprint(r), "", "the checker panicked: "+fmt.Sprint(r)+"\n"+string(debug.Stack()))
			}
		}()
		run(ctx)
	}()
	os.Exit(ctx.Finish())
}
