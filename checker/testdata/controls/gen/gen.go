// Package gen is a miniature stand-in for the generator, used only as a
// positive control for rules whose expected count on /repo is zero.
package gen

import (
	"math/rand"
	"os"
	"time"
)

type Generator struct{ outputs map[string]string }

func (g *Generator) DoFile(name string) error {
	_ = g.RootName(name)
	if name == "" {
		return os.ErrInvalid
	}
	// CONTROL B-WRITE: an output effect outside the run function
	_ = os.WriteFile(name+".out", nil, 0o644)
	return nil
}

// CONTROL B-DET2: clock and randomness in generation code
func (g *Generator) Stamp() int64 { return time.Now().Unix() + rand.Int63() }

// CONTROL B-DET1: an unclassifiable map range (order escapes into a slice)
func (g *Generator) Names() []string {
	var out []string
	for k := range g.outputs {
		out = append(out, k)
	}
	return out
}

// CONTROL B-DET3: the file path reaches identifier synthesis without filepath.Base
type Caser struct{}

func (c *Caser) Identifierize(s string) string { return s }

func (g *Generator) RootName(fileName string) string {
	c := &Caser{}
	return c.Identifierize(fileName)
}

func (g *Generator) Describe(fileName string) string {
	return g.RootName(fileName)
}
