package main

import (
	"fmt"
	"os"

	"verifcontrols/gen"
)

func abort(msg string) {
	// CONTROL B-ABORT: failing exit without a diagnostic
	os.Exit(1)
}

func run(args []string) {
	g := &gen.Generator{}
	for _, a := range args {
		// CONTROL B-ABORT: output effect before a may-fail step
		fmt.Println("processing", a)
		if err := g.DoFile(a); err != nil {
			// CONTROL B-ERR: error logged, not propagated
			fmt.Fprintln(os.Stderr, "warning:", err)
		}
	}
	f, err := os.OpenFile("out.go", os.O_CREATE|os.O_WRONLY, 0o644)
	if err != nil {
		abort(err.Error())
	}
	// CONTROL B-ERR: Close error of a written file discarded
	_ = f.Close()
	os.Exit(0)
}

func main() { run(os.Args[1:]) }
