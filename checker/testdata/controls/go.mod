module verifcontrols

go 1.23
