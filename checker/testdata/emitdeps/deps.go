// Package emitdeps exists only so that the third-party packages emitted code
// may import can be loaded (for go/types) from the module cache.
package emitdeps

import (
	_ "github.com/go-viper/mapstructure/v2"
	_ "gopkg.in/yaml.v3"
)
