module emitdeps

go 1.23

require (
	github.com/go-viper/mapstructure/v2 v2.1.0
	gopkg.in/yaml.v3 v3.0.1
)
