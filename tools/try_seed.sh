#!/bin/bash
# usage: try_seed.sh <patch.diff> <prop> [<prop>...]   — applies the patch to /repo, runs the quick checks, reverts.
set -u
patch="$1"; shift
cd /repo || exit 2
if [ -n "$(git status --porcelain)" ]; then echo "/repo not clean"; exit 2; fi
if ! git apply "$patch" 2>/tmp/try_seed.err; then
  if ! git apply --3way "$patch" 2>>/tmp/try_seed.err; then echo "patch does not apply: $(head -2 /tmp/try_seed.err)"; git reset -q --hard HEAD; exit 2; fi
  git reset -q
fi
for p in "$@"; do
  out=$(/verif/bin/vcheck -prop "$p" -tier "${TIER:-quick}" 2>&1); rc=$?
  echo "== $p rc=$rc"; echo "$out" | grep -E "violation:|undecided:|VIOLATION" | head -${MAXL:-8}
done
git checkout -- . ; git status --short
