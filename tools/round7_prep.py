#!/usr/bin/env python3
"""Prepares round 7 of independent seeding: one scratch worktree of /repo HEAD and one self-contained
prompt per property under /tmp/seed7 (nothing from /verif except the property text goes into a prompt)."""
import json, subprocess, os

ROOT = "/tmp/seed7"
TMPL = r'''You are helping evaluate how well a project's safety net catches subtle regressions. You work ONLY inside the scratch git worktree __WT__ (a checkout of the Go project omissis/go-jsonschema: a CLI code generator that turns JSON Schema documents into Go structs plus generated UnmarshalJSON/UnmarshalYAML methods that enforce the schema's validation rules). Do not touch /repo, /verif or any other directory outside __WT__ (except temp files under /tmp/seedtmp-__ID__r7, which you must delete at the end).

The property the project is supposed to satisfy:

-----
__PROP__
-----

YOUR TASK: produce TWO independent, realistic source changes ("a" and "b") to the project's non-test Go code, each of which BREAKS this property while (1) the project still compiles, and (2) the project's existing test suite still passes completely, unedited (golden files under tests/data must not be edited either). Each change should look like a plausible maintainer slip or an innocent-looking refactor (a few lines), NOT an obvious sabotage, and it must need something specific to manifest: an unusual input, a particular combination of schema keywords/options, a multi-step sequence, a particular error path, or two cooperating sites that each look fine alone. Do NOT produce changes that ordinary use or the existing tests would expose at once. The two changes should be in different functions / different mechanisms if possible.

This is the SEVENTH round of the exercise; more than 230 changes were tried before, among them: comparison-operator slips, shared or hoisted caches, lazily-read schema nodes, format-string misuse, type-equality options, name collisions and reserved names (Plain, raw, value, AdditionalProperties, "-"), pointer/value type identity, validator order vs defaults, rounding of fractional integer bounds (in the validators and in the --min-sized-ints table), in-place slice filters, sorted type lists, raw string literals, symlink/extension resolution, addFile guards, struct-tag spellings, width-hint formats, $ref next to sibling keywords, import registration, keyword values trimmed/zero-tested in the decoder, O_TRUNC, glob expansion, stdout diagnostics, per-id flag lookups, mergo options, yaml-tag fallbacks, pkg/types slicing, deferred option restores, enum carrier inference, anyOf cycle clean-up, list-flag registration, OnlyModels guards moved or removed, sg.output identity for same-package refs, goJSONSchema blocks skipping validators, nil guards of required arrays, unknown type + enum, errors overwritten in a loop, schema ids normalised with TrimSuffix("#"), raw names given to addFile, declsBySchema recording conditions, emitter line splitting, catch-all patterns dropped, defaults dropped when not in the enum, defaultValidator mutating itself between the JSON and the YAML pass, legacy definitions merged over $defs, IdentifierFromFileName trimming before Base. Find something ELSE.
Directions that have been used little so far: (1) root schemas that are NOT objects (a root of type array, string, integer with constraints, an enum, an anyOf/allOf at the root, a root that is only a $ref), and files whose root has no type at all; (2) behaviour that exists only WITHOUT --extra-imports (the CLI default: JSON unmarshalers only, no yaml/mapstructure) or only in UnmarshalYAML — the golden tests always run with extra imports on; (3) keyword values that are zero or trivial (minLength 0, maxLength 0, maxItems 0, minimum 0, multipleOf 1, empty required list, empty properties, empty title/description, default: false / 0 / "" / null) and how "absent" is told from "zero"; (4) enum details: MarshalJSON of wrapped enums, integer enums given 1.0, enum + nullable + default, duplicate enum values, enums of booleans, constants' names for values that differ only in case or punctuation; (5) anyOf emission: branch type names (_0, _1), aliases for referenced branches, the threshold that counts branch errors, which branch's fields win in the merged struct, anyOf at array items or additionalProperties; (6) description/title/comment emission in pkg/codegen (Commentf, word wrapping, very long words, tabs, "*/", text ending in a backslash, non-ASCII) and anything that makes gofmt's output differ between runs; (7) main.go file handling: output directories that do not exist, two schemas mapped to one file, "-" as output with several schemas, the verbose flag, the warner, exit codes of partial failures, reading a schema from a path with spaces or a trailing slash; (8) name_scope.go, uniqueTypeName / uniqueNames suffix assignment and the order in which suffixes are handed out; (9) the yaml formatter vs the json formatter for the LESS common validators (null type, anyOf, enums wrapped in structs, arrays of arrays, readOnly-style fields that have no validator), and the mapstructure tags; (10) struct field order, sortedKeys and anything that decides declaration order inside one output file.
Each change should still be as small and innocent-looking as possible, must leave the default/common behaviour byte-identical, and must not be detectable by the existing golden tests.

For each change X in {a,b} create the directory __WT__/_seed/X/ containing:
  - patch.diff : `git diff` of ONLY the source change (relative to HEAD, applicable with `git apply` from the repository root; must not include anything under _seed/).
  - demo.sh   : an executable bash script, run from the worktree root, offline, that exits 0 on the UNCHANGED project and exits non-zero (printing what went wrong) when the change is applied. It may build the CLI (go build -o /tmp/seedtmp-__ID__r7/gjs .), run it on schema files you put in _seed/X/, generate code, compile/run small Go programs against the generated code, etc. Put any helper files (schemas, Go programs, test files) inside _seed/X/ as well. demo.sh must clean up after itself and must not leave files outside _seed/ and /tmp/seedtmp-__ID__r7.
  - README.md : 5-15 lines: what the change is, why it breaks the property, what exactly is needed for it to manifest, and why the existing suite does not see it.

Environment facts (important):
  - The sandbox has NO network. Always `export GOPROXY=off GOTOOLCHAIN=local GOSUMDB=off` in every shell command. The default `go` is 1.23.5. All module dependencies of the project and of its tests module (including gopkg.in/yaml.v3 and github.com/go-viper/mapstructure/v2) are in the module cache; nothing else can be downloaded.
  - The repo uses a go.work workspace (modules `.` and `./tests`). Run the existing suite with:  (cd __WT__ && go test -vet=off -count=1 -timeout 10m ./...) && (cd __WT__/tests && go test -vet=off -count=1 -timeout 10m ./...)   — both must print only ok/no test files. Running go in workspace mode may append lines to go.work.sum; revert that with `git checkout -- go.work.sum` and never include it in a patch.
  - If a demo needs to compile generated code that imports yaml.v3 / mapstructure / the project's pkg/types, the simplest way is to write the generated file plus a main.go or _test.go into a new directory under __WT__/tests/ (e.g. tests/zz_seed_tmp/), which belongs to the `tests` module that already requires those dependencies, run it with `go run`/`go test` from there, and delete the directory afterwards.
  - Always pass -timeout to go test, and wrap CLI runs in `timeout 60`.
  - The unchanged project has known defects of its own; if your demo trips over one on the UNCHANGED tree, pick another input. If you notice a genuine defect of the unchanged tree that breaks the property, mention it in one line at the end of your final message (it is not a deliverable).

Procedure you must follow for each change: make the edit; build; run the full existing suite (must pass); run your demo.sh (must FAIL); save patch.diff; revert the source edit with `git checkout -- <files>`; run demo.sh again (must PASS). Leave the worktree with NO source modifications at the end (only the untracked _seed/ directory). If after a serious attempt you can only produce one valid change, deliver one and say so.

Your final message should list, for each change: files/functions touched, the one-line reason it breaks the property, what input/sequence manifests it, and confirmation of the four checks (builds, suite passes, demo fails with change, demo passes without).
'''

os.makedirs(ROOT, exist_ok=True)
for line in open("/verif/properties.jsonl"):
    d = json.loads(line)
    P = d["id"]
    prop = d.get("title", "") + "\n\n" + (d.get("statement") or d.get("text") or "")
    wt = f"{ROOT}/{P}"
    s = TMPL.replace("__WT__", wt).replace("__ID__", P).replace("__PROP__", prop)
    open(f"{ROOT}/{P}.prompt.txt", "w").write(s)
    if not os.path.isdir(wt):
        subprocess.run(["git", "-C", "/repo", "worktree", "add", "-q", "--detach", wt, "HEAD"], check=True)
print("ok")
