#!/usr/bin/env python3
"""usage: kf.py add <property> <rule> <func> <construct> <what> [witness]   |   kf.py from-replay <replay.json> <index> <what> [witness]"""
import json, sys
P='/verif/known_findings.json'
k=json.load(open(P))
if sys.argv[1]=='add':
    _,_,prop,rule,func,construct,what,*w=sys.argv
    e={"property":prop,"rule":rule,"func":func,"construct":construct,"what":what,"status":"known"}
    if w: e["witness"]=w[0]
elif sys.argv[1]=='from-replay':
    r=json.load(open(sys.argv[2])); f=r['findings'][int(sys.argv[3])]
    e={"property":f['property'],"rule":f['rule'],"func":f['func'],"construct":f['construct'],"what":sys.argv[4],"status":"known"}
    if len(sys.argv)>5: e["witness"]=sys.argv[5]
for x in k['findings']:
    if (x['property'],x['rule'],x['func'],x['construct'])==(e['property'],e['rule'],e['func'],e['construct']):
        print("already listed"); sys.exit(0)
k['findings'].append(e)
json.dump(k,open(P,'w'),indent=1)
print("added",e['property'],e['rule'],e['construct'])
