#!/usr/bin/env python3
"""Runs every registered quick check against every kept seed (each applied to its own scratch worktree of /repo HEAD)
and writes /verif/seeded/MATRIX.json + MATRIX.md: which checks catch which changes. usage: seed_matrix.py [seed ...]"""
import json, os, subprocess, sys, shutil, concurrent.futures as cf
V='/verif'; MX='/tmp/mx'
props=[c['property_id'] for c in json.load(open(f'{V}/MANIFEST.json'))['checks']]
seeds=sys.argv[1:] or sorted(d for d in os.listdir(f'{V}/seeded') if os.path.isdir(f'{V}/seeded/{d}') and os.path.exists(f'{V}/seeded/{d}/patch.diff'))
os.makedirs(MX,exist_ok=True)
def run(seed):
    wt=f'{MX}/{seed}'; vd=f'{MX}/{seed}.verif'
    subprocess.run(['git','-C','/repo','worktree','remove','--force',wt],capture_output=True)
    shutil.rmtree(wt,ignore_errors=True); shutil.rmtree(vd,ignore_errors=True)
    r=subprocess.run(['git','-C','/repo','worktree','add','--detach',wt,'HEAD'],capture_output=True,text=True)
    if r.returncode: return seed,{'error':'worktree: '+r.stderr[-200:]}
    r=subprocess.run(['git','-C',wt,'apply',f'{V}/seeded/{seed}/patch.diff'],capture_output=True,text=True)
    if r.returncode:
        subprocess.run(['git','-C','/repo','worktree','remove','--force',wt],capture_output=True)
        return seed,{'error':'patch does not apply: '+r.stderr[-200:]}
    os.makedirs(vd); os.symlink(f'{V}/known_findings.json',f'{vd}/known_findings.json'); os.symlink(f'{V}/checker',f'{vd}/checker')
    res={}
    own=seed.split('-')[0]
    order=[own]+[p for p in props if p!=own]
    if os.environ.get('ONLY_OWN'): order=[own]+[p for p in os.environ.get('ALSO','').split() if p]
    for p in order:
        o=subprocess.run([os.environ.get('VCHECK_BIN',f'{V}/bin/vcheck'),'-prop',p,'-tier','quick','-repo',wt,'-verif',vd],capture_output=True,text=True)
        lines=[l.strip() for l in o.stdout.splitlines() if l.strip().startswith(('violation:','undecided:'))]
        res[p]={'rc':o.returncode,'first':(lines[0][:300] if lines else '')}
    subprocess.run(['git','-C','/repo','worktree','remove','--force',wt],capture_output=True)
    shutil.rmtree(vd,ignore_errors=True)
    return seed,res
out={}
with cf.ThreadPoolExecutor(max_workers=int(os.environ.get('WORKERS','5'))) as ex:
    for seed,res in ex.map(run,seeds):
        out[seed]=res
        if 'error' in res: print(seed,'ERROR',res['error']); continue
        caught=[p for p,r in res.items() if r['rc']==1]
        print(seed,'caught by',caught or 'NOTHING', '|', res.get(seed.split('-')[0],{}).get('first','')[:260], flush=True)
if os.environ.get('ONLY_OWN') and not os.environ.get('OWN_UPDATE'): sys.exit(0)
if os.environ.get('OWN_UPDATE'):
    # refresh only the own-property column of an existing matrix (the other columns keep the results of the last full run)
    full=json.load(open(f'{V}/seeded/MATRIX.json')) if os.path.exists(f'{V}/seeded/MATRIX.json') else {}
    for seed,res in out.items():
        if 'error' in res: full[seed]=res; continue
        cur=full.get(seed,{})
        if 'error' in cur: cur={}
        cur.update(res); full[seed]=cur
    out=full; sys.argv=sys.argv[:1]
old={}
if os.path.exists(f'{V}/seeded/MATRIX.json') and sys.argv[1:]:
    old=json.load(open(f'{V}/seeded/MATRIX.json'))
old.update(out)
json.dump(old,open(f'{V}/seeded/MATRIX.json','w'),indent=1,sort_keys=True)
with open(f'{V}/seeded/MATRIX.md','w') as f:
    note='Each change was applied to a scratch worktree of /repo HEAD and every registered quick check was run against it (tools/seed_matrix.py).'
    if os.environ.get('OWN_UPDATE'): note='Each change was applied to a scratch worktree of /repo HEAD (' + subprocess.run(['git','-C','/repo','rev-parse','--short','HEAD'],capture_output=True,text=True).stdout.strip() + ') and the quick check of ITS OWN property was run against it with the final checker (tools/seed_matrix.py, OWN_UPDATE). The column of OTHER checks is what the last full run found (previous session, /repo e686943, seeds a-j only; a full 348 x 20 run did not fit into this session) and is empty for the seeds k-u.'
    f.write('# Which checks catch which seeded changes\n\n'+note+'\n\n| seed | own property check | other checks that also fire | first report of the own check |\n|---|---|---|---|\n')
    for seed in sorted(old):
        res=old[seed]
        if 'error' in res: f.write(f'| {seed} | n/a | | {res["error"]} |\n'); continue
        own=seed.split('-')[0]
        o=res.get(own,{})
        others=[p for p,r in res.items() if r['rc']==1 and p!=own]
        first=o.get('first','').replace('|','\\|')[:220]
        f.write(f'| {seed} | {"CAUGHT" if o.get("rc")==1 else "missed"} | {", ".join(others)} | {first} |\n')
print('written')
