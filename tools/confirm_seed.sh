#!/bin/bash
# usage: confirm_seed.sh <PROP> <x>     (seed delivered by a sub-agent in /tmp/seed/<PROP>/_seed/<x>)
# Confirms in a fresh scratch worktree of /repo HEAD: demo passes unpatched; with the patch the project
# builds, the unedited suite passes and the demo fails. Writes $CONF/<PROP>-<x>.result
set -u
P="$1"; X="$2"
export GOPROXY=off GOTOOLCHAIN=local GOSUMDB=off
unset GOFLAGS
SEEDROOT=${SEEDROOT:-/tmp/seed}; CONF=${CONF:-/tmp/confirm}
SRC=$SEEDROOT/$P/_seed/$X
WT=$SEEDROOT/$P   # demos have the worktree path baked in by the agent in places; reuse the agent's worktree but reset it to /repo HEAD
RES=$CONF/$P-$X.result
mkdir -p $CONF
cd "$WT" || exit 2
git checkout -q -- . 2>/dev/null
git checkout -q --detach "$(git -C /repo rev-parse HEAD)" || { echo "cannot move worktree to HEAD" > "$RES"; exit 2; }
{
echo "seed $P/$X at repo HEAD $(git rev-parse --short HEAD)"
echo "--- demo on unpatched tree"
timeout 900 bash "$SRC/demo.sh" > $CONF/$P-$X.demo0.log 2>&1; d0=$?
echo "demo_unpatched_rc=$d0"
git checkout -q -- . ; git status --porcelain | grep -v '^??' 
echo "--- apply patch"
if git apply "$SRC/patch.diff" 2>/dev/null; then echo "apply=clean"; elif git apply --3way "$SRC/patch.diff" 2>/dev/null; then git reset -q; echo "apply=3way"; else echo "apply=FAILED"; fi
git diff --stat | tail -3
echo "--- build"
go build ./... > $CONF/$P-$X.build.log 2>&1; b=$?; echo "build_rc=$b"
echo "--- suite"
( go test -vet=off -count=1 -timeout 10m ./... 2>&1 | grep -v 'no test files' ; cd tests && go test -vet=off -count=1 -timeout 10m ./... 2>&1 | grep -v 'no test files' ) > $CONF/$P-$X.suite.log 2>&1
if grep -qE '^(FAIL|---|panic)' $CONF/$P-$X.suite.log || ! grep -q '^ok' $CONF/$P-$X.suite.log; then echo "suite=FAIL"; else echo "suite=pass"; fi
git checkout -q -- go.work.sum 2>/dev/null
echo "--- demo on patched tree"
timeout 900 bash "$SRC/demo.sh" > $CONF/$P-$X.demo1.log 2>&1; d1=$?
echo "demo_patched_rc=$d1"
tail -3 $CONF/$P-$X.demo1.log | cut -c1-300
git checkout -q -- . 
git status --porcelain | grep -v '^?? _seed' 
if [ $d0 -eq 0 ] && [ $b -eq 0 ] && [ $d1 -ne 0 ]; then echo "VERDICT=confirmed"; else echo "VERDICT=rejected"; fi
} > "$RES" 2>&1
cat "$RES"
