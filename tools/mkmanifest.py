#!/usr/bin/env python3
"""Regenerates /verif/MANIFEST.json from the table below (kept valid at all times)."""
import json, os, sys

HERE = os.path.dirname(os.path.dirname(os.path.abspath(__file__)))

SETUP = ("cd /verif/checker && GOFLAGS=-mod=mod GOPROXY=off GOSUMDB=off GOTOOLCHAIN=local "
         "go build -o /verif/bin/vcheck ./cmd/vcheck")

BASELINE = ("for m in . ./tests ./tests/helpers/other; do (cd /repo/$m && GOPROXY=off GOTOOLCHAIN=local "
            "go test -json -vet=off -count=1 -timeout 25m ./...); done; git -C /repo checkout -- go.work.sum")

TRUST = ("Trusted base: go/packages + go/types + go/ssa (x/tools v0.29.0) as the reading of /repo's source; "
         "the enumerated exception tables printed in the evidence; ")

# id -> (technique, level text, level note, design_ref)   — only properties with a check
CHECKS = {}
NA = {}

def claim(pid, technique, text, note, ref):
    CHECKS[pid] = dict(technique=technique, text=text, note=note, ref=ref)

exec(open(os.path.join(HERE, "tools", "claims.py")).read())

def main():
    props = [json.loads(l) for l in open(os.path.join(HERE, "properties.jsonl"))]
    checks = []
    na = []
    for p in props:
        pid = p["id"]
        if pid in CHECKS:
            c = CHECKS[pid]
            checks.append({
                "property_id": pid,
                "quick_cmd": f"bin/vcheck -prop {pid} -tier quick",
                "thorough_cmd": f"bin/vcheck -prop {pid} -tier thorough",
                "evidence_file": f"evidence/{pid}.json",
                "replay_cmd_template": f"bin/vcheck -prop {pid} -replay {{path}}",
                "engine": "vcheck",
                "level_claimed": {"category": "other", "text": c["text"], "design_ref": c["ref"]},
                "level_note": TRUST + c["note"],
                "technique": c["technique"],
            })
        else:
            na.append({"property_id": pid, "reason": NA.get(pid, "no static check for this property is built in this revision; see DESIGN.md section 2 for the planned rule")})
    m = {
        "version": 1,
        "setup_cmd": SETUP,
        "hooks": {
            "guard": "verif",
            "enable": "none needed: every check is a static analysis of /repo's source; no guarded code exists in /repo",
            "baseline_off_cmd": BASELINE,
            "source_commits": [],
            "add_only": True,
        },
        "engines": [{
            "name": "vcheck",
            "path": "checker/cmd/vcheck",
            "serves_properties": sorted(CHECKS),
            "kind_free_text": "repository-specific static analyser over go/types + go/ssa: discipline rules (error flow, exit ordering, map-range determinism, memo keys, role flow) and an abstract interpreter of the generator that computes emitted-code skeletons with symbolic holes, which are then parsed/type-checked/queried",
        }],
        "checks": checks,
        "not_applicable": na,
        "notes": "All claims are level 'other': each check decides a named structural necessary condition of its property from /repo's current source on every run (nothing from /repo is executed); what each does not cover is stated in DESIGN.md section 2 and in the evidence explanation. Known genuine defects are listed in known_findings.json.",
    }
    json.dump(m, open(os.path.join(HERE, "MANIFEST.json"), "w"), indent=1)
    print("checks:", len(checks), "not_applicable:", len(na))

main()
