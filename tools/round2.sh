#!/bin/bash
# confirms the round-2 seeds delivered under /tmp/seed2/<P>/_seed/{a,b} and keeps the confirmed ones as /verif/seeded/<P>-{c,d}
export SEEDROOT=/tmp/seed2 CONF=/tmp/confirm2
for P in "$@"; do
  ( for X in a b; do [ -d $SEEDROOT/$P/_seed/$X ] && /verif/tools/confirm_seed.sh $P $X >/dev/null 2>&1; done ) &
  while [ $(jobs -r | wc -l) -ge 5 ]; do sleep 2; done
done
wait
for P in "$@"; do for X in a b; do
  AS=c; [ $X = b ] && AS=d
  if grep -q VERDICT=confirmed $CONF/$P-$X.result 2>/dev/null; then AS=$AS /verif/tools/keep_seed.sh $P $X; else echo "NOT CONFIRMED $P-$X: $(grep -E 'apply=|rc=|suite=' $CONF/$P-$X.result | tr '\n' ' ')"; fi
done; done
