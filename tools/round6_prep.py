#!/usr/bin/env python3
"""Prepares round 6 of independent seeding: one scratch worktree of /repo HEAD and one self-contained
prompt per property under /tmp/seed6 (nothing from /verif except the property text goes into a prompt)."""
import json, subprocess, os

ROOT = "/tmp/seed6"
TMPL = r'''You are helping evaluate how well a project's safety net catches subtle regressions. You work ONLY inside the scratch git worktree __WT__ (a checkout of the Go project omissis/go-jsonschema: a CLI code generator that turns JSON Schema documents into Go structs plus generated UnmarshalJSON/UnmarshalYAML methods that enforce the schema's validation rules). Do not touch /repo, /verif or any other directory outside __WT__ (except temp files under /tmp/seedtmp-__ID__r6, which you must delete at the end).

The property the project is supposed to satisfy:

-----
__PROP__
-----

YOUR TASK: produce TWO independent, realistic source changes ("a" and "b") to the project's non-test Go code, each of which BREAKS this property while (1) the project still compiles, and (2) the project's existing test suite still passes completely, unedited (golden files under tests/data must not be edited either). Each change should look like a plausible maintainer slip or an innocent-looking refactor (a few lines), NOT an obvious sabotage, and it must need something specific to manifest: an unusual input, a particular combination of schema keywords/options, a multi-step sequence, a particular error path, or two cooperating sites that each look fine alone. Do NOT produce changes that ordinary use or the existing tests would expose at once. The two changes should be in different functions / different mechanisms if possible.

This is the SIXTH round of the exercise; earlier rounds already tried: single-token comparison slips (< vs <=), shared/hoisted caches, lazily-read schema nodes, format-string misuse, type-equality options, name collisions, PointerType vs *PointerType identity, validator order vs defaults, rounding of fractional integer bounds, in-place slice filters aliasing the schema's lists, sorting a type list in the decoder, raw string literals for defaults, skipping EvalSymlinks, re-entrant addFile guards, struct-tag spellings for odd property names, the shadow type name `Plain`, `plain := Plain(*j)` aliasing, width-hint formats, early returns above the property loop, `$ref` next to a sibling `type`, import registration moved or de-duplicated by alias, trimming/zero-testing keyword values in (*Type).UnmarshalJSON, O_TRUNC lost in main.go, glob expansion of arguments, diagnostics on stdout, per-id flag lookups conflating empty with absent, resolve extensions only for dot-less names, mergo options (WithoutDereference, type-list transformer), the yaml-tag fallback in the YAML emitter, indexing s[len(s)-1] in pkg/types, a deferred restore of MinSizedInts, IsUpper(ToUpper(r)), skipping null when inferring an enum carrier, anyOf cycle clean-up on early return, StringArrayVar instead of StringSliceVar. Find something ELSE.
Directions that have been used little so far: (1) TWO cooperating edits in different files that are each harmless alone (e.g. a helper's contract loosened + a caller that relied on it); (2) state carried from one schema file / definition / property to the NEXT one in the same run (a field of Generator, schemaGenerator, output, Package, Emitter or a validator that is not reset, a slice appended in place, a pointer shared between two declarations); (3) behaviour that differs only on the SECOND visit of a node (definition referenced from two places, once as a property and once as an array item / anyOf / allOf branch / additionalProperties value); (4) the combination of two options that are each tested alone (--only-models with --min-sized-ints, --tags without json, --struct-name-from-title with --schema-root-type, --extra-imports with additionalProperties, --capitalization entries that overlap or contain digits); (5) the interplay of nullable (`type: [T, "null"]`) with any other keyword (default, enum, format, items, additionalProperties, required, $ref siblings); (6) the goJSONSchema extension keywords (type, identifier, nillable, imports) in positions nobody tests (on array items, on definitions, on anyOf branches, together with default/required/validation keywords); (7) the YAML input path (pkg/yamlutils, yaml schema files that reference json files and vice versa, numeric-looking or boolean-looking keys and enum members); (8) pkg/codegen model methods that are shared by several callers (IsNillable, GetName, Generate of nested struct/map/array/pointer types, comments) where a change shows only for a deep nesting; (9) pkg/schemas/loaders.go + reference.go (fragment parsing, file names containing '#', '%', spaces or dots, upper-case extensions, refs with empty fragments, absolute vs relative paths, loading the same file through two spellings); (10) error paths: an error that is now returned with a nil value alongside, wrapped so that errors.Is stops matching, or swallowed only when a SECOND condition holds.
Each change should still be as small and innocent-looking as possible, must leave the default/common behaviour byte-identical, and must not be detectable by the existing golden tests.

For each change X in {a,b} create the directory __WT__/_seed/X/ containing:
  - patch.diff : `git diff` of ONLY the source change (relative to HEAD, applicable with `git apply` from the repository root; must not include anything under _seed/).
  - demo.sh   : an executable bash script, run from the worktree root, offline, that exits 0 on the UNCHANGED project and exits non-zero (printing what went wrong) when the change is applied. It may build the CLI (go build -o /tmp/seedtmp-__ID__r6/gjs .), run it on schema files you put in _seed/X/, generate code, compile/run small Go programs against the generated code, etc. Put any helper files (schemas, Go programs, test files) inside _seed/X/ as well. demo.sh must clean up after itself and must not leave files outside _seed/ and /tmp/seedtmp-__ID__r6.
  - README.md : 5-15 lines: what the change is, why it breaks the property, what exactly is needed for it to manifest, and why the existing suite does not see it.

Environment facts (important):
  - The sandbox has NO network. Always `export GOPROXY=off GOTOOLCHAIN=local GOSUMDB=off` in every shell command. The default `go` is 1.23.5. All module dependencies of the project and of its tests module (including gopkg.in/yaml.v3 and github.com/go-viper/mapstructure/v2) are in the module cache; nothing else can be downloaded.
  - The repo uses a go.work workspace (modules `.` and `./tests`). Run the existing suite with:  (cd __WT__ && go test -vet=off -count=1 -timeout 10m ./...) && (cd __WT__/tests && go test -vet=off -count=1 -timeout 10m ./...)   — both must print only ok/no test files. Running go in workspace mode may append lines to go.work.sum; revert that with `git checkout -- go.work.sum` and never include it in a patch.
  - If a demo needs to compile generated code that imports yaml.v3 / mapstructure / the project's pkg/types, the simplest way is to write the generated file plus a main.go or _test.go into a new directory under __WT__/tests/ (e.g. tests/zz_seed_tmp/), which belongs to the `tests` module that already requires those dependencies, run it with `go run`/`go test` from there, and delete the directory afterwards.
  - Always pass -timeout to go test, and wrap CLI runs in `timeout 60`.
  - The unchanged project has known defects of its own; if your demo trips over one on the UNCHANGED tree, pick another input. If you notice a genuine defect of the unchanged tree that breaks the property, mention it in one line at the end of your final message (it is not a deliverable).

Procedure you must follow for each change: make the edit; build; run the full existing suite (must pass); run your demo.sh (must FAIL); save patch.diff; revert the source edit with `git checkout -- <files>`; run demo.sh again (must PASS). Leave the worktree with NO source modifications at the end (only the untracked _seed/ directory). If after a serious attempt you can only produce one valid change, deliver one and say so.

Your final message should list, for each change: files/functions touched, the one-line reason it breaks the property, what input/sequence manifests it, and confirmation of the four checks (builds, suite passes, demo fails with change, demo passes without).
'''

os.makedirs(ROOT, exist_ok=True)
for line in open("/verif/properties.jsonl"):
    d = json.loads(line)
    P = d["id"]
    prop = d.get("title", "") + "\n\n" + (d.get("statement") or d.get("text") or "")
    wt = f"{ROOT}/{P}"
    s = TMPL.replace("__WT__", wt).replace("__ID__", P).replace("__PROP__", prop)
    open(f"{ROOT}/{P}.prompt.txt", "w").write(s)
    if not os.path.isdir(wt):
        subprocess.run(["git", "-C", "/repo", "worktree", "add", "-q", "--detach", wt, "HEAD"], check=True)
print("ok")
