#!/bin/bash
# usage: keep_seed.sh <PROP> <x>  — copies a confirmed seed into /verif/seeded/<PROP>-<x>/
set -eu
P="$1"; X="$2"
SEEDROOT=${SEEDROOT:-/tmp/seed}; CONF=${CONF:-/tmp/confirm}; AS=${AS:-$X}
SRC=$SEEDROOT/$P/_seed/$X; DST=/verif/seeded/$P-$AS
grep -q VERDICT=confirmed $CONF/$P-$X.result
mkdir -p "$DST"; cp -r "$SRC"/. "$DST"/
python3 - "$P" "$X" "$AS" "$CONF" <<'PY'
import json,sys,re
P,X,AS,CONF=sys.argv[1:5]
res=open(f'{CONF}/{P}-{X}.result').read()
readme=open(f'/verif/seeded/{P}-{AS}/README.md').read()
meta={"id":f"{P}-{AS}","breaks_property":P,
 "source":"independent sub-agent given only the property text and a scratch worktree",
 "needs_to_manifest":readme.strip()[:1500],
 "confirmed_by":"tools/confirm_seed.sh in a scratch worktree at the /repo HEAD named below: demo.sh exits 0 unpatched; with patch.diff applied `go build ./...` succeeds, the unedited suite (go test ./... in . and ./tests) passes, demo.sh exits non-zero",
 "confirmation_log":res.strip().splitlines()}
json.dump(meta,open(f'/verif/seeded/{P}-{AS}/meta.json','w'),indent=1)
PY
echo kept $DST
