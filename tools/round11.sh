#!/bin/bash
# confirms the round-11 seeds delivered under /tmp/seed11/<P>/_seed/{a,b} and keeps the confirmed ones as /verif/seeded/<P>-{u,v}
export SEEDROOT=/tmp/seed11 CONF=/tmp/confirm11
for P in "$@"; do
  ( for X in a b; do [ -d $SEEDROOT/$P/_seed/$X ] && { git -C $SEEDROOT/$P reset -q --hard 2>/dev/null; /verif/tools/confirm_seed.sh $P $X >/dev/null 2>&1; }; done ) &
  while [ $(jobs -r | wc -l) -ge 5 ]; do sleep 2; done
done
wait
for P in "$@"; do for X in a b; do
  AS=u; [ $X = b ] && AS=v
  if grep -q VERDICT=confirmed $CONF/$P-$X.result 2>/dev/null && grep -q suite=pass $CONF/$P-$X.result; then AS=$AS /verif/tools/keep_seed.sh $P $X; else echo "NOT CONFIRMED $P-$X: $(grep -E 'apply=|rc=|suite=' $CONF/$P-$X.result | tr '\n' ' ')"; fi
done; done
