#!/bin/bash
# runs every registered quick check against /repo; prints one line per property
cd /verif || exit 2
tier="${1:-quick}"
fail=0
for p in $(python3 -c "import json;print(' '.join(c['property_id'] for c in json.load(open('MANIFEST.json'))['checks']))"); do
  out=$(bin/vcheck -prop $p -tier $tier 2>&1); rc=$?
  echo "$(echo "$out" | tail -1)  rc=$rc"
  [ $rc -ne 0 ] && { fail=1; echo "$out" | grep -E "violation:|undecided:" | head -5 | cut -c1-300; }
done
git -C /repo status --short
exit $fail
