# Claimed properties: claim(id, technique, level text, level note, DESIGN ref)
claim("C18",
      "SSA error-flow analysis (B-ERR) over every error-returning call + CFG exit/effect ordering in main",
      "Decides, on every path of every module function, that a non-nil error obtained from a call is returned, wrapped, "
      "or reaches a failing exit (B-ERR, ~160 call sites incl. all of main.go, which no test executes), with a reasoned, "
      "checked exception table. This is a necessary condition of 'fails loudly, never half-succeeds'; it does not decide "
      "termination or panics inside libraries.",
      "exception table in checker/internal/engb/err.go (strings.Builder writes, stderr diagnostics, read-only Close, two probes); "
      "no-return functions are computed from os.Exit/log.Fatal/panic",
      "DESIGN.md §2 C18, Appendix B-ERR")
