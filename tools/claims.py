# Claimed properties: claim(id, technique, level text, level note, DESIGN ref)
claim("C18",
      "SSA error-flow analysis (B-ERR) over every error-returning call + CFG exit/effect ordering in main",
      "Decides, on every path of every module function, that a non-nil error obtained from a call is returned, wrapped, "
      "or reaches a failing exit (B-ERR, ~160 call sites incl. all of main.go, which no test executes), with a reasoned, "
      "checked exception table. This is a necessary condition of 'fails loudly, never half-succeeds'; it does not decide "
      "termination or panics inside libraries.",
      "exception table in checker/internal/engb/err.go (strings.Builder writes, stderr diagnostics, read-only Close, two probes); "
      "no-return functions are computed from os.Exit/log.Fatal/panic",
      "DESIGN.md §2 C18, Appendix B-ERR")

claim("C12",
      "SSA classification of every range-over-map loop (B-DET1) with derived uniqueness facts, ambient-input call scan (B-DET2), file-path taint to output text (B-DET3)",
      "Decides that no map iteration order, ambient input (clock, random, env, cwd, pid) or schema directory path can reach the emitted text through the "
      "module's own code: each of the module's range-over-map loops is proven order-free from its body (sorted keys / iteration-keyed effects / unique-key search), "
      "the one unsorted key list (main.allKeys) is accepted only under a re-checked side condition, and the file path is shown to reach names only via filepath.Base. "
      "A necessary structural condition of determinism for all inputs and hash seeds; byte equality itself and third-party iteration order are not decided.",
      "pure/sort callee tables and the one S4 exception (yamlutils.fixMapKeysIn) in checker/internal/engb/det.go; third-party libraries deterministic",
      "DESIGN.md §2 C12, Appendix B-DET1")

claim("C13",
      "SSA/CFG precedence and routing rules for legacy/current keyword pairs (B-LEGACY), pointer-prefix matching, single-decoder must-pass-through",
      "Decides the structural conditions that make two spellings decode to the same schema model: each legacy keyword (identified by json struct tag) is folded "
      "into its current counterpart only when the latter is absent (dominating zero test, 4 pairs); both $ref pointer prefixes are matched case-insensitively; "
      "JSON and YAML readers build the Schema only through encoding/json, the YAML path passing FixMapKeys before re-encoding; structural type comparison ignores "
      "the raw $ref text. Necessary conditions of spelling-independence; byte equality of outputs and YAML scalar typing are not decided.",
      "json struct tags name the keywords; encoding/json, goccy/go-yaml behave as documented",
      "DESIGN.md §2 C13")

claim("C10",
      "SSA shape check of the loader memo table (B-MEMO) and its key, dominance/path rules for cycle bookkeeping (B-CYCLE), provenance of the parent path for nested refs (B-PARENT)",
      "Decides the bookkeeping that reference resolution rests on: the loader cache behaves as a memo table (hit returns cached without loading; miss forwards the arguments, "
      "stores under the same key, returns the loaded schema) and its key names the resolved location; declarations are registered in both lookup maps before generation can "
      "recurse; every detectCycle cleanup is deferred before any recursive generation call and deletes the inserted key; the base path for nested relative refs is a resolved path. "
      "Necessary conditions of 'one Go type per definition, relative resolution, terminating recursion'; inline-vs-ref behavioural equality is not decided by this check.",
      "filepath functions behave as documented; one known finding (cache key is the raw ref string)",
      "DESIGN.md §2 C10")
claim("C20",
      "SSA data-flow rules for output routing (B-ROUTE), who-may-write on the routing table, derived uniqueness of output file names, structural check of the cross-package decision (B-XPKG)",
      "Decides that every schema generator is built with the output looked up for its own schema's $id, that only beginOutput extends the id->output table and does so only after "
      "its same-file search found nothing (file names unique, conflict detection order-free), that the qualification decision compares package names and the qualified result/import "
      "come from the target's output, and that the mapping id list has no phantom entries. Necessary conditions of 'each schema lands once in its mapped file/package'; building the "
      "emitted packages together and argument-order independence are not decided.",
      "json tag $id identifies the id field",
      "DESIGN.md §2 C20")

claim("C15",
      "role-flow analysis from json struct tags through call sites, struct fields and results (B-ROLE), store/flag pairing (B-PAIR), write-through-input alias rule (B-ALIAS)",
      "Decides which schema keyword every argument, removal flag and cleared pointer of the sized-int machinery refers to, for all call sites at once: NormalizeBounds/getMinIntType "
      "receive (minimum, maximum, exclusiveMinimum, exclusiveMaximum) in contract order everywhere, the type tables receive (lower, upper), each removal flag depends only on its own "
      "bound and clears only its own side's keywords, and the type chooser does not mutate the schema through aliased pointers. These are necessary conditions of flag-on/flag-off "
      "equivalence that no golden exercises (two fixed defects were found by them); the arithmetic of the width tables is not decided by this check.",
      "json struct tags of schemas.Type name the keywords; the positional contract of NormalizeBounds",
      "DESIGN.md §2 C15")

claim("C05",
      "abstract interpretation (go/ssa) of NormalizeBounds over an exact order domain, exhaustive over presence x kind x relative order of the four bound keywords (C-NORM)",
      "Decides, for every combination of presence/kind of minimum, maximum, exclusiveMinimum, exclusiveMaximum (boolean, numeric or non-numeric form) and every relative order of a "
      "numeric exclusive bound and its inclusive partner, that the normalised (bound, exclusive) pair is the intersection of the stated bounds with exclusive winning a tie; both sides are "
      "enumerated jointly (cross-talk visible). The function touches its arguments only through nil tests, a type switch and comparisons, so the abstraction is exact and the enumeration "
      "complete (one fixed defect was found by it). The emitted comparison code for the normalised bounds is decided by the validator-skeleton rules when present (see evidence); "
      "floating-point behaviour of math.Mod is not decided.",
      "go/ssa lowering; no library summaries are used by NormalizeBounds",
      "DESIGN.md §2 C05")

ENGINE_A = ("abstract interpretation of the generator over go/ssa on symbolic schema families -> emitted-code skeletons with holes -> go/parser + AST normalisation of reject branches compared with a family-derived oracle")
claim("C06", ENGINE_A,
      "Decides, for a string property in 6 positions (required, optional, nullable in both orders, behind both kinds of definition reference) x all 8 subsets of {minLength, maxLength, pattern}, "
      "for both emitted methods (JSON, YAML) and for ALL names, limits and patterns at once (they are symbolic), that the emitted unmarshaler has exactly one reject branch per stated keyword with the "
      "right operator, limit and measure, none for absent keywords, nil-guarded iff the field is a pointer; that the length measure counts characters; that no error result is discarded; that no "
      "schema text is used as a format string. The bound is the tree shape of the family, not the values. Three known findings (byte length twice, discarded regexp error). Regexp dialect differences are not decided.",
      "summaries of fmt/strings/sort/unicode/litter/wordwrap listed in the evidence; Identifierize replaced by its specification for symbolic names (decided separately under C14); distinct atoms denote distinct strings",
      "DESIGN.md §1.1, §2 C06")

claim("C19", ENGINE_A + "; A-AON / A-NILG AST rules on every emitted Unmarshal method",
      "Decides on every Unmarshal method the generator emits for the broad union of schema families (strings, numerics, arrays to depth 3, null types, all type/format mappings, required "
      "subsets, defaults, enums, additionalProperties of every kind, anyOf with 1..4 branches and map-only branches; ~620 members quick) that the receiver is written exactly once, by a final "
      "`*j = T(local)` followed by `return nil`, with every earlier return inside an error branch (all-or-nothing), and that every dereference/index of the decoded value is dominated by its nil "
      "test / range loop and no constant-zero divisor is emitted (no panic in the emitted code itself). All names and limits are symbolic. Panics inside encoding/json, yaml, mapstructure and "
      "regexp are not decided.",
      "summaries listed in the evidence; mergo.Merge and cmp.Equal are modelled (stated in assumptions)",
      "DESIGN.md §2 C19")
claim("C17", ENGINE_A + "; A-SIB comparison of the two emitted methods",
      "Decides, for every type emitted for the same broad union of families under --extra-imports, that UnmarshalJSON and UnmarshalYAML (validating and enum variants) are the same statement "
      "list up to the decode call and the anyOf branch call, and that no type has only one of them. Because the interpreter runs both emitters on the same validator objects, state leaking "
      "from the first pass into the second is visible. Equal skeletons imply equal rule sets and equal default handling; scalar-typing differences of the decoders themselves are not decided.",
      "same as C19",
      "DESIGN.md §2 C17")

claim("C04", ENGINE_A + "; A-REQ presence-check oracle",
      "Decides, for objects with every subset of required properties (x default x nullable), required properties of every non-pointer kind, objects inside arrays (depth 1-2), behind a definition "
      "reference, anyOf branch types, objects with additionalProperties of every kind, and a required name without a property, that each emitted Unmarshal method tests the raw map for exactly "
      "the raw name of every required non-defaulted property before the typed decode (guarded by raw != nil) and for no other key. All names symbolic. One known finding (required name without "
      "a property). allOf-merged required lists are not part of this check.",
      "as C06", "DESIGN.md §2 C04")
claim("C07", ENGINE_A + "; per-depth atoms for array limits",
      "Decides, for arrays of depth 1..3 with a distinct symbolic limit per keyword per depth, in required/optional/nullable positions, that the check of the depth-d array compares len of the "
      "value indexed by exactly the d-1 enclosing loop variables with the depth-d limit, exists whenever depth d states a limit and never otherwise. The known defect (outer limits used at every "
      "depth, pinned by a golden) is listed as known findings per manifestation; a second defect (limits dropped for arrays of null items) was found and fixed. Element validation by inline "
      "primitive item schemas is not decided.",
      "as C06", "DESIGN.md §2 C07")
claim("C03", ENGINE_A + "; A-MAP type-mapping oracle and null-type branches",
      "Decides, for every schema type/format in six positions, with and without --min-sized-ints (all regions of the bounds relative to the width limits explored as worlds), that the emitted Go "
      "field/declared type is the one the oracle table demands (so encoding/json's type check is the schema's) with a pointer exactly where null or absence must be representable, and that "
      "`type: null` positions (alone, as array items to depth 3, next to length limits) get their `!= nil` branch. Two known findings (format types behind references lose their decoder; "
      "array-of-objects definitions get an anonymous element struct). The behaviour of encoding/json, yaml.v3 and mapstructure on mismatched values is trusted.",
      "as C06", "DESIGN.md §2 C03")

claim("C01", ENGINE_A + "; go/parser + go/types on whole emitted files against real export data; lexical-context classification of every hole (A-CTX); B-ERR instance",
      "Decides, over the broad union of families x six option sets (~2000 whole files quick), that every emitted file parses, type-checks against exactly the imports the generator registered "
      "for that run (missing/unused imports, undeclared or duplicate identifiers, ill-typed literals in any keyword/option combination), that every piece of schema text lands in a lexical context "
      "compatible with its sanitisation, and that no schema text is used as a printf format. Four defects found this way were fixed (nullable format imports, additionalProperties:true imports/raw, "
      "eight unquoted-name sites); 15 known findings remain (nullable+default, multipleOf on a number definition, unused fmt, default-key field names, tags/pattern back-quotes, name inside the required "
      "message, go/format fallback). Not decided: gofmt stability, representability of kept bounds in a sized type, shapes outside the families (cross-file refs, goJSONSchema overrides).",
      "as C06 plus go/types with export data of the real libraries; litter.Sdump modelled as 'Go literal of the dynamic type'",
      "DESIGN.md §2 C01")

claim("C16", ENGINE_A + "; relational comparison (A-REL) of the skeleton files of two option sets differing in one option",
      "Decides, for every member of the broad union of families generated twice under option sets that differ in exactly one option (~1000 pairs quick), that --only-models yields identical type and "
      "constant declarations and nothing else (no func/method/var, no validation-support import), that a different --tags list changes tag text only (types, methods, constants, imports identical), "
      "that dropping --extra-imports removes exactly the YAML methods and import (types, variables, JSON methods identical), and that --struct-name-from-title / --capitalization (on families "
      "with concrete names, through the real identifier synthesiser) change identifiers only. Flag wiring in main.go and --schema-root-type are not decided.",
      "as C06", "DESIGN.md §2 C16")

claim("C09", ENGINE_A + "; A-DEF default-assignment oracle + go/types on the whole file",
      "Decides, for defaults of every kind (scalars of four types, scalars next to length/pattern/bound keywords, non-empty and empty slices, object defaults on structs and typed maps, an enum-typed "
      "default) in optional/required/nullable positions, with and without --min-sized-ints, that each emitted Unmarshal method assigns the rendered literal to the field exactly once, after the typed "
      "decode, under the guard 'raw key absent or null' for the exact raw name, before any constraint on that field is evaluated; that defaulted fields are exempt from the presence check and others get "
      "no assignment; and that the literal has the Go type of the field (the file type-checks). Two known findings (nullable+default; default-key selectors).",
      "as C01", "DESIGN.md §2 C09")

claim("C08", ENGINE_A + "; enum oracle (carrier, value table, A-DYN dynamic-type agreement, constants) + go/types",
      "Decides, for enum lists of every kind (typed and untyped strings, integers, numbers, booleans, null, mixed, and a concrete list of look-alike values of different JSON types) used inline, behind "
      "a reference and as array items, with and without --min-sized-ints, that the carrier type is the oracle's (struct-wrapped exactly for mixed/null), that the value table lists every value, that the "
      "dynamic Go type of every table element equals the static type of the comparand given to reflect.DeepEqual (or is a type encoding/json produces, for wrapped enums), that string enums expose one "
      "typed constant per value, that wrapped enums marshal the bare value, that both unmarshalers agree and that the file type-checks. Two known findings (sized-int enums reject everything; untyped "
      "enum behind a reference is not enforced). reflect.DeepEqual on float representations is not decided.",
      "as C01", "DESIGN.md §2 C08")

claim("C11", ENGINE_A + "; anyOf oracle (A-ANYOF), allOf specification on a modelled mergo merge, B-REFCACHE scope rule, B-ERR instances",
      "Decides for anyOf with 1..4 object branches (root and property, plus map-only branches) that the merged type tries every branch type once, fails iff all failed (threshold = number of branches), "
      "every branch type has the called unmarshaler and enforces its own required/constraints, and the merged type exposes the union of properties; for allOf (2..4 branches, disjoint and overlapping "
      "properties, a constraint-only branch adding required, a referenced branch; root and property) that the single emitted struct is the specification's merge: union of properties, conjunction of the "
      "constraints of a property declared twice, union of required. The mergo merge itself is a stated model (options WithAppendSlice / WithTransformers / WithoutDereference understood; any other is "
      "undecided). The raw-$ref resolution cache must be per file; unresolvable branch references are errors. One known finding (same keyword in two branches: first wins).",
      "as C06; fidelity of the mergo model", "DESIGN.md §2 C11")

claim("C02", ENGINE_A + "; A-TAG / A-MAP / A-NOEXTRA oracles; B-SIZED region analysis; B-LAYOUT sibling agreement in pkg/types; B-ADDPROPS ordering",
      "Decides structural necessary conditions of lossless acceptance: every configured tag of every field carries the raw (symbolic) property name, with omitempty exactly for optional properties, under "
      "three tag lists; the Go type chosen for every (type, format, nullability, position) is the oracle's; no emitted unmarshaler over the broad union of families rejects on anything the schema does not "
      "state; under --min-sized-ints the chosen type holds every admitted value in every cell of the width table; the date/time wrappers print with the layout they parse with on every return path; both "
      "emitters delete declared keys before collecting additional properties. Value equality after a round trip, numeric precision, RFC 3339 conformance and encoding/json's key matching are runtime "
      "quantities and are NOT decided. Two known findings (shared with C03).",
      "as C06", "DESIGN.md §2 C02")

claim("C14", "abstract interpretation of Caser.Identifierize over all strings of rune classes up to a length bound (A-IDENT, exhaustive up to the bound); " + ENGINE_A + " with identifier-coincidence forking",
      "Decides (1) for EVERY string of Unicode rune classes up to the bound (15 classes: the atoms of the unicode predicates refined by case mapping and Go's identifier grammar) that the synthesised "
      "identifier is non-empty, starts with an upper-case letter and contains only identifier characters — exact, because the code reads runes only through those predicates; (2) over families of sibling "
      "properties, goJSONSchema.identifier overrides (also equal to each other or to a sibling's identifier) and definitions referring to each other in three visiting orders, with every coincidence of "
      "synthesised identifiers explored as a world (transitively consistent), that the emitted file still type-checks (distinct field and type names) and binds every field's tags to its own raw name. "
      "Three known findings (caseless-mapping lower-case first letter; non-decimal numerals; a colliding definition met while the first is in progress is declared under the same name).",
      "as C01; Identifierize is replaced by its specification only inside the schema families, its own behaviour is what A-IDENT decides",
      "DESIGN.md §2 C14")

# ---- additions made after the first complete build (multi-file families, relational twins, A-SIZED, new B rules) ----
def extend(pid, technique, text):
    c = CHECKS[pid]
    if technique:
        c["technique"] += "; " + technique
    c["text"] += " ADDED: " + text

MULTI = ("multi-file abstract generator runs (several in-memory schema files with cross-file $refs behind the module's own CachedLoader, several routings and argument orders)")

extend("C20", MULTI + "; joint go/types check of all emitted packages; must-pass-through rule on main's mapping assembly (B-MAPDEFAULT); id-verbatim rule; B-REFCACHE freshness",
       "multi-file families decide that every reached schema's root type is declared exactly once in the output file and package mapped to its id (two packages; one package in two files; "
       "default output; unrelated extra file; same $id; same base name; cross-file cycle; typeless self-referential root), that a reference is qualified and imported iff packages differ, that all "
       "emitted packages type-check together, that each definition is validated where it lands, and that a file's normalised output is the same for every argument order and with unrelated files; "
       "B-MAPDEFAULT: package and output name of a mapping are set (flag or default) on every path. Known findings: suffix assignment depends on argument order; de-duplication by text across files; "
       "unused import for a cross-package allOf branch. Not decided: real file writing.")
extend("C10", MULTI + "; relational inline-twin comparison; one-type-per-definition (A-SHARE)",
       "every broad-family member at a reference position is compared with its inline twin (an issue counts only if the inline form does not show it); a definition referenced twice yields one type "
       "generated once; cross-file forms as in C20; the ref-text cache is created afresh per file. Three defects found this way were fixed (array definitions lost min/maxItems; multipleOf on a number "
       "definition did not compile; allOf/anyOf definitions were regenerated per reference).")
extend("C15", ENGINE_A + "; A-SIZED end-to-end oracle over the region domain",
       "for integer properties with integral bounds in 12 forms (inclusive, boolean-exclusive, numeric-exclusive, one- and two-sided) x 3 positions under --min-sized-ints, in every feasible cell of each "
       "bound between the type limits: each stated bound is enforced by an emitted branch or implied by the Go type's range, no unstated bound is enforced, and the type holds the smallest and largest "
       "admitted integer. One known finding (bounds cleared in the schema node are lost on a second visit through allOf/anyOf).")
extend("C05", "A-SIZED families (shared with C15); composition and multi-file members",
       "the same bounds under --min-sized-ints (a check may be absent only where the type implies it); a composition that tightens a referenced base leaves the base's own checks alone; same-named "
       "definitions in two files differing only in minimum/maximum/multipleOf keep their own limits.")
extend("C06", "composition and multi-file members",
       "a composition that tightens a referenced base leaves the base's own length/pattern checks alone (validators must not read schema nodes a later merge wrote to); same-named definitions in two "
       "files differing only in minLength/maxLength/pattern keep their own limits.")
extend("C07", "array members at reference positions; composition and multi-file members",
       "arrays as definitions behind $ref (a defect found and fixed: their limits were dropped); composition and two-file members as for C06, for minItems/maxItems.")
extend("C04", "composition and multi-file members", "same-named definitions in two files differing only in `required`; allOf compositions over a shared base.")
extend("C09", MULTI, "the assigned literal must be THIS property's default; same-named definitions in two files differing only in a default keep their own; object default on a property-less object (defect fixed).")
extend("C01", "A-IMPORTSET: abstract interpretation of Package.AddImport on pairs of registrations",
       "the import list stays unique by path whatever the aliases; allOf compositions and definitions referenced twice are part of the broad union (three compile defects found and fixed).")
extend("C02", MULTI, "a composition is built from this file's definitions also when another file uses the same reference text; one base extended by two compositions is not written to by the merge.")
extend("C03", MULTI, "the two-file members 'same reference text as an allOf branch' and 'same-named definitions differing in a nested reference target' (the latter is a known finding).")
extend("C11", "go/types on the composed files", "allOf/anyOf definitions referenced twice are generated once and compile; shared-base and tightening compositions.")
extend("C12", "", "the unsorted-keys exception additionally requires that the loop over the keys carries no state from one id to the next.")
extend("C13", "B-PARSER provenance rule", "the name whose extension selects the YAML/JSON parser is the resolved file name (first result of QualifiedFileName) at every call site.")
extend("C14", MULTI, "two files with the same $id or the same base name both keep their root type; a titled root colliding with a definition keeps its root type (defect fixed).")
extend("C18", ENGINE_A + " on every valid broad-family member (no interpreted panic)", "errors collected into a []error must reach the return on every path; every valid family member is generated without panic.")
extend("C08", "", "enum items of array definitions; enum values that normalise to one identifier get distinct constants (defect fixed); the sized-int enum defect is fixed.")

extend("C10", "A-MEMO / A-DEDUP / B-QUALIFIED", "the loader memo table is decided semantically (interpreted around a recording inner loader) instead of by SSA shape; "
       "QualifiedFileName returns the symlink-resolved location joined to the referring file's directory; getDeclByEqualSchema returns the declaration whose schema equals the query.")
extend("C13", "A-TYPEFORM, A-LEGACY, A-REFNAMES: abstract interpretation of the schema decoders and of extractRefNames on both spellings (stated mini-model of encoding/json.Unmarshal)",
       "`\"T\"` vs `[\"T\"]`, `true` vs `{}`, each legacy/current keyword pair (alone and mixed, current wins) and both pointer prefixes in six capitalisations decode / resolve to the same model; "
       "the SSA fold-shape rule remains only as a fallback for a fold outside the decoder.")
extend("C16", "B-FLAG flag-to-Config wiring table; multi-file naming members", "each option flag's variable is the one its Config field is loaded from; titled roots / --schema-root-type with two files keep each root under its own name.")
extend("C19", "", "the typed decode goes into a local shadow type; reserved-name members (types named Plain/Value/Raw, properties named additional_properties/plain/raw/value).")

# ---- round 4 additions
extend("C02", "A-OVERREJ, A-SHADOW, skip-marker clause of A-TAG", "a reject branch attributable to a keyword rejects no more than the keyword (operator not weaker than the schema's, a rounded fractional limit "
       "paired with the operator that makes it exact); the additional-properties block enumerates the declared keys from the shadow type of the decoded value; no tag is the decoders' skip marker or ends in an "
       "empty option (known finding: a required property named -); anyOf of a typed primitive and an untyped branch stays interface{}; width-hint formats keep the bare type.")
extend("C05", "", "the lossy-limit rule is semantic: direction of rounding and operator must pair up (value < ceil(b) = value <= floor(b)); nullable positions in the quick tier. The int64() truncation of fractional "
       "bounds was repaired (a5d792c).")
extend("C06", "", "defaulted strings: the default assignment precedes every length/pattern check in both methods.")
extend("C03", "", "a $ref with a sibling type/description is still generated from its target; width-hint format members are left to C02/C08.")
extend("C04", "A-TYPEFORM", "a referenced base that also requires a sibling's property (listed first) keeps both presence checks; the decoder hands over a two-element type list as written (clause armed by "
       "interpreting MergeTypes on both orders).")
extend("C08", "", "integer enums with a width-hint format keep the int carrier.")
extend("C09", "", "a string default is never assigned from a raw string literal.")
extend("C10", "", "B-QUALIFIED covers every success return of the file branch; B-PARENT additionally requires addFile(<qualified>, same schema) to dominate any generator built with an unqualified name; "
       "allOf branch in another file with fragment-only references into its own file.")
extend("C11", MULTI, "an allOf branch in another file whose properties refer by fragment into that file; a base that also requires a sibling's property; anyOf branch with properties and additionalProperties.")
extend("C12", "B-PARENT", "a referenced file is registered under its qualified name, so nested relative references do not depend on the working directory.")
extend("C13", "", "a two-element type list decodes in the written order (armed clause).")
extend("C14", "A-SHADOW, A-TAG on reserved-name members", "schema names equal to identifiers the emitted code uses for itself (Plain, raw, value, AdditionalProperties, -): the file type-checks, tags bind, and the "
       "additional-properties block reflects over the shadow type. Identifierize first-rune / non-decimal-numeral defects repaired (80589b9).")
extend("C16", "", "anyOf branch with properties and additionalProperties under --only-models imports nothing validation-only.")
extend("C17", "A-TAGPAR", "every field's json and yaml tags bind the same key or both skip, and no yaml tag carries an option yaml.v3 refuses.")
extend("C18", "", "hostile positions: a property next to allOf/anyOf, a composition branch itself, an anyOf branch of array items in a definition (two known findings: empty/non-primitive enum in a primitive allOf "
       "branch); typed enums with non-primitive values repaired (67cc053).")
extend("C19", "A-TAGPAR (yaml option part)", "the decoded local is never initialised from the receiver; no yaml tag option yaml.v3 panics on; mapstructure.Decode of a possibly nil raw map into a typed map is "
       "guarded (known finding: null with typed additionalProperties panics).")
extend("C20", "", "a definition with a cross-package property that is also an allOf branch keeps the package qualifier on the second visit (regression of an earlier repair, fixed by 8fc97c4).")

# ---- round 5 additions
FID = "A-FIDELITY: (*Type).UnmarshalJSON interpreted on one-keyword documents leaves exactly what plain encoding/json makes of them (no value normalised or dropped)"
for pid, kws in (("C05", "minimum, maximum, multipleOf, exclusiveMinimum, exclusiveMaximum (0, 5, 2.5)"), ("C06", "pattern, minLength, maxLength"), ("C07", "minItems, maxItems"), ("C08", "enum (values that print alike, null, symbolic strings)"), ("C09", "default"), ("C13", "every keyword the decoder does not re-spell")):
    extend(pid, FID, "decoder fidelity for " + kws + ".")
extend("C01", "B-STDOUT", "nothing but the generated source is written to standard output (the default destination).")
extend("C12", "B-TRUNC", "every file opened for writing is truncated: an output file's bytes do not depend on an earlier run.")
extend("C18", "B-TRUNC, B-ARGS, B-STDOUT", "every CLI argument reaches DoFile itself; written files are truncated; standard output carries only code; a whole-file reference to a root-less document fails without a panic; "
       "self-containing allOf is an error (fixed e686943), \"#/$defs/\" is an error (fixed e5576f3); known: a definition whose anyOf lists itself overflows the stack. Output helpers of main are part of the run function's output phase.")
extend("C20", "B-MAPPRESENT", "per-id flag values are used verbatim when given, the empty string included.")
extend("C10", "", "B-QUALIFIED: the probed candidates are unconditionally the name as written followed by every configured extension.")
extend("C03", "B-MERGEMODEL", "maps whose value schema is a reference get the definition's type as value type; the mergo model's assumption about the TypeList transformer is checked.")
extend("C04", "", "maps with referenced value schemas reach the value type's presence checks; a later allOf branch refining a nested object keeps its required members.")
extend("C11", "B-MERGEMODEL, B-CYCLE", "the TypeList transformer is the no-op the model assumes; anyOf cycle markers are released on every path; nested-object and integer-then-number overlaps.")
extend("C14", "", "A-IDENT also with user capitalizations that start lower-case; A-EVENT:symbolic-format on names; argument-order clause on same-$id files.")
extend("C15", "", "an integer generated after a map / array / enum is sized like one generated first; a two-sided bounded integer is never plain int under the flag.")
extend("C17", "", "a tag list without json: both methods enumerate the declared keys of the additional-properties block alike.")
extend("C19", "A-TOTAL", "the UnmarshalJSON methods of pkg/types interpreted on every class of complete JSON value return (no index/slice panic).")
extend("C07", "", "A-IDENT: the field a length check reads is exported for every name and capitalization.")
extend("C02", "A-SIZED families", "end-to-end sized-integer families on optional properties.")
extend("C02", "B-FLAG", "the CLI hands the generator the tag list the user wrote: list flags split commas and accumulate, each flag reaches its Config field.")
extend("C17", "B-FLAG", "the tag list (which both decoders bind by) reaches Config.Tags as written.")
extend("C16", "", "list flags are registered with StringSliceVar(P).")

# ---- round 6 additions
extend("C15", "B-SIZED / A-SIZED with fractional and exclusive bounds (exact comparison of rounded symbolic numbers: cells cut where ceil/floor/round change)",
       "the width table is decided for 5 forms per side (absent, inclusive integral / fractional, numeric exclusive integral / fractional) and the end-to-end families also run with fractional limits: the type is "
       "chosen for the integers the bounds admit (fixed 00797ef: maximum 254.6 became uint8 with the check dropped, exclusiveMaximum 256.2 became uint8).")
extend("C02", "A-COLLECT, A-DEF guard clauses, A-LEGACY ($defs as written)", "the remainder decode targets the collector (a field bound to no key), never a declared property; a stated value is never replaced by the default "
       "(the guard names the property's own key); a legacy `definitions` entry never replaces a `$defs` entry of the same name; fractional sized bounds as in C15.")
extend("C14", "A-COLLECT", "a property named additionalProperties / additional_properties is never taken for the collector, with or without the keyword.")
extend("C12", "B-DET3 cut-path clause", "filepath.Base is applied to the file path itself, not to a path that was shortened at its end first (a file named like a resolve extension would yield the directory's name).")
extend("C07", "A-NILG nil-slice clause", "an optional or nullable array that is absent / null is not measured against minItems; arrays whose field is renamed by goJSONSchema.identifier keep their checks; required nullable arrays.")
extend("C05", "", "numerics whose field is renamed by goJSONSchema.identifier keep every check.")
extend("C06", "A-CTX:cut, pattern-text forks with universality probes", "the pattern's text reaches its literal in one piece (not cut into lines and re-indented by the emitter); where the generator compares the pattern's text with "
       "a constant, both outcomes are worlds and the check may be dropped only for a text that matches every probe string; strings renamed by goJSONSchema.identifier keep their checks.")
extend("C08", "A-LOUD on hostile enums", "an empty enum, or a typed enum listing a non-primitive, is refused in every position (two known findings shared with C18: inside a primitive allOf branch).")
extend("C04", "", "an allOf branch given by reference to a required-only definition is either refused or its required names are enforced.")
extend("C11", MULTI, "referenced required-only branch (refuse or enforce); a recursive definition of another file as an allOf branch keeps its self-reference.")
extend("C10", "A-LEGACY ($defs as written), same-node type clause", "a recursive definition of another file merged into a composition: the self-reference inside it has the same Go type in the definition's struct and in the merged struct "
       "(it is resolved against the document it is written in); no alias for a definition whose own name is taken (fixed 412b1de).")
extend("C13", "A-LEGACY overrides clause", "with both spellings present the legacy keyword never changes what the current one stated (not rescuable by a fold elsewhere).")
extend("C18", "", "hostile kinds: unknown type next to a primitive enum, a null one composition further down (fixed 65994c0: SIGSEGV in determineTypeName).")
extend("C19", "A-TOTAL direct-call classes", "pkg/types decoders also return for the empty input and the lone quote (fixed: slice [1:0] panic).")
extend("C10", "", "reference chains (a definition that is only a $ref): five known findings.")
extend("C09", "", "defaults inside allOf / anyOf branches; a defaulted property's named field type lets the token null through (known finding: defaulted enums refuse null).")
extend("C18", "B-EOF", "every successful return after json.Decoder.Decode is dominated by an end-of-input test on the decoder (fixed bcc2aff: trailing data accepted).")
for _pid in ("C02", "C03", "C04", "C05", "C06", "C07", "C08", "C09", "C10", "C11", "C14", "C15", "C18", "C19"):
    extend(_pid, "", "one family member in four (all in the thorough tier) is also run without --extra-imports, the CLI's default mode.")
# ---- round 7 additions
extend("C13", "", "A-LEGACY other-field clause: the two spellings never leave different models in a field that is not the keyword's own.")
extend("C09", "", "the keys of a map-typed object default are the schema's keys verbatim.")
extend("C16", "A-INDENT", "every top-level declaration of the raw emitted text starts in column 1: no declaration leaves the emitter's indentation raised (comment wrapping does not depend on what was emitted before).")
extend("C01", "A-INDENT", "no declaration leaves the emitter's indentation raised.")
extend("C03", "", "maps whose typed value schema also carries a not keyword keep the typed value; compositions of nullable-object branches stay structs.")
extend("C11", "", "compositions of nullable-object branches.")
extend("C02", "", "a declared array type does not measure its inner arrays against the outer limits.")
extend("C16", "A-IDENT", "whatever the user's capitalizations (also ones that start lower-case), every name still becomes a valid exported identifier.")
# ---- round 8 additions
extend("C01", "A-DECLSET", "Package.AddDecl keeps one of two equal declarations (the alias of a referenced anyOf branch is built anew on every visit); a combined option set (sized, default mode, json tags).")
extend("C10", "A-DECLSET, self-reference clause", "a declaration reached twice is kept once; a document recursive through # keeps its own root type next to an unrelated file of the same output; one definition referenced from a property, array items and map values is one type.")
extend("C20", "", "a document recursive through # next to an unrelated file of the same output.")
extend("C04", "", "the # self-reference member (required keys of nested nodes).")
extend("C13", "B-RAWPEEK, A-FIXKEYS", "the schema decoders never search the raw text of a document; yamlutils.FixMapKeys changes keys only (values pass through for every text, also yes/on/no/off).")
extend("C05", "A-IDENT, A-DEDUP", "width-hint formats (float, double, int32, int64) keep every bound; three same-named definitions keep their own limits.")
extend("C06", "A-IDENT, A-DEDUP", "three same-named definitions keep their own limits.")
extend("C08", "", "three same-named definitions are bound to the declaration of the equal one.")
extend("C07", "", "arrays of null items keep their limits.")
extend("C02", "", "a nested length check measures the element its loops select; number:float is a float64.")
extend("C03", "", "maps whose value schema is an untyped enum or a composition of objects; the anything-schema as property and items.")
extend("C09", "", "map-typed object defaults keep their entries (known finding: typed additionalProperties).")
extend("C17", "A-MAP (decoder parity of field types)", "a property that may be null is a pointer when its type has unmarshalers; a JSON number is a float64.")
extend("C18", "", "B-EOF demands the io.EOF side of a further read (Decoder.More is no end-of-input test).")
extend("C02", "A-IDENT", "a value lands in its field only if the field is exported, for every name and capitalization.")
extend("C04", "A-DEDUP", "a same-named schema is bound to the declaration of the equal one (its presence checks are its own).")
extend("C08", "A-IDENT", "an enum field is exported for every name and capitalization.")
extend("C09", "A-DEDUP, A-IDENT", "defaults belong to the declaration a schema is bound to; a defaulted field is exported.")
extend("C11", "A-DECLSET", "the alias of a referenced anyOf branch is declared once; two inline anyOf branches declaring one property enforce their own keywords only; # inside a composition.")
extend("C20", "A-DECLSET", "a declaration reached twice in one run is emitted once.")
# ---- round 9 additions
extend("C06", "A-REJ:lossy (narrowing conversions)", "a length limit never reaches the emitted check through a narrowing integer conversion (2^31 would wrap).")
extend("C07", "", "a length limit never reaches the emitted check through a narrowing integer conversion.")
extend("C02", "", "a string format on a non-string type leaves the type alone.")
extend("C03", "", "string formats without a library type (duration, uri, uuid) stay strings; string formats on non-string types are annotations.")
extend("C09", "", "object defaults that list some of the declared properties; object default on a reference back to a definition in progress.")
extend("C10", "A-REFNAMES", "both pointer prefixes in any capitalisation name the definition written after them.")
extend("C08", "", "bounded integer enums keep carrier and table in agreement (also under --min-sized-ints).")
extend("C11", "", "required names that differ only in case are two names.")
# ---- round 10 additions
extend("C18", "A-HANG (step budget)", "the suffix search for a free enum constant name terminates (four values normalising to one identifier).")
extend("C08", "", "four enum values that normalise to one identifier get four constants.")
extend("C16", "A-REL (no-alias clause)", "a titled document reached as an allOf branch and then plainly is one type under one name with -t.")
extend("C12", "B-QUALIFIED", "a file name is resolved as written, relative to the referring file (no percent-decoding).")
extend("C10", "", "a file name is resolved as written (no percent-decoding).")
extend("C17", "", "with --extra-imports and a tag list without yaml both methods are emitted and agree.")
# ---- round 11 additions
extend("C02", "", "a union of primitive branches of different types is not declared as one of them (every branch counts).")
extend("C03", "", "a union of primitive branches of different types is interface{}.")
extend("C08", "", "a listed integer value is not converted through a narrower integer type on its way into the value table.")
extend("C10", "", "a document recursive through # keeps its own root type also when a definition has the root's name.")
