#!/bin/bash
# Re-confirms EVERY kept seed (rounds 1-4) at the current /repo HEAD with the agents' own demos, without touching the kept copies'
# notes: the kept copy (possibly a hand-rebased patch) is copied into the round's scratch worktree, confirm_seed.sh is run there,
# and the verdict is appended to meta.json as "reconfirmed". Needs the scratch worktrees /tmp/seed{,2,3,4}/<P>.
cd /verif/seeded || exit 2
run_one() {
  s=$1; P=${s%-*}; AS=${s#*-}
  case $AS in a|b) R=/tmp/seed; C=/tmp/confirm; X=$AS;; c) R=/tmp/seed2; C=/tmp/confirm2; X=a;; d) R=/tmp/seed2; C=/tmp/confirm2; X=b;;
              e) R=/tmp/seed3; C=/tmp/confirm3; X=a;; f) R=/tmp/seed3; C=/tmp/confirm3; X=b;; g) R=/tmp/seed4; C=/tmp/confirm4; X=a;; h) R=/tmp/seed4; C=/tmp/confirm4; X=b;;
              i) R=/tmp/seed5; C=/tmp/confirm5; X=a;; j) R=/tmp/seed5; C=/tmp/confirm5; X=b;; esac
  [ -d $R/$P ] || { echo "$s NO-WORKTREE"; return; }
  git -C $R/$P reset -q --hard 2>/dev/null
  mkdir -p $R/$P/_seed/$X; cp -r /verif/seeded/$s/. $R/$P/_seed/$X/
  SEEDROOT=$R CONF=$C /verif/tools/confirm_seed.sh $P $X >/dev/null 2>&1
  v=$(grep -o 'VERDICT=[a-z]*' $C/$P-$X.result | head -1); su=$(grep -o 'suite=[a-zA-Z]*' $C/$P-$X.result | head -1); ap=$(grep -o 'apply=[a-zA-Z0-9]*' $C/$P-$X.result | head -1)
  echo "$s $v $su $ap"
}
# seeds of one property share a worktree per round: run properties in parallel, the seeds of one property in sequence
for P in $(ls -d */ | sed 's#/##; s/-.*//' | grep '^C' | sort -u); do
  ( for s in $(ls -d $P-*/ 2>/dev/null | sed 's#/##'); do [ -f $s/patch.diff ] && run_one $s; done ) &
  while [ $(jobs -r | wc -l) -ge ${WORKERS:-6} ]; do sleep 2; done
done
wait
