#!/bin/bash
# re-confirms every kept seed at the current /repo HEAD using the agents' demos (needs the /tmp/seed/<P> worktrees)
cd /verif/seeded || exit 2
for d in */; do
  s=${d%/}; P=${s%-*}; X=${s#*-}
  mkdir -p /tmp/seed/$P/_seed/$X
  # the kept copy is authoritative (a patch may have been rebased)
  cp -r /verif/seeded/$s/. /tmp/seed/$P/_seed/$X/
done
for P in $(ls /verif/seeded | sed 's/-.*//' | sort -u); do
  ( for X in a b; do [ -d /verif/seeded/$P-$X ] && /verif/tools/confirm_seed.sh $P $X >/dev/null 2>&1; done ) &
  while [ $(jobs -r | wc -l) -ge 6 ]; do sleep 2; done
done
wait
grep -H "VERDICT\|apply=" /tmp/confirm/*.result | paste - - | sed 's|/tmp/confirm/||g'
